// Command uxcheck decides the claimed properties of go-unixfsnode statically.
//
//	uxcheck -prop C04 -tier quick [-repo /repo] [-verif /verif]
//	uxcheck -dump graph
package main

import (
	"encoding/json"
	"flag"
	"fmt"
	"os"
	"sort"
	"strconv"
	"strings"

	"verifchk/internal/core"
	"verifchk/internal/rules"
)

func main() {
	prop := flag.String("prop", "", "property id (C04 …)")
	tier := flag.String("tier", "quick", "quick|thorough")
	repo := flag.String("repo", "/repo", "repository root")
	verif := flag.String("verif", "/verif", "verification root (evidence, known findings)")
	dump := flag.String("dump", "", "debug: graph")
	arch := flag.String("goarch", "", "GOARCH override")
	noEvidence := flag.Bool("no-evidence", false, "do not write evidence (used by the mutant replayer)")
	flag.Parse()
	seed, _ := strconv.ParseInt(os.Getenv("VERIF_SEED"), 10, 64)

	ctl, err := rules.ControlSources()
	if err != nil {
		fmt.Println("UNDECIDED: cannot read controls:", err)
		os.Exit(2)
	}
	p, err := core.Load(core.LoadOptions{RepoDir: *repo, Controls: ctl, GOARCH: *arch})
	if err != nil {
		fmt.Println("UNDECIDED: load failed:", err)
		if *prop != "" && !*noEvidence {
			r := core.NewReport(*prop, *tier)
			r.Explain = "load failed"
			r.Break("load failed: %v", err)
			r.Finish(*verif, seed, strings.Join(os.Args, " "))
		}
		os.Exit(2)
	}
	g := core.BuildGraph(p)
	if *dump != "" {
		dumpGraph(p, g, *dump)
		return
	}
	rf, ok := rules.Registry[*prop]
	if !ok {
		fmt.Printf("no rules registered for property %q\n", *prop)
		os.Exit(2)
	}
	r := core.NewReport(*prop, *tier)
	r.Trusted = append(r.Trusted, rules.CommonTrusted...)
	r.Analysed["repo_packages"] = len(p.Repo)
	r.Analysed["repo_ssa_functions"] = len(g.Funcs())
	r.Analysed["all_packages"] = len(p.All)
	if *tier == "thorough" {
		// A1 audit: every interface invoke for which assumption A1 suppressed call edges, aggregated by receiver type and method
		agg := map[string]int{}
		for _, d := range g.Dropped {
			agg[d.Recv+"."+d.Method]++
		}
		r.Extra["a1_suppressed_invokes_total"] = len(g.Dropped)
		r.Extra["a1_suppressed_invokes_by_method"] = agg
		if v := os.Getenv("VERIF_EXTRA_386_RC"); v != "" {
			r.Extra["goarch_386_rerun_exit"] = v
		}
		if v := os.Getenv("VERIF_EXTRA_MUT_RC"); v != "" {
			r.Extra["mutant_replay_exit"] = v
		}
		if b, err := os.ReadFile(*verif + "/evidence/mutants-" + *prop + ".json"); err == nil {
			var m any
			if json.Unmarshal(b, &m) == nil {
				r.Extra["mutant_replay"] = m
			}
		}
	}
	c := &rules.Ctx{P: p, G: g, R: r, Tier: *tier}
	func() {
		defer func() {
			if e := recover(); e != nil {
				r.Break("checker panic: %v", e)
			}
		}()
		rf(c)
	}()
	if *noEvidence {
		verifTmp, _ := os.MkdirTemp("", "uxcheck-ev")
		defer os.RemoveAll(verifTmp)
		// known findings still apply
		if b, err := os.ReadFile(*verif + "/known_findings.json"); err == nil {
			os.WriteFile(verifTmp+"/known_findings.json", b, 0o644)
		}
		code := r.Finish(verifTmp, seed, strings.Join(os.Args, " "))
		os.RemoveAll(verifTmp)
		os.Exit(code)
	}
	os.Exit(r.Finish(*verif, seed, strings.Join(os.Args, " ")))
}

func dumpGraph(p *core.Program, g *core.Graph, what string) {
	fmt.Println("repo packages:", len(p.Repo), "repo funcs:", len(g.Funcs()))
	fet := g.Fetchers(nil)
	for _, f := range core.SortedFuncs(fet) {
		fmt.Println("fetcher:", core.FuncName(f))
	}
	for _, f := range core.SortedFuncs(g.Storers(nil)) {
		fmt.Println("storer:", core.FuncName(f))
	}
	re := g.ReachersOf(fet)
	var names []string
	for f := range re {
		names = append(names, core.FuncName(f))
	}
	sort.Strings(names)
	fmt.Println("reach a fetcher:", len(names))
	for _, n := range names {
		fmt.Println("  ", n)
	}
	fmt.Println("A1 dropped invokes:", len(g.Dropped))
	for gl, ents := range g.Tables {
		fmt.Println("table", gl.Name(), len(ents))
		for _, e := range ents {
			fmt.Println("   ", e.Key, core.FuncName(e.Fn))
		}
	}
}
