package core

import (
	"go/constant"
	"go/token"
	"go/types"
	"sort"
	"strings"

	"golang.org/x/tools/go/ssa"
)

// Edge is a call edge of the closed-world repository graph.
type Edge struct {
	Caller *ssa.Function
	Callee *ssa.Function
	Site   ssa.Instruction // the call (or MakeClosure) instruction in Caller; may be nil for synthetic edges
	Kind   string          // static | invoke-cha | funcvalue | callback | closure | inlined-const
}

// DroppedInvoke records an interface invoke for which assumption A1 suppressed all edges.
type DroppedInvoke struct {
	In     *ssa.Function
	Pos    token.Pos
	Recv   string
	Method string
}

// Graph is the closed-world call graph over repository functions (DESIGN §2).
type Graph struct {
	P        *Program
	Out      map[*ssa.Function][]Edge
	In       map[*ssa.Function][]Edge
	Dropped  []DroppedInvoke
	repoSet  map[*ssa.Function]bool
	addrTook []*ssa.Function
	named    []*types.Named // named types declared in repo packages
	// Tables: package-level map[K]func variables -> functions stored in them by init, with constant keys.
	Tables map[*ssa.Global][]TableEntry
	// FieldTables: package-level arrays of structs with function-typed fields (`var t = [...]S{k: {a: f, b: g}}`): one table
	// per (array, field), keyed by the constant element index.
	FieldTables map[FieldTableKey][]TableEntry
	fieldTypes  map[*types.Var]*fieldTypeInfo
	// tblBind: while a callee is expanded for one call site, its parameters that receive a dispatch table (a load of a
	// package-level table) are bound to that table, so that `param[key](…)` resolves to the members of that table only.
	tblBind map[*ssa.Parameter]*ssa.Global
	wtpMemo map[[2]interface{}]int
}

// FieldTableKey names one function-typed field of the element struct of a package-level array.
type FieldTableKey struct {
	Global *ssa.Global
	Field  int
}

// TableEntry is one `key: fn` element of a package-level dispatch table.
type TableEntry struct {
	Key    constant.Value
	KeyObj types.Object // the constant object naming the key, when the key is an identifier
	Fn     *ssa.Function
	Pos    token.Pos
}

func isIPLDPkgPath(path string) bool {
	return strings.HasPrefix(path, "github.com/ipld/go-ipld-prime") || strings.HasPrefix(path, "github.com/ipld/go-codec-dagpb")
}

// IsIPLDInterface reports whether t is a named interface declared in go-ipld-prime or go-codec-dagpb.
func IsIPLDInterface(t types.Type) bool {
	t = types.Unalias(t)
	n, ok := t.(*types.Named)
	if !ok {
		return false
	}
	if _, ok := n.Underlying().(*types.Interface); !ok {
		return false
	}
	if n.Obj().Pkg() == nil {
		return false
	}
	return isIPLDPkgPath(n.Obj().Pkg().Path())
}

// BuildGraph constructs G.
func BuildGraph(p *Program) *Graph {
	g := &Graph{P: p, Out: map[*ssa.Function][]Edge{}, In: map[*ssa.Function][]Edge{}, repoSet: map[*ssa.Function]bool{}, Tables: map[*ssa.Global][]TableEntry{}, FieldTables: map[FieldTableKey][]TableEntry{}}
	for _, f := range p.RepoFuncs {
		g.repoSet[f] = true
	}
	// named types of repo packages
	var paths []string
	for path := range p.Repo {
		paths = append(paths, path)
	}
	sort.Strings(paths)
	for _, path := range paths {
		sc := p.Repo[path].Types.Scope()
		for _, name := range sc.Names() {
			if tn, ok := sc.Lookup(name).(*types.TypeName); ok && !tn.IsAlias() {
				if n, ok := tn.Type().(*types.Named); ok {
					g.named = append(g.named, n)
				}
			}
		}
	}
	// address-taken functions
	taken := map[*ssa.Function]bool{}
	for _, f := range p.RepoFuncs {
		for _, b := range f.Blocks {
			for _, ins := range b.Instrs {
				var callee ssa.Value
				if c, ok := ins.(ssa.CallInstruction); ok {
					callee = c.Common().Value
				}
				for _, op := range ins.Operands(nil) {
					if *op == nil {
						continue
					}
					if fn, ok := (*op).(*ssa.Function); ok && g.repoSet[fn] {
						if callee == fn && !c0IsArg(ins, fn) {
							continue
						}
						taken[fn] = true
					}
					if mc, ok := (*op).(*ssa.MakeClosure); ok {
						if fn, ok := mc.Fn.(*ssa.Function); ok && g.repoSet[fn] {
							taken[fn] = true
						}
					}
				}
				if mc, ok := ins.(*ssa.MakeClosure); ok {
					if fn, ok := mc.Fn.(*ssa.Function); ok {
						taken[fn] = true
						if !g.repoSet[fn] {
							// bound-method wrappers etc. created in repo code: treat as repo
							g.repoSet[fn] = true
						}
					}
				}
			}
		}
	}
	for fn := range taken {
		g.addrTook = append(g.addrTook, fn)
	}
	sort.Slice(g.addrTook, func(i, j int) bool { return g.addrTook[i].String() < g.addrTook[j].String() })
	g.buildTables()
	funcs := make([]*ssa.Function, 0, len(g.repoSet))
	for f := range g.repoSet {
		funcs = append(funcs, f)
	}
	sort.Slice(funcs, func(i, j int) bool { return funcs[i].String() < funcs[j].String() })
	for _, f := range funcs {
		g.edgesOf(f)
	}
	return g
}

// c0IsArg reports whether fn also occurs among the arguments of the call instruction ins.
func c0IsArg(ins ssa.Instruction, fn *ssa.Function) bool {
	c, ok := ins.(ssa.CallInstruction)
	if !ok {
		return false
	}
	for _, a := range c.Common().Args {
		if a == fn {
			return true
		}
	}
	return false
}

func (g *Graph) buildTables() {
	for _, pk := range g.P.Repo {
		sp := g.P.SSA.Package(pk.Types)
		if sp == nil {
			continue
		}
		initFn := sp.Func("init")
		if initFn == nil {
			continue
		}
		for _, b := range initFn.Blocks {
			for _, ins := range b.Instrs {
				st, ok := ins.(*ssa.Store)
				if !ok {
					continue
				}
				// in-place initialisation of an array-of-structs table: *(&global[k].field) = fn
				if fa, ok := st.Addr.(*ssa.FieldAddr); ok {
					if ia, ok := fa.X.(*ssa.IndexAddr); ok {
						if agl, ok := ia.X.(*ssa.Global); ok {
							if k, isK := ia.Index.(*ssa.Const); isK {
								if fn := funcOfValue(st.Val); fn != nil {
									key := FieldTableKey{agl, fa.Field}
									g.FieldTables[key] = append(g.FieldTables[key], TableEntry{Key: k.Value, Fn: fn, Pos: st.Pos()})
								}
							}
						}
					}
					continue
				}
				gl, ok := st.Addr.(*ssa.Global)
				if !ok {
					continue
				}
				if g.buildFieldTables(gl, st) {
					continue
				}
				mm, ok := st.Val.(*ssa.MakeMap)
				if !ok {
					continue
				}
				mt, ok := mm.Type().Underlying().(*types.Map)
				if !ok {
					continue
				}
				if _, ok := mt.Elem().Underlying().(*types.Signature); !ok {
					continue
				}
				var ents []TableEntry
				for _, ref := range *mm.Referrers() {
					mu, ok := ref.(*ssa.MapUpdate)
					if !ok || mu.Map != mm {
						continue
					}
					e := TableEntry{Pos: mu.Pos()}
					if c, ok := mu.Key.(*ssa.Const); ok {
						e.Key = c.Value
					}
					e.Fn = funcOfValue(mu.Value)
					ents = append(ents, e)
				}
				g.Tables[gl] = ents
			}
		}
	}
}

// buildFieldTables decodes `*global = *localArray` where every element of the local array was filled from a local struct
// literal whose function-typed fields hold constant functions.
func (g *Graph) buildFieldTables(gl *ssa.Global, st *ssa.Store) bool {
	ld, ok := st.Val.(*ssa.UnOp)
	if !ok || ld.Op != token.MUL {
		return false
	}
	arr, ok := ld.X.(*ssa.Alloc)
	if !ok || arr.Referrers() == nil {
		return false
	}
	at, ok := arr.Type().Underlying().(*types.Pointer)
	if !ok {
		return false
	}
	av, ok := at.Elem().Underlying().(*types.Array)
	if !ok {
		return false
	}
	est, ok := av.Elem().Underlying().(*types.Struct)
	if !ok {
		return false
	}
	hasFunc := false
	for i := 0; i < est.NumFields(); i++ {
		if _, isSig := est.Field(i).Type().Underlying().(*types.Signature); isSig {
			hasFunc = true
		}
	}
	if !hasFunc {
		return false
	}
	found := false
	for _, ref := range *arr.Referrers() {
		ia, ok := ref.(*ssa.IndexAddr)
		if !ok || ia.Referrers() == nil {
			continue
		}
		k, isK := ia.Index.(*ssa.Const)
		if !isK {
			continue
		}
		for _, r2 := range *ia.Referrers() {
			est2, ok := r2.(*ssa.Store)
			if !ok || est2.Addr != ssa.Value(ia) {
				continue
			}
			sld, ok := est2.Val.(*ssa.UnOp)
			if !ok || sld.Op != token.MUL {
				continue
			}
			sal, ok := sld.X.(*ssa.Alloc)
			if !ok || sal.Referrers() == nil {
				continue
			}
			for _, r3 := range *sal.Referrers() {
				fa, ok := r3.(*ssa.FieldAddr)
				if !ok || fa.Referrers() == nil {
					continue
				}
				for _, r4 := range *fa.Referrers() {
					fst, ok := r4.(*ssa.Store)
					if !ok || fst.Addr != ssa.Value(fa) {
						continue
					}
					if fn := funcOfValue(fst.Val); fn != nil {
						key := FieldTableKey{gl, fa.Field}
						g.FieldTables[key] = append(g.FieldTables[key], TableEntry{Key: k.Value, Fn: fn, Pos: fst.Pos()})
						found = true
					}
				}
			}
		}
	}
	return found
}

// FieldTableOfLoad: v loads `global[i].field` of an array-of-structs dispatch table; returns its entries.
func (g *Graph) FieldTableOfLoad(v ssa.Value) ([]TableEntry, FieldTableKey, bool) {
	u, ok := v.(*ssa.UnOp)
	if !ok || u.Op != token.MUL {
		return nil, FieldTableKey{}, false
	}
	fa, ok := u.X.(*ssa.FieldAddr)
	if !ok {
		return nil, FieldTableKey{}, false
	}
	ia, ok := fa.X.(*ssa.IndexAddr)
	if !ok {
		return nil, FieldTableKey{}, false
	}
	gl, ok := ia.X.(*ssa.Global)
	if !ok {
		return nil, FieldTableKey{}, false
	}
	key := FieldTableKey{gl, fa.Field}
	ents, has := g.FieldTables[key]
	return ents, key, has
}

func funcOfValue(v ssa.Value) *ssa.Function {
	switch x := v.(type) {
	case *ssa.Function:
		return x
	case *ssa.MakeClosure:
		if f, ok := x.Fn.(*ssa.Function); ok {
			return f
		}
	case *ssa.ChangeType:
		return funcOfValue(x.X)
	case *ssa.MakeInterface:
		return funcOfValue(x.X)
	}
	return nil
}

func (g *Graph) addEdge(caller, callee *ssa.Function, site ssa.Instruction, kind string) {
	if callee == nil || !g.repoSet[callee] {
		return
	}
	for _, e := range g.Out[caller] {
		if e.Callee == callee && e.Site == site {
			return
		}
	}
	e := Edge{Caller: caller, Callee: callee, Site: site, Kind: kind}
	g.Out[caller] = append(g.Out[caller], e)
	g.In[callee] = append(g.In[callee], e)
}

// implementers returns repo methods implementing method m of interface it (CHA over repo types).
func (g *Graph) implementers(it *types.Interface, m *types.Func) []*ssa.Function {
	var out []*ssa.Function
	for _, n := range g.named {
		if _, isIface := n.Underlying().(*types.Interface); isIface {
			continue
		}
		for _, t := range []types.Type{n, types.NewPointer(n)} {
			if !types.Implements(t, it) {
				continue
			}
			ms := g.P.SSA.MethodSets.MethodSet(t)
			sel := ms.Lookup(m.Pkg(), m.Name())
			if sel == nil {
				continue
			}
			if fn := g.P.SSA.MethodValue(sel); fn != nil {
				g.ensureRepo(fn)
				out = append(out, fn)
			}
		}
	}
	return out
}

// ensureRepo registers synthetic wrappers (promoted methods) of repo types as repo functions.
func (g *Graph) ensureRepo(fn *ssa.Function) {
	if g.repoSet[fn] {
		return
	}
	if fn.Signature.Recv() != nil {
		t := fn.Signature.Recv().Type()
		if pt, ok := types.Unalias(t).(*types.Pointer); ok {
			t = pt.Elem()
		}
		if n, ok := types.Unalias(t).(*types.Named); ok && g.P.IsRepoPkg(n.Obj().Pkg()) {
			g.repoSet[fn] = true
			g.edgesOf(fn)
		}
	}
}

func ifaceOf(t types.Type) *types.Interface {
	it, _ := types.Unalias(t).Underlying().(*types.Interface)
	return it
}

// FeasibleUnder computes the blocks of fn reachable from entry, and feasible CFG edges, when
// parameter param has the boolean value val (branches on the parameter itself or its negation are pruned).
func FeasibleUnder(fn *ssa.Function, param *ssa.Parameter, val bool) (blocks map[*ssa.BasicBlock]bool, edges map[[2]*ssa.BasicBlock]bool) {
	blocks = map[*ssa.BasicBlock]bool{}
	edges = map[[2]*ssa.BasicBlock]bool{}
	if len(fn.Blocks) == 0 {
		return
	}
	var walk func(b *ssa.BasicBlock)
	walk = func(b *ssa.BasicBlock) {
		if blocks[b] {
			return
		}
		blocks[b] = true
		succs := b.Succs
		if len(b.Instrs) > 0 {
			if iff, ok := b.Instrs[len(b.Instrs)-1].(*ssa.If); ok && param != nil {
				if iff.Cond == ssa.Value(param) {
					if val {
						succs = b.Succs[:1]
					} else {
						succs = b.Succs[1:]
					}
				} else if u, ok := iff.Cond.(*ssa.UnOp); ok && u.Op == token.NOT && u.X == ssa.Value(param) {
					if val {
						succs = b.Succs[1:]
					} else {
						succs = b.Succs[:1]
					}
				}
			}
		}
		for _, s := range succs {
			edges[[2]*ssa.BasicBlock{b, s}] = true
			walk(s)
		}
	}
	walk(fn.Blocks[0])
	return
}

// ResolveFuncValue returns the repository functions a called function value may denote.
// precise=false means the fallback "all address-taken functions with identical signature" was used.
func (g *Graph) ResolveFuncValue(v ssa.Value, feasible map[[2]*ssa.BasicBlock]bool) (fns []*ssa.Function, precise bool) {
	return g.resolveFuncValueCtx(v, feasible, nil, false)
}

// resolveFuncValueCtx is ResolveFuncValue with the specialisation context (the bool parameter that is fixed and its value),
// so that a value returned by a repository helper that receives the same flag is resolved under the same value.
func (g *Graph) resolveFuncValueCtx(v ssa.Value, feasible map[[2]*ssa.BasicBlock]bool, specParam *ssa.Parameter, specVal bool) (fns []*ssa.Function, precise bool) {
	type key struct {
		v ssa.Value
	}
	seen := map[ssa.Value]bool{}
	precise = true
	var rec func(v ssa.Value, feas map[[2]*ssa.BasicBlock]bool, sp *ssa.Parameter, depth int)
	rec = func(v ssa.Value, feas map[[2]*ssa.BasicBlock]bool, sp *ssa.Parameter, depth int) {
		if seen[v] || depth > 8 {
			return
		}
		seen[v] = true
		switch x := v.(type) {
		case *ssa.Function:
			fns = append(fns, x)
		case *ssa.MakeClosure:
			if f, ok := x.Fn.(*ssa.Function); ok {
				fns = append(fns, f)
			}
		case *ssa.ChangeType:
			rec(x.X, feas, sp, depth+1)
		case *ssa.Phi:
			for i, e := range x.Edges {
				if feas != nil && !feas[[2]*ssa.BasicBlock{x.Block().Preds[i], x.Block()}] {
					continue
				}
				rec(e, feas, sp, depth+1)
			}
		case *ssa.Extract:
			if call, ok := x.Tuple.(*ssa.Call); ok {
				if callee := call.Call.StaticCallee(); callee != nil && g.repoSet[callee] && len(callee.Blocks) > 0 {
					cfeas, cblocks, csp := g.calleeFeasibility(callee, call, sp, specVal)
					n := 0
					for _, b := range callee.Blocks {
						if cblocks != nil && !cblocks[b] {
							continue
						}
						if len(b.Instrs) == 0 {
							continue
						}
						if ret, ok := b.Instrs[len(b.Instrs)-1].(*ssa.Return); ok && x.Index < len(ret.Results) {
							n++
							rec(ret.Results[x.Index], cfeas, csp, depth+1)
						}
					}
					if n > 0 {
						return
					}
				}
			}
			rec(x.Tuple, feas, sp, depth+1)
		case *ssa.UnOp:
			if ents, _, ok := g.FieldTableOfLoad(x); ok {
				for _, e := range ents {
					if e.Fn != nil {
						fns = append(fns, e.Fn)
					}
				}
				return
			}
			precise = false
		case *ssa.Lookup:
			mv := x.X
			if ct, ok := mv.(*ssa.ChangeType); ok {
				mv = ct.X
			}
			if p, ok := mv.(*ssa.Parameter); ok {
				if gl := g.tblBind[p]; gl != nil {
					for _, e := range g.Tables[gl] {
						if e.Fn != nil {
							fns = append(fns, e.Fn)
						}
					}
					return
				}
			}
			gls, ok := TableGlobals(x.X, feas)
			if ok {
				all := true
				for _, gl := range gls {
					if _, has := g.Tables[gl]; !has {
						all = false
					}
				}
				if all && len(gls) > 0 {
					for _, gl := range gls {
						for _, e := range g.Tables[gl] {
							if e.Fn != nil {
								fns = append(fns, e.Fn)
							}
						}
					}
					return
				}
			}
			precise = false
		case *ssa.Const:
			// nil function
		default:
			precise = false
		}
	}
	rec(v, feasible, specParam, 0)
	if !precise {
		sig, ok := v.Type().Underlying().(*types.Signature)
		if ok {
			for _, f := range g.addrTook {
				if sameSig(f.Signature, sig) {
					fns = append(fns, f)
				}
			}
		}
	}
	return
}

// calleeFeasibility: when callee has a single bool parameter and the call passes a constant, or passes on the caller's
// own fixed flag, the callee is analysed under that value.
func (g *Graph) calleeFeasibility(callee *ssa.Function, call ssa.CallInstruction, callerParam *ssa.Parameter, callerVal bool) (map[[2]*ssa.BasicBlock]bool, map[*ssa.BasicBlock]bool, *ssa.Parameter) {
	bp := g.specialisable(callee)
	if bp == nil {
		return nil, nil, nil
	}
	idx := paramIndex(callee, bp)
	args := call.Common().Args
	if idx < 0 || idx >= len(args) {
		return nil, nil, nil
	}
	if c, ok := args[idx].(*ssa.Const); ok && c.Value != nil && c.Value.Kind() == constant.Bool {
		blocks, feas := FeasibleUnder(callee, bp, constant.BoolVal(c.Value))
		return feas, blocks, bp
	}
	if callerParam != nil && args[idx] == ssa.Value(callerParam) {
		blocks, feas := FeasibleUnder(callee, bp, callerVal)
		return feas, blocks, bp
	}
	return nil, nil, nil
}

func sameSig(a, b *types.Signature) bool {
	// compare without receivers
	na := types.NewSignatureType(nil, nil, nil, a.Params(), a.Results(), a.Variadic())
	nb := types.NewSignatureType(nil, nil, nil, b.Params(), b.Results(), b.Variadic())
	return types.Identical(na, nb)
}

func globalOfLoad(v ssa.Value) *ssa.Global {
	if u, ok := v.(*ssa.UnOp); ok && u.Op == token.MUL {
		if gl, ok := u.X.(*ssa.Global); ok {
			return gl
		}
	}
	return nil
}

// CalleesAt returns the repository functions that the call instruction may transfer control to
// (directly or via callbacks handed to opaque externals).
func (g *Graph) CalleesAt(f *ssa.Function, call ssa.CallInstruction, feasible map[[2]*ssa.BasicBlock]bool) []Edge {
	var out []Edge
	add := func(callee *ssa.Function, kind string) {
		if callee == nil {
			return
		}
		g.ensureRepo(callee)
		if !g.repoSet[callee] {
			return
		}
		out = append(out, Edge{Caller: f, Callee: callee, Site: call, Kind: kind})
	}
	cc := call.Common()
	if cc.IsInvoke() {
		recvT := cc.Value.Type()
		if IsIPLDInterface(recvT) {
			g.Dropped = append(g.Dropped, DroppedInvoke{In: f, Pos: call.Pos(), Recv: types.TypeString(recvT, nil), Method: cc.Method.Name()})
			return out
		}
		if it := ifaceOf(recvT); it != nil {
			// field-sensitive refinement: the receiver is loaded from a field of a repository struct and every value
			// ever stored to that field has a known concrete type (closed world over unexported struct types)
			if ts, ok := g.fieldLoadTypes(cc.Value); ok {
				for _, t := range ts {
					ms := g.P.SSA.MethodSets.MethodSet(t)
					if sel := ms.Lookup(cc.Method.Pkg(), cc.Method.Name()); sel != nil {
						add(g.P.SSA.MethodValue(sel), "invoke-field")
					}
				}
				return out
			}
			for _, fn := range g.implementers(it, cc.Method) {
				add(fn, "invoke-cha")
			}
		}
		return out
	}
	if callee := cc.StaticCallee(); callee != nil {
		g.ensureRepo(callee)
		if g.repoSet[callee] {
			add(callee, "static")
			return out
		}
		// opaque external: callbacks
		var params *types.Tuple
		if callee.Signature != nil {
			params = callee.Signature.Params()
		}
		args := cc.Args
		off := 0
		if callee.Signature.Recv() != nil {
			off = 1 // receiver is args[0]
		}
		for i, a := range args {
			// function values
			if fn := funcOfValue(a); fn != nil {
				add(fn, "callback")
				continue
			}
			if _, ok := a.Type().Underlying().(*types.Signature); ok {
				fns, _ := g.ResolveFuncValue(a, feasible)
				for _, fn := range fns {
					add(fn, "callback")
				}
				continue
			}
			// slices of interfaces built from repo values (variadic io.MultiReader(readers...)) are covered by the
			// interface-typed element rule below only when the static element type is an interface.
			var pt types.Type
			if params != nil && i-off >= 0 && i-off < params.Len() {
				pt = params.At(i - off).Type()
			}
			g.callbackIface(f, call, a, pt, add)
		}
		return out
	}
	// dynamic call of a function value (or builtin)
	if _, ok := cc.Value.(*ssa.Builtin); ok {
		return out
	}
	fns, _ := g.ResolveFuncValue(cc.Value, feasible)
	for _, fn := range fns {
		add(fn, "funcvalue")
	}
	return out
}

// callbackIface adds edges for an argument that carries methods an opaque external may call.
func (g *Graph) callbackIface(f *ssa.Function, call ssa.CallInstruction, a ssa.Value, paramT types.Type, add func(*ssa.Function, string)) {
	at := a.Type()
	// unwrap slice element (variadic interface slices)
	if sl, ok := at.Underlying().(*types.Slice); ok {
		at = sl.Elem()
		if paramT != nil {
			if psl, ok := paramT.Underlying().(*types.Slice); ok {
				paramT = psl.Elem()
			}
		}
	}
	if mi, ok := a.(*ssa.MakeInterface); ok {
		// concrete repo type: all its methods required by the parameter interface (or all if unknown)
		ct := mi.X.Type()
		var it *types.Interface
		if paramT != nil {
			it = ifaceOf(paramT)
		}
		if it != nil && IsIPLDInterface(paramT) {
			return
		}
		ms := g.P.SSA.MethodSets.MethodSet(ct)
		for i := 0; i < ms.Len(); i++ {
			sel := ms.At(i)
			if it != nil && it.NumMethods() > 0 {
				if o, _, _ := types.LookupFieldOrMethod(it, false, sel.Obj().Pkg(), sel.Obj().Name()); o == nil {
					continue
				}
			}
			if fn := g.P.SSA.MethodValue(sel); fn != nil {
				add(fn, "callback")
			}
		}
		return
	}
	if it := ifaceOf(at); it != nil {
		if IsIPLDInterface(at) {
			return
		}
		for i := 0; i < it.NumMethods(); i++ {
			for _, fn := range g.implementers(it, it.Method(i)) {
				add(fn, "callback")
			}
		}
	}
}

// constBoolParamCallers: if fn has exactly one bool parameter and every repo call site passes a constant for it,
// returns that parameter.
func (g *Graph) specialisable(fn *ssa.Function) *ssa.Parameter {
	var bp *ssa.Parameter
	for _, p := range fn.Params {
		if b, ok := p.Type().Underlying().(*types.Basic); ok && b.Kind() == types.Bool {
			if bp != nil {
				return nil
			}
			bp = p
		}
	}
	return bp
}

func paramIndex(fn *ssa.Function, p *ssa.Parameter) int {
	for i, q := range fn.Params {
		if q == p {
			return i
		}
	}
	return -1
}

func (g *Graph) edgesOf(f *ssa.Function) {
	if _, done := g.Out[f]; done {
		return
	}
	g.Out[f] = nil
	for _, b := range f.Blocks {
		for _, ins := range b.Instrs {
			switch x := ins.(type) {
			case *ssa.MakeClosure:
				if fn, ok := x.Fn.(*ssa.Function); ok {
					g.addEdge(f, fn, x, "closure")
				}
			case ssa.CallInstruction:
				// constant-bool specialisation: inline callee's edges under the constant
				cc := x.Common()
				if callee := cc.StaticCallee(); callee != nil && g.repoSet[callee] {
					if bp := g.specialisable(callee); bp != nil {
						idx := paramIndex(callee, bp)
						if idx >= 0 && idx < len(cc.Args) {
							if c, ok := cc.Args[idx].(*ssa.Const); ok && c.Value != nil && c.Value.Kind() == constant.Bool {
								val := constant.BoolVal(c.Value)
								for _, e := range g.SpecialisedCallees(callee, bp, val) {
									g.addEdge(f, e.Callee, x, "inlined-const")
								}
								continue
							}
						}
					}
				}
				// dispatch-table specialisation: the callee receives a package-level table as an argument (or receiver)
				if callee := cc.StaticCallee(); callee != nil && g.repoSet[callee] && len(callee.Blocks) > 0 {
					if bind := g.TableArgs(callee, cc); len(bind) > 0 {
						for _, e := range g.tableSpecialised(callee, bind) {
							g.addEdge(f, e.Callee, x, "inlined-table")
						}
						continue
					}
				}
				for _, e := range g.CalleesAt(f, x, nil) {
					g.addEdge(f, e.Callee, x, e.Kind)
				}
			}
		}
	}
}

// TableArgs maps the parameters of callee that receive a load of a package-level dispatch table at this call.
func (g *Graph) TableArgs(callee *ssa.Function, cc *ssa.CallCommon) map[*ssa.Parameter]*ssa.Global {
	var bind map[*ssa.Parameter]*ssa.Global
	for i, a := range cc.Args {
		if ct, ok := a.(*ssa.ChangeType); ok {
			a = ct.X
		}
		gl := globalOfLoad(a)
		if gl == nil || i >= len(callee.Params) {
			continue
		}
		if _, isTable := g.Tables[gl]; !isTable {
			continue
		}
		if bind == nil {
			bind = map[*ssa.Parameter]*ssa.Global{}
		}
		bind[callee.Params[i]] = gl
	}
	return bind
}

// tableSpecialised lists the call edges of callee when the given parameters denote the given tables.
func (g *Graph) tableSpecialised(callee *ssa.Function, bind map[*ssa.Parameter]*ssa.Global) []Edge {
	if g.tblBind == nil {
		g.tblBind = map[*ssa.Parameter]*ssa.Global{}
	}
	for p, gl := range bind {
		g.tblBind[p] = gl
	}
	defer func() {
		for p := range bind {
			delete(g.tblBind, p)
		}
	}()
	var out []Edge
	for _, b := range callee.Blocks {
		for _, ins := range b.Instrs {
			switch x := ins.(type) {
			case *ssa.MakeClosure:
				if cf, ok := x.Fn.(*ssa.Function); ok {
					out = append(out, Edge{Caller: callee, Callee: cf, Site: x, Kind: "closure"})
				}
			case ssa.CallInstruction:
				cc := x.Common()
				if cc.StaticCallee() == nil && !cc.IsInvoke() {
					if _, isB := cc.Value.(*ssa.Builtin); !isB {
						fns, _ := g.resolveFuncValueCtx(cc.Value, nil, nil, false)
						for _, f := range fns {
							g.ensureRepo(f)
							if g.repoSet[f] {
								out = append(out, Edge{Caller: callee, Callee: f, Site: x, Kind: "funcvalue"})
							}
						}
						continue
					}
				}
				out = append(out, g.CalleesAt(callee, x, nil)...)
			}
		}
	}
	return out
}

// TableOfParam: the table a parameter is currently bound to (only during tableSpecialised); exported for rules that
// evaluate a dispatcher under a given table.
func (g *Graph) WithTableBinding(bind map[*ssa.Parameter]*ssa.Global, f func()) {
	if g.tblBind == nil {
		g.tblBind = map[*ssa.Parameter]*ssa.Global{}
	}
	for p, gl := range bind {
		g.tblBind[p] = gl
	}
	f()
	for p := range bind {
		delete(g.tblBind, p)
	}
}

// SpecialisedCallees lists the call edges of fn on the paths feasible when param == val. Repository callees that are
// handed the same flag (or a constant flag) are expanded under that value as well.
func (g *Graph) SpecialisedCallees(fn *ssa.Function, param *ssa.Parameter, val bool) []Edge {
	return g.specialisedCallees(fn, param, val, 0)
}

func (g *Graph) specialisedCallees(fn *ssa.Function, param *ssa.Parameter, val bool, depth int) []Edge {
	blocks, feas := FeasibleUnder(fn, param, val)
	var out []Edge
	for _, b := range fn.Blocks {
		if !blocks[b] {
			continue
		}
		for _, ins := range b.Instrs {
			switch x := ins.(type) {
			case *ssa.MakeClosure:
				if cf, ok := x.Fn.(*ssa.Function); ok {
					out = append(out, Edge{Caller: fn, Callee: cf, Site: x, Kind: "closure"})
				}
			case ssa.CallInstruction:
				cc := x.Common()
				if callee := cc.StaticCallee(); callee != nil && g.repoSet[callee] && depth < 3 {
					if bp := g.specialisable(callee); bp != nil {
						idx := paramIndex(callee, bp)
						if idx >= 0 && idx < len(cc.Args) {
							if c, ok := cc.Args[idx].(*ssa.Const); ok && c.Value != nil && c.Value.Kind() == constant.Bool {
								out = append(out, g.specialisedCallees(callee, bp, constant.BoolVal(c.Value), depth+1)...)
								continue
							}
							if cc.Args[idx] == ssa.Value(param) {
								out = append(out, g.specialisedCallees(callee, bp, val, depth+1)...)
								continue
							}
						}
					}
				}
				if cc.StaticCallee() == nil && !cc.IsInvoke() {
					if _, isB := cc.Value.(*ssa.Builtin); !isB {
						fns, _ := g.resolveFuncValueCtx(cc.Value, feas, param, val)
						for _, f := range fns {
							g.ensureRepo(f)
							if g.repoSet[f] {
								out = append(out, Edge{Caller: fn, Callee: f, Site: x, Kind: "funcvalue"})
							}
						}
						continue
					}
				}
				out = append(out, g.CalleesAt(fn, x, feas)...)
			}
		}
	}
	return out
}

// Reach computes the set of functions reachable from start (inclusive) and a predecessor map for paths.
func (g *Graph) Reach(start *ssa.Function) (map[*ssa.Function]bool, map[*ssa.Function]*ssa.Function) {
	seen := map[*ssa.Function]bool{start: true}
	pred := map[*ssa.Function]*ssa.Function{}
	q := []*ssa.Function{start}
	for len(q) > 0 {
		f := q[0]
		q = q[1:]
		g.ensureRepo(f)
		for _, e := range g.Out[f] {
			if !seen[e.Callee] {
				seen[e.Callee] = true
				pred[e.Callee] = f
				q = append(q, e.Callee)
			}
		}
	}
	return seen, pred
}

// PathTo returns a call path from start to the first function in targets (BFS), or nil.
func (g *Graph) PathTo(start *ssa.Function, targets map[*ssa.Function]bool) []*ssa.Function {
	seen, pred := g.Reach(start)
	var hit *ssa.Function
	// pick deterministically the closest by BFS order: recompute BFS order
	order := []*ssa.Function{start}
	vis := map[*ssa.Function]bool{start: true}
	for i := 0; i < len(order); i++ {
		f := order[i]
		if targets[f] {
			hit = f
			break
		}
		for _, e := range g.Out[f] {
			if !vis[e.Callee] {
				vis[e.Callee] = true
				order = append(order, e.Callee)
			}
		}
	}
	_ = seen
	if hit == nil {
		return nil
	}
	var path []*ssa.Function
	for f := hit; f != nil; f = pred[f] {
		path = append([]*ssa.Function{f}, path...)
		if f == start {
			break
		}
	}
	return path
}

// PathString renders a call path.
func PathString(path []*ssa.Function) string {
	var s []string
	for _, f := range path {
		s = append(s, FuncName(f))
	}
	return strings.Join(s, " -> ")
}

// FuncName is a stable, line-free name for an SSA function: "file.(*shardNodeReader).Seek", closures as "f$1".
func FuncName(f *ssa.Function) string {
	if f == nil {
		return "<nil>"
	}
	s := f.String()
	s = strings.ReplaceAll(s, Module+"/", "")
	s = strings.ReplaceAll(s, Module, "unixfsnode")
	return s
}

// ReachersOf returns all repo functions from which some function in targets is reachable.
func (g *Graph) ReachersOf(targets map[*ssa.Function]bool) map[*ssa.Function]bool {
	out := map[*ssa.Function]bool{}
	var q []*ssa.Function
	for t := range targets {
		out[t] = true
		q = append(q, t)
	}
	for len(q) > 0 {
		f := q[0]
		q = q[1:]
		for _, e := range g.In[f] {
			if !out[e.Caller] {
				out[e.Caller] = true
				q = append(q, e.Caller)
			}
		}
	}
	return out
}

// Funcs returns all functions known to the graph in deterministic order.
func (g *Graph) Funcs() []*ssa.Function {
	out := make([]*ssa.Function, 0, len(g.repoSet))
	for f := range g.repoSet {
		out = append(out, f)
	}
	sort.Slice(out, func(i, j int) bool { return out[i].String() < out[j].String() })
	return out
}

// fieldLoadTypes: if v is a load of an interface-typed field of an unexported repository struct, returns the concrete
// types of all values stored to that field anywhere in the repository; ok=false when any store is opaque.
func (g *Graph) fieldLoadTypes(v ssa.Value) ([]types.Type, bool) {
	u, ok := v.(*ssa.UnOp)
	if !ok || u.Op != token.MUL {
		return nil, false
	}
	_, fv, ok := FieldAddrOf(u.X)
	if !ok || fv.Pkg() == nil || !g.P.IsRepoPkg(fv.Pkg()) {
		return nil, false
	}
	// owning struct must be an unexported named type (nobody outside the repository can assign the field)
	if pt, ok := u.X.(*ssa.FieldAddr).X.Type().Underlying().(*types.Pointer); ok {
		if n, ok := types.Unalias(pt.Elem()).(*types.Named); ok {
			if n.Obj().Exported() {
				return nil, false
			}
		} else {
			return nil, false
		}
	}
	if g.fieldTypes == nil {
		g.fieldTypes = map[*types.Var]*fieldTypeInfo{}
	}
	if fi, ok := g.fieldTypes[fv]; ok {
		return fi.types, fi.ok
	}
	fi := &fieldTypeInfo{ok: true}
	g.fieldTypes[fv] = fi
	seen := map[string]bool{}
	nstores := 0
	for _, fn := range g.P.RepoFuncs {
		for _, b := range fn.Blocks {
			for _, ins := range b.Instrs {
				st, ok := ins.(*ssa.Store)
				if !ok {
					continue
				}
				_, sf, ok := FieldAddrOf(st.Addr)
				if !ok || sf != fv {
					continue
				}
				nstores++
				ts, ok := g.concreteTypesOf(st.Val, 0)
				if !ok {
					fi.ok = false
					return nil, false
				}
				for _, t := range ts {
					k := types.TypeString(t, nil)
					if !seen[k] {
						seen[k] = true
						fi.types = append(fi.types, t)
					}
				}
			}
		}
	}
	if nstores == 0 {
		fi.ok = false
	}
	return fi.types, fi.ok
}

type fieldTypeInfo struct {
	types []types.Type
	ok    bool
}

// concreteTypesOf resolves the dynamic types an interface value may hold (MakeInterface, phi, results of repository functions).
func (g *Graph) concreteTypesOf(v ssa.Value, depth int) ([]types.Type, bool) {
	if depth > 6 {
		return nil, false
	}
	switch x := v.(type) {
	case *ssa.MakeInterface:
		return []types.Type{x.X.Type()}, true
	case *ssa.Const:
		if x.Value == nil {
			return nil, true
		}
	case *ssa.ChangeInterface:
		return g.concreteTypesOf(x.X, depth+1)
	case *ssa.Phi:
		var out []types.Type
		for _, e := range x.Edges {
			ts, ok := g.concreteTypesOf(e, depth+1)
			if !ok {
				return nil, false
			}
			out = append(out, ts...)
		}
		return out, true
	case *ssa.Extract:
		if call, ok := x.Tuple.(*ssa.Call); ok {
			return g.concreteResultTypes(call, x.Index, depth)
		}
	case *ssa.Call:
		return g.concreteResultTypes(x, 0, depth)
	}
	if _, isIface := v.Type().Underlying().(*types.Interface); !isIface {
		return []types.Type{v.Type()}, true
	}
	return nil, false
}

func (g *Graph) concreteResultTypes(call *ssa.Call, idx, depth int) ([]types.Type, bool) {
	f := call.Call.StaticCallee()
	if f == nil || len(f.Blocks) == 0 {
		return nil, false
	}
	if _, isRepo := g.P.PkgOf(f); !isRepo {
		return nil, false
	}
	var out []types.Type
	for _, b := range f.Blocks {
		if len(b.Instrs) == 0 {
			continue
		}
		ret, ok := b.Instrs[len(b.Instrs)-1].(*ssa.Return)
		if !ok || idx >= len(ret.Results) {
			continue
		}
		ts, ok := g.concreteTypesOf(ret.Results[idx], depth+1)
		if !ok {
			return nil, false
		}
		out = append(out, ts...)
	}
	return out, true
}

// ConcreteTypesOf exposes the dynamic-type resolution used for field-sensitive dispatch.
func (g *Graph) ConcreteTypesOf(v ssa.Value) ([]types.Type, bool) { return g.concreteTypesOf(v, 0) }

// TableGlobals resolves a map value to the package-level variables it may have been loaded from
// (a direct load, or a phi of loads; infeasible phi edges are skipped when feasibility is known).
func TableGlobals(v ssa.Value, feasible map[[2]*ssa.BasicBlock]bool) ([]*ssa.Global, bool) {
	switch x := v.(type) {
	case *ssa.UnOp:
		if gl := globalOfLoad(x); gl != nil {
			return []*ssa.Global{gl}, true
		}
	case *ssa.Phi:
		var out []*ssa.Global
		for i, e := range x.Edges {
			if feasible != nil && !feasible[[2]*ssa.BasicBlock{x.Block().Preds[i], x.Block()}] {
				continue
			}
			gs, ok := TableGlobals(e, feasible)
			if !ok {
				return nil, false
			}
			out = append(out, gs...)
		}
		return out, true
	}
	return nil, false
}
