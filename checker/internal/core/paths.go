package core

import (
	"go/constant"
	"go/token"
	"go/types"

	"golang.org/x/tools/go/ssa"
)

// EnumPaths enumerates entry-to-exit block paths of fn. A block may appear at most maxVisit
// times on a path (loops unrolled maxVisit-1 times). It stops after limit paths and then
// returns false (incomplete enumeration must be treated as undecided by the caller).
// Exit blocks are those ending in Return or Panic (no successors).
func EnumPaths(fn *ssa.Function, maxVisit, limit int, visit func(path []*ssa.BasicBlock)) bool {
	if len(fn.Blocks) == 0 {
		return true
	}
	return EnumPathsFrom(fn.Blocks[0], maxVisit, limit, visit)
}

// EnumPathsFrom is EnumPaths starting at an arbitrary block (suffix paths).
func EnumPathsFrom(start *ssa.BasicBlock, maxVisit, limit int, visit func(path []*ssa.BasicBlock)) bool {
	count := 0
	visits := map[*ssa.BasicBlock]int{}
	var path []*ssa.BasicBlock
	var rec func(b *ssa.BasicBlock) bool
	rec = func(b *ssa.BasicBlock) bool {
		if visits[b] >= maxVisit {
			return true
		}
		visits[b]++
		path = append(path, b)
		ok := true
		if len(b.Succs) == 0 {
			count++
			if count > limit {
				ok = false
			} else {
				cp := make([]*ssa.BasicBlock, len(path))
				copy(cp, path)
				visit(cp)
			}
		} else {
			for _, s := range FeasibleSuccs(b) {
				if !rec(s) {
					ok = false
					break
				}
			}
		}
		path = path[:len(path)-1]
		visits[b]--
		return ok
	}
	return rec(start)
}

// PhiValueOnPath resolves a phi for a step pred->b.
func PhiValueOnPath(phi *ssa.Phi, pred *ssa.BasicBlock) ssa.Value {
	for i, p := range phi.Block().Preds {
		if p == pred {
			return phi.Edges[i]
		}
	}
	return nil
}

// BranchTaken reports which way an If went on a path step from b to next: true for Succs[0].
// ok=false if b does not end in If or both successors are the same block.
func BranchTaken(b, next *ssa.BasicBlock) (cond ssa.Value, taken bool, ok bool) {
	iff := BlockIf(b)
	if iff == nil || len(b.Succs) != 2 || b.Succs[0] == b.Succs[1] {
		return nil, false, false
	}
	if next == b.Succs[0] {
		return iff.Cond, true, true
	}
	if next == b.Succs[1] {
		return iff.Cond, false, true
	}
	return nil, false, false
}

// SignTest decodes a comparison of a value with a non-negative/zero constant that decides its sign.
// It returns the tested value and, for the TRUE outcome of cond, whether that outcome implies
// x >= 0 ("nonneg"), x < 0 ("neg") or nothing (""); likewise for FALSE.
func SignTest(cond ssa.Value) (x ssa.Value, onTrue, onFalse string, ok bool) {
	b, isBin := cond.(*ssa.BinOp)
	if !isBin {
		return nil, "", "", false
	}
	cx, xIsConst := constInt(b.X)
	cy, yIsConst := constInt(b.Y)
	op := b.Op
	var c int64
	switch {
	case yIsConst && !xIsConst:
		x, c = b.X, cy
	case xIsConst && !yIsConst:
		// c op x  ==> x op' c
		x, c = b.Y, cx
		switch op {
		case token.LSS:
			op = token.GTR
		case token.GTR:
			op = token.LSS
		case token.LEQ:
			op = token.GEQ
		case token.GEQ:
			op = token.LEQ
		}
	default:
		return nil, "", "", false
	}
	switch op {
	case token.LSS: // x < c
		if c == 0 {
			return x, "neg", "nonneg", true
		}
		if c < 0 {
			return x, "neg", "", true
		}
		return x, "", "nonneg", true // x >= c > 0
	case token.LEQ: // x <= c
		if c == -1 {
			return x, "neg", "nonneg", true
		}
		if c < -1 {
			return x, "neg", "", true
		}
		return x, "", "nonneg", true // x > c >= 0
	case token.GEQ: // x >= c
		if c == 0 {
			return x, "nonneg", "neg", true
		}
		if c > 0 {
			return x, "nonneg", "", true
		}
		return x, "", "neg", true // x < c < 0
	case token.GTR: // x > c
		if c == -1 {
			return x, "nonneg", "neg", true
		}
		if c >= 0 {
			return x, "nonneg", "", true
		}
		return x, "", "neg", true
	}
	return nil, "", "", false
}

func constInt(v ssa.Value) (int64, bool) {
	c, ok := v.(*ssa.Const)
	if !ok || c.Value == nil || c.Value.Kind() != constant.Int {
		return 0, false
	}
	i, exact := constant.Int64Val(c.Value)
	return i, exact
}

// ConstInt exposes constInt.
func ConstInt(v ssa.Value) (int64, bool) { return constInt(v) }

// IntSize returns the size in bytes of an integer type for the program's architecture (0 if not an integer).
func (p *Program) IntSize(t types.Type) int64 {
	b, ok := t.Underlying().(*types.Basic)
	if !ok || b.Info()&types.IsInteger == 0 {
		return 0
	}
	arch := p.GOARCH
	if arch == "" {
		arch = "amd64"
	}
	sz := types.SizesFor("gc", arch)
	if sz == nil {
		return 0
	}
	return sz.Sizeof(t)
}

// FieldAddrOf decodes `&recv.f` (possibly through embedded struct fields) into the field's object and base value.
func FieldAddrOf(v ssa.Value) (base ssa.Value, field *types.Var, ok bool) {
	fa, isFA := v.(*ssa.FieldAddr)
	if !isFA {
		return nil, nil, false
	}
	pt, isPtr := fa.X.Type().Underlying().(*types.Pointer)
	if !isPtr {
		return nil, nil, false
	}
	st, isStruct := pt.Elem().Underlying().(*types.Struct)
	if !isStruct {
		return nil, nil, false
	}
	return fa.X, st.Field(fa.Field), true
}

// RootOfAddr follows FieldAddr / loads of embedded pointers back to the root value:
// &s.shardNodeFile.substrate with s a parameter has root s.
func RootOfAddr(v ssa.Value) ssa.Value {
	for {
		switch x := v.(type) {
		case *ssa.FieldAddr:
			v = x.X
		case *ssa.UnOp:
			if x.Op == token.MUL {
				// load of a pointer stored in a field (embedded *T)
				if _, ok := x.X.(*ssa.FieldAddr); ok {
					v = x.X
					continue
				}
				// reload of a parameter that lives in a cell because a closure captures it (spilled receiver)
				if al, ok := x.X.(*ssa.Alloc); ok && al.Referrers() != nil {
					var src ssa.Value
					n := 0
					for _, ref := range *al.Referrers() {
						if st, ok := ref.(*ssa.Store); ok && st.Addr == ssa.Value(al) {
							n++
							src = st.Val
						}
					}
					if p, isParam := src.(*ssa.Parameter); isParam && n == 1 {
						return p
					}
				}
			}
			return v
		case *ssa.IndexAddr:
			v = x.X
		default:
			return v
		}
	}
}

// PathNonNil returns the values known to be non-nil after following path[0..upto]: those compared with nil on a branch
// whose taken edge is the non-nil one.
func PathNonNil(path []*ssa.BasicBlock, upto int) map[ssa.Value]bool {
	out := map[ssa.Value]bool{}
	for i := 0; i < upto && i+1 < len(path); i++ {
		cond, taken, ok := BranchTaken(path[i], path[i+1])
		if !ok {
			continue
		}
		if x, trueMeansNil, ok := NilCmp(cond); ok && taken != trueMeansNil {
			out[x] = true
		}
	}
	return out
}

// ErrKnownNonNil reports whether the error value v is certainly non-nil: a freshly made error (a concrete value boxed into
// the interface, fmt.Errorf / errors.New), a package-level sentinel, or a value in nonNil.
func ErrKnownNonNil(v ssa.Value, nonNil map[ssa.Value]bool) bool {
	seen := map[ssa.Value]bool{}
	var rec func(v ssa.Value) bool
	rec = func(v ssa.Value) bool {
		if v == nil || seen[v] {
			return false
		}
		seen[v] = true
		if nonNil[v] {
			return true
		}
		switch x := v.(type) {
		case *ssa.MakeInterface:
			return true
		case *ssa.ChangeInterface:
			return rec(x.X)
		case *ssa.UnOp:
			_, isGlobal := x.X.(*ssa.Global)
			return isGlobal
		case *ssa.Call:
			if IsCallTo(x, "fmt", "Errorf") || IsCallTo(x, "errors", "New") {
				return true
			}
			// a wrapping helper: a function (with a body) whose every return yields a certainly non-nil error
			if h := x.Call.StaticCallee(); h != nil && len(h.Blocks) > 0 && h.Signature.Results().Len() == 1 && IsErrorType(h.Signature.Results().At(0).Type()) {
				n := 0
				for _, ret := range Returns(h) {
					n++
					if len(ret.Results) != 1 || !rec(ret.Results[0]) {
						return false
					}
				}
				return n > 0
			}
			return false
		case *ssa.Phi:
			for _, e := range x.Edges {
				if !rec(e) {
					return false
				}
			}
			return len(x.Edges) > 0
		}
		return false
	}
	return rec(v)
}

// FeasibleSuccs returns the successors of b that can be taken: a block that ends in an If on a boolean constant
// (`if false && …`, a never-assigned flag) has only one.
func FeasibleSuccs(b *ssa.BasicBlock) []*ssa.BasicBlock {
	if iff := BlockIf(b); iff != nil && len(b.Succs) == 2 {
		if k, ok := iff.Cond.(*ssa.Const); ok && k.Value != nil && k.Value.Kind() == constant.Bool {
			if constant.BoolVal(k.Value) {
				return b.Succs[:1]
			}
			return b.Succs[1:]
		}
	}
	return b.Succs
}
