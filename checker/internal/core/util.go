package core

import (
	"go/token"
	"go/types"
	"sort"
	"strings"

	"golang.org/x/tools/go/ssa"
)

const linkingPkg = "github.com/ipld/go-ipld-prime/linking"

var loadMethods = map[string]bool{"Load": true, "Fill": true, "LoadRaw": true, "LoadPlusRaw": true, "MustLoad": true, "MustFill": true}
var storeMethods = map[string]bool{"Store": true, "MustStore": true}

// IsLinkSystemMethod reports whether callee is (*linking.LinkSystem).<one of names>.
func IsLinkSystemMethod(callee *ssa.Function, names map[string]bool) bool {
	if callee == nil || callee.Signature.Recv() == nil || !names[callee.Name()] {
		return false
	}
	t := callee.Signature.Recv().Type()
	if pt, ok := types.Unalias(t).(*types.Pointer); ok {
		t = pt.Elem()
	}
	n, ok := types.Unalias(t).(*types.Named)
	return ok && n.Obj().Pkg() != nil && n.Obj().Pkg().Path() == linkingPkg && n.Obj().Name() == "LinkSystem"
}

// isLinkSystemFieldCall reports whether the call's function value is loaded from the named field of a LinkSystem.
func isLinkSystemFieldCall(cc *ssa.CallCommon, field string) bool {
	if cc.IsInvoke() || cc.StaticCallee() != nil {
		return false
	}
	v := cc.Value
	if u, ok := v.(*ssa.UnOp); ok && u.Op == token.MUL {
		if fa, ok := u.X.(*ssa.FieldAddr); ok {
			st := fa.X.Type().Underlying().(*types.Pointer).Elem()
			if n, ok := types.Unalias(st).(*types.Named); ok && n.Obj().Pkg() != nil && n.Obj().Pkg().Path() == linkingPkg && n.Obj().Name() == "LinkSystem" {
				return n.Underlying().(*types.Struct).Field(fa.Field).Name() == field
			}
		}
	}
	if f, ok := v.(*ssa.Field); ok {
		if n, ok := types.Unalias(f.X.Type()).(*types.Named); ok && n.Obj().Pkg() != nil && n.Obj().Pkg().Path() == linkingPkg && n.Obj().Name() == "LinkSystem" {
			return n.Underlying().(*types.Struct).Field(f.Field).Name() == field
		}
	}
	return false
}

// FetchSite is a call that requests a block from storage.
type FetchSite struct {
	In   *ssa.Function
	Call ssa.CallInstruction
	What string
}

// FetchSites lists every block-load call site in fn.
func FetchSites(fn *ssa.Function) []FetchSite {
	var out []FetchSite
	for _, b := range fn.Blocks {
		for _, ins := range b.Instrs {
			c, ok := ins.(ssa.CallInstruction)
			if !ok {
				continue
			}
			cc := c.Common()
			if callee := cc.StaticCallee(); IsLinkSystemMethod(callee, loadMethods) {
				out = append(out, FetchSite{fn, c, "(*LinkSystem)." + callee.Name()})
			} else if isLinkSystemFieldCall(cc, "StorageReadOpener") {
				out = append(out, FetchSite{fn, c, "LinkSystem.StorageReadOpener"})
			}
		}
	}
	return out
}

// StoreSites lists every block-store call site in fn.
func StoreSites(fn *ssa.Function) []FetchSite {
	var out []FetchSite
	for _, b := range fn.Blocks {
		for _, ins := range b.Instrs {
			c, ok := ins.(ssa.CallInstruction)
			if !ok {
				continue
			}
			cc := c.Common()
			if callee := cc.StaticCallee(); IsLinkSystemMethod(callee, storeMethods) {
				out = append(out, FetchSite{fn, c, "(*LinkSystem)." + callee.Name()})
			} else if isLinkSystemFieldCall(cc, "StorageWriteOpener") {
				out = append(out, FetchSite{fn, c, "LinkSystem.StorageWriteOpener"})
			}
		}
	}
	return out
}

// Fetchers returns the repository functions containing a fetch site, restricted to the given relative packages (nil = all).
func (g *Graph) Fetchers(pkgs map[string]bool) map[*ssa.Function]bool {
	out := map[*ssa.Function]bool{}
	for _, f := range g.Funcs() {
		rel, ok := g.P.PkgOf(f)
		if !ok || (pkgs != nil && !pkgs[rel]) {
			continue
		}
		if len(FetchSites(f)) > 0 {
			out[f] = true
		}
	}
	return out
}

// Storers is the Store-side analogue of Fetchers.
func (g *Graph) Storers(pkgs map[string]bool) map[*ssa.Function]bool {
	out := map[*ssa.Function]bool{}
	for _, f := range g.Funcs() {
		rel, ok := g.P.PkgOf(f)
		if !ok || (pkgs != nil && !pkgs[rel]) {
			continue
		}
		if len(StoreSites(f)) > 0 {
			out[f] = true
		}
	}
	return out
}

// ReaderPkgs (RP), BuilderPkgs (BP) and FixturePkgs (FP) of DESIGN §3.
var ReaderPkgs = map[string]bool{"": true, "file": true, "hamt": true, "directory": true, "iter": true, "utils": true, "data": true}
var BuilderPkgs = map[string]bool{"data/builder": true, "data/builder/quick": true}
var FixturePkgs = map[string]bool{"testutil": true, "testutil/namegen": true}

// SortedFuncs returns the keys of a function set in deterministic order.
func SortedFuncs(m map[*ssa.Function]bool) []*ssa.Function {
	out := make([]*ssa.Function, 0, len(m))
	for f := range m {
		out = append(out, f)
	}
	sort.Slice(out, func(i, j int) bool { return out[i].String() < out[j].String() })
	return out
}

// RecvNamed returns the named receiver type of a method (through pointer), or nil.
func RecvNamed(fn *ssa.Function) *types.Named {
	if fn.Signature.Recv() == nil {
		return nil
	}
	t := fn.Signature.Recv().Type()
	if pt, ok := types.Unalias(t).(*types.Pointer); ok {
		t = pt.Elem()
	}
	n, _ := types.Unalias(t).(*types.Named)
	return n
}

// IsErrorType reports whether t is the predeclared error type.
func IsErrorType(t types.Type) bool {
	return types.Identical(t, types.Universe.Lookup("error").Type())
}

// ErrResultIndex returns the index of the last result if it is of type error, else -1.
func ErrResultIndex(sig *types.Signature) int {
	n := sig.Results().Len()
	if n == 0 {
		return -1
	}
	if IsErrorType(sig.Results().At(n - 1).Type()) {
		return n - 1
	}
	return -1
}

// IsNilConst reports whether v is the nil constant.
func IsNilConst(v ssa.Value) bool {
	c, ok := v.(*ssa.Const)
	return ok && c.Value == nil
}

// Returns lists the return instructions of fn.
func Returns(fn *ssa.Function) []*ssa.Return {
	var out []*ssa.Return
	for _, b := range fn.Blocks {
		if len(b.Instrs) == 0 || b == fn.Recover {
			// fn.Recover is the synthetic block reached only after a deferred call recovered a panic
			continue
		}
		if r, ok := b.Instrs[len(b.Instrs)-1].(*ssa.Return); ok {
			out = append(out, r)
		}
	}
	return out
}

// Unconv strips value-preserving conversions (Convert between integer types, ChangeType).
func Unconv(v ssa.Value) ssa.Value {
	for {
		switch x := v.(type) {
		case *ssa.Convert:
			v = x.X
		case *ssa.ChangeType:
			v = x.X
		default:
			return v
		}
	}
}

// NilCmp decodes `x == nil` / `x != nil` conditions: returns the non-nil operand and whether
// the TRUE branch means "x is nil".
func NilCmp(cond ssa.Value) (x ssa.Value, trueMeansNil bool, ok bool) {
	b, isBin := cond.(*ssa.BinOp)
	if !isBin || (b.Op != token.EQL && b.Op != token.NEQ) {
		return nil, false, false
	}
	switch {
	case IsNilConst(b.Y):
		x = b.X
	case IsNilConst(b.X):
		x = b.Y
	default:
		return nil, false, false
	}
	return x, b.Op == token.EQL, true
}

// BlockIf returns the If terminating b, if any.
func BlockIf(b *ssa.BasicBlock) *ssa.If {
	if len(b.Instrs) == 0 {
		return nil
	}
	iff, _ := b.Instrs[len(b.Instrs)-1].(*ssa.If)
	return iff
}

// EdgeDominates reports whether CFG edge from->to dominates block b, i.e. every path from entry to b
// traverses that edge. Sound approximation: `to` dominates b and `to` has `from` as its only predecessor.
func EdgeDominates(from, to, b *ssa.BasicBlock) bool {
	if len(to.Preds) != 1 || to.Preds[0] != from {
		return false
	}
	return to.Dominates(b)
}

// GuardedBy reports whether block b is only reachable when cond evaluated to want, where cond is
// tested by an If whose corresponding successor edge dominates b.
func GuardedBy(b *ssa.BasicBlock, match func(cond ssa.Value) (want bool, ok bool)) bool {
	for d := b; d != nil; d = d.Idom() {
		id := d.Idom()
		if id == nil {
			break
		}
		// find any dominating If
		for anc := id; anc != nil; anc = anc.Idom() {
			iff := BlockIf(anc)
			if iff == nil {
				continue
			}
			want, ok := match(iff.Cond)
			if !ok {
				continue
			}
			succ := anc.Succs[0]
			if !want {
				succ = anc.Succs[1]
			}
			if EdgeDominates(anc, succ, b) {
				return true
			}
		}
		break
	}
	return false
}

// TypeNameOf renders a type relative to the module.
func TypeNameOf(t types.Type) string {
	s := types.TypeString(t, func(p *types.Package) string { return Rel(p.Path()) })
	return strings.TrimPrefix(s, ".")
}

// FindFunc returns the package-level function name in the repository-relative package.
func (p *Program) FindFunc(rel, name string) *ssa.Function {
	sp := p.SSAPkg(rel)
	if sp == nil {
		return nil
	}
	return sp.Func(name)
}

// MethodsNamed returns the declared (non-synthetic) methods with the given name on types of the package.
func (p *Program) MethodsNamed(rel, name string) []*ssa.Function {
	var out []*ssa.Function
	for _, f := range p.RepoFuncs {
		r, ok := p.PkgOf(f)
		if !ok || r != rel || f.Name() != name || f.Signature.Recv() == nil || f.Synthetic != "" {
			continue
		}
		out = append(out, f)
	}
	return out
}

// CallsIn lists call instructions of fn.
func CallsIn(fn *ssa.Function) []ssa.CallInstruction {
	var out []ssa.CallInstruction
	for _, b := range fn.Blocks {
		for _, ins := range b.Instrs {
			if c, ok := ins.(ssa.CallInstruction); ok {
				out = append(out, c)
			}
		}
	}
	return out
}

// CalleeName returns "pkgpath.Func" or "(recv).Method" of a static callee, or "" if dynamic.
func CalleeName(c ssa.CallInstruction) string {
	cc := c.Common()
	if cc.IsInvoke() {
		return "invoke " + types.TypeString(cc.Value.Type(), nil) + "." + cc.Method.Name()
	}
	if f := cc.StaticCallee(); f != nil {
		return f.String()
	}
	if b, ok := cc.Value.(*ssa.Builtin); ok {
		return "builtin " + b.Name()
	}
	return ""
}

// IsCallTo reports whether the call statically targets pkgpath.name (package-level function).
func IsCallTo(c ssa.CallInstruction, pkgpath, name string) bool {
	f := c.Common().StaticCallee()
	if f == nil || f.Pkg == nil || f.Signature.Recv() != nil {
		return false
	}
	return f.Pkg.Pkg.Path() == pkgpath && f.Name() == name
}

// InCycle reports whether block b lies on a CFG cycle of its function.
func InCycle(b *ssa.BasicBlock) bool {
	seen := map[*ssa.BasicBlock]bool{}
	var stack []*ssa.BasicBlock
	stack = append(stack, b.Succs...)
	for len(stack) > 0 {
		x := stack[len(stack)-1]
		stack = stack[:len(stack)-1]
		if x == b {
			return true
		}
		if seen[x] {
			continue
		}
		seen[x] = true
		stack = append(stack, x.Succs...)
	}
	return false
}

// LoopHeader returns the innermost natural-loop header whose loop contains b (a dominator of b that is the target
// of a back edge from a block it dominates, with b able to reach it again), or nil.
func LoopHeader(b *ssa.BasicBlock) *ssa.BasicBlock {
	for d := b; d != nil; d = d.Idom() {
		for _, p := range d.Preds {
			if d.Dominates(p) && reaches(b, p, d) {
				return d
			}
		}
	}
	return nil
}

// reaches reports whether `to` is reachable from `from` without passing through `avoid` (from==to counts).
func reaches(from, to, avoid *ssa.BasicBlock) bool {
	if from == to {
		return true
	}
	seen := map[*ssa.BasicBlock]bool{}
	stack := []*ssa.BasicBlock{from}
	for len(stack) > 0 {
		x := stack[len(stack)-1]
		stack = stack[:len(stack)-1]
		if x == to {
			return true
		}
		if seen[x] || (x == avoid && x != from) {
			continue
		}
		seen[x] = true
		stack = append(stack, x.Succs...)
	}
	return false
}

// ResolvedResults returns the values a Return yields. go/ssa spills results into hidden cells when the function has
// a defer (the Return then loads them after `rundefers`); this follows such loads back to the value stored in the same block.
func ResolvedResults(ret *ssa.Return) []ssa.Value {
	out := make([]ssa.Value, len(ret.Results))
	// `return fail(err)` with a trivial forwarder (a local closure or function whose single return yields only constants
	// and its own parameters): the results are those constants and the corresponding arguments
	if fw := forwardedResults(ret); fw != nil {
		return fw
	}
	for i, rv := range ret.Results {
		out[i] = rv
		u, ok := rv.(*ssa.UnOp)
		if !ok || u.Op != token.MUL {
			continue
		}
		al, ok := u.X.(*ssa.Alloc)
		if !ok {
			continue
		}
		// last store to the cell in the return's block (or in its unique predecessor chain)
		for b := ret.Block(); b != nil; {
			found := false
			for k := len(b.Instrs) - 1; k >= 0; k-- {
				if st, ok := b.Instrs[k].(*ssa.Store); ok && st.Addr == ssa.Value(al) {
					out[i] = st.Val
					found = true
					break
				}
			}
			if found || len(b.Preds) != 1 {
				break
			}
			b = b.Preds[0]
		}
	}
	return out
}

// Loaders returns the fetchers of the given packages plus their thin wrappers: functions that pass one of their own
// parameters on as an argument of a static call to a loader (e.g. a cache-checking front of the real fetch function).
func (g *Graph) Loaders(pkgs map[string]bool) map[*ssa.Function]bool {
	out := g.Fetchers(pkgs)
	for changed := true; changed; {
		changed = false
		for _, f := range g.Funcs() {
			if out[f] {
				continue
			}
			rel, ok := g.P.PkgOf(f)
			if !ok || (pkgs != nil && !pkgs[rel]) {
				continue
			}
			for _, ci := range CallsIn(f) {
				callee := ci.Common().StaticCallee()
				if callee == nil || !out[callee] {
					continue
				}
				// a wrapper hands the loaded value on: it has a result of the loader's (non-error) result type
				handsOn := false
				if cr := callee.Signature.Results(); cr.Len() > 0 {
					for i := 0; i < f.Signature.Results().Len(); i++ {
						if types.Identical(f.Signature.Results().At(i).Type(), cr.At(0).Type()) {
							handsOn = true
						}
					}
				}
				if !handsOn {
					continue
				}
				for _, a := range ci.Common().Args[1:] {
					if p, isParam := accessorRoot(a, 0).(*ssa.Parameter); isParam && p.Parent() == f && len(f.Params) > 0 && p != f.Params[0] {
						out[f] = true
						changed = true
					}
				}
			}
		}
	}
	return out
}

// ---------------------------------------------------------------------------
// package-level state mutated through pointers
// ---------------------------------------------------------------------------

// derivedRoot follows address arithmetic, loads, field/element selections and phis from v back to the global or
// parameter the storage it denotes hangs off (nil when it hangs off something local).
func derivedRoot(v ssa.Value, depth int, seen map[ssa.Value]bool) ssa.Value {
	if v == nil || depth > 12 || seen[v] {
		return nil
	}
	seen[v] = true
	switch x := v.(type) {
	case *ssa.Global:
		return x
	case *ssa.Parameter:
		return x
	case *ssa.UnOp:
		if x.Op == token.MUL {
			return derivedRoot(x.X, depth+1, seen)
		}
	case *ssa.FieldAddr:
		return derivedRoot(x.X, depth+1, seen)
	case *ssa.IndexAddr:
		return derivedRoot(x.X, depth+1, seen)
	case *ssa.Field:
		return derivedRoot(x.X, depth+1, seen)
	case *ssa.Slice:
		return derivedRoot(x.X, depth+1, seen)
	case *ssa.ChangeType:
		return derivedRoot(x.X, depth+1, seen)
	case *ssa.Phi:
		for _, e := range x.Edges {
			if r := derivedRoot(e, depth+1, seen); r != nil {
				return r
			}
		}
	case *ssa.Alloc:
		// a local cell holding a copy of a parameter (spilled receivers): maps and pointers inside the copy are shared
		var src ssa.Value
		n := 0
		for _, ref := range *x.Referrers() {
			if st, ok := ref.(*ssa.Store); ok && st.Addr == ssa.Value(x) {
				n++
				src = st.Val
			}
		}
		if n == 1 {
			if p, ok := src.(*ssa.Parameter); ok {
				return p
			}
		}
	}
	return nil
}

// WritesThroughParam reports whether repository function f writes (field/element store, map update or delete) into storage
// reachable from its i-th parameter, directly or by handing it on to another repository function that does.
func (g *Graph) WritesThroughParam(f *ssa.Function, i int) bool {
	if g.wtpMemo == nil {
		g.wtpMemo = map[[2]interface{}]int{}
	}
	key := [2]interface{}{f, i}
	if v, ok := g.wtpMemo[key]; ok {
		return v == 1
	}
	g.wtpMemo[key] = 0 // in progress / false
	if i >= len(f.Params) || len(f.Blocks) == 0 {
		return false
	}
	p := ssa.Value(f.Params[i])
	root := func(v ssa.Value) bool { return derivedRoot(v, 0, map[ssa.Value]bool{}) == p }
	res := false
	for _, b := range f.Blocks {
		for _, ins := range b.Instrs {
			switch x := ins.(type) {
			case *ssa.Store:
				if _, isAlloc := x.Addr.(*ssa.Alloc); !isAlloc && root(x.Addr) {
					res = true
				}
			case *ssa.MapUpdate:
				if root(x.Map) {
					res = true
				}
			case ssa.CallInstruction:
				cc := x.Common()
				if bi, ok := cc.Value.(*ssa.Builtin); ok {
					if (bi.Name() == "delete" || bi.Name() == "copy" || bi.Name() == "clear") && len(cc.Args) > 0 && root(cc.Args[0]) {
						res = true
					}
					continue
				}
				callee := cc.StaticCallee()
				if callee == nil || !g.repoSet[callee] {
					continue
				}
				for j, a := range cc.Args {
					if root(a) && g.WritesThroughParam(callee, j) {
						res = true
					}
				}
			}
		}
	}
	if res {
		g.wtpMemo[key] = 1
	}
	return res
}

// GlobalMutation is one place outside package initialisation where storage hanging off a package-level variable is written.
type GlobalMutation struct {
	Fn     *ssa.Function
	Ins    ssa.Instruction
	Global *ssa.Global
	What   string
}

// GlobalMutations lists the writes to package-level state of the given packages outside init: direct stores / map updates,
// and calls that hand (part of) a package-level variable to a repository function that writes through that parameter.
func (g *Graph) GlobalMutations(pkgs map[string]bool) []GlobalMutation {
	var out []GlobalMutation
	for _, fn := range g.Funcs() {
		rel, ok := g.P.PkgOf(fn)
		if !ok || !pkgs[rel] || g.P.IsGenerated(fn.Pos()) {
			continue
		}
		if fn.Name() == "init" || strings.HasPrefix(fn.Name(), "init#") || (fn.Parent() != nil && fn.Parent().Name() == "init") {
			continue
		}
		glob := func(v ssa.Value) *ssa.Global {
			gl, _ := derivedRoot(v, 0, map[ssa.Value]bool{}).(*ssa.Global)
			if gl != nil && gl.Pkg != nil {
				if _, isRepo := g.P.Repo[gl.Pkg.Pkg.Path()]; !isRepo {
					return nil
				}
			}
			return gl
		}
		for _, b := range fn.Blocks {
			for _, ins := range b.Instrs {
				switch x := ins.(type) {
				case *ssa.Store:
					if gl := glob(x.Addr); gl != nil {
						out = append(out, GlobalMutation{fn, ins, gl, "store"})
					}
				case *ssa.MapUpdate:
					if gl := glob(x.Map); gl != nil {
						out = append(out, GlobalMutation{fn, ins, gl, "map update"})
					}
				case ssa.CallInstruction:
					cc := x.Common()
					if bi, ok := cc.Value.(*ssa.Builtin); ok {
						if (bi.Name() == "delete" || bi.Name() == "copy" || bi.Name() == "clear") && len(cc.Args) > 0 {
							if gl := glob(cc.Args[0]); gl != nil {
								out = append(out, GlobalMutation{fn, ins, gl, bi.Name()})
							}
						}
						continue
					}
					callee := cc.StaticCallee()
					if callee != nil && callee.Pkg != nil && (callee.Pkg.Pkg.Path() == "sync" || callee.Pkg.Pkg.Path() == "sync/atomic") && len(cc.Args) > 0 {
						// a package-level sync.Pool / Map / Mutex / atomic: process-wide state shared by every node
						if gl := glob(cc.Args[0]); gl != nil {
							out = append(out, GlobalMutation{fn, ins, gl, callee.Pkg.Pkg.Path() + "." + callee.Name() + " on"})
						}
						continue
					}
					if callee == nil || !g.repoSet[callee] {
						continue
					}
					for j, a := range cc.Args {
						if gl := glob(a); gl != nil && g.WritesThroughParam(callee, j) {
							out = append(out, GlobalMutation{fn, ins, gl, "call of " + FuncName(callee) + ", which writes through that argument"})
						}
					}
				}
			}
		}
	}
	return out
}

// accessorRoot follows a chain of accessor calls (x.FieldHash().Link(), x.Must(), conversions, interface boxing) back to
// the value the chain starts from: the wrapper of a loader may hand it a part of its own parameter.
func accessorRoot(v ssa.Value, depth int) ssa.Value {
	if depth > 6 || v == nil {
		return v
	}
	switch x := v.(type) {
	case *ssa.MakeInterface:
		return accessorRoot(x.X, depth+1)
	case *ssa.ChangeInterface:
		return accessorRoot(x.X, depth+1)
	case *ssa.ChangeType:
		return accessorRoot(x.X, depth+1)
	case *ssa.TypeAssert:
		return accessorRoot(x.X, depth+1)
	case *ssa.UnOp:
		if x.Op == token.MUL {
			return accessorRoot(x.X, depth+1)
		}
	case *ssa.Extract:
		if x.Index == 0 {
			return accessorRoot(x.Tuple, depth+1)
		}
	case *ssa.Call:
		cc := x.Common()
		name := ""
		var recv ssa.Value
		if cc.IsInvoke() {
			name, recv = cc.Method.Name(), cc.Value
		} else if f := cc.StaticCallee(); f != nil && f.Signature.Recv() != nil && len(cc.Args) > 0 {
			name, recv = f.Name(), cc.Args[0]
		}
		if recv != nil && (strings.HasPrefix(name, "Field") || name == "Link" || name == "Must" || name == "AsLink" || name == "LookupByString") {
			return accessorRoot(recv, depth+1)
		}
	}
	return v
}

// forwardedResults resolves `return h(args…)` where h is a trivial forwarder: one block, one return, every result a
// constant or one of h's parameters.
func forwardedResults(ret *ssa.Return) []ssa.Value {
	if len(ret.Results) < 2 {
		return nil
	}
	var call *ssa.Call
	for i, rv := range ret.Results {
		ex, ok := rv.(*ssa.Extract)
		if !ok || ex.Index != i {
			return nil
		}
		c, ok := ex.Tuple.(*ssa.Call)
		if !ok || (call != nil && c != call) {
			return nil
		}
		call = c
	}
	if call == nil {
		return nil
	}
	var h *ssa.Function
	if f := call.Call.StaticCallee(); f != nil {
		h = f
	} else if mc, ok := call.Call.Value.(*ssa.MakeClosure); ok {
		h, _ = mc.Fn.(*ssa.Function)
	} else if u, ok := call.Call.Value.(*ssa.UnOp); ok && u.Op == token.MUL {
		// closure held in a local cell with a single store
		if al, ok := u.X.(*ssa.Alloc); ok && al.Referrers() != nil {
			n := 0
			for _, ref := range *al.Referrers() {
				if st, ok := ref.(*ssa.Store); ok && st.Addr == ssa.Value(al) {
					n++
					if mc, ok := st.Val.(*ssa.MakeClosure); ok {
						h, _ = mc.Fn.(*ssa.Function)
					}
				}
			}
			if n != 1 {
				h = nil
			}
		}
	}
	if h == nil || len(h.Blocks) != 1 {
		return nil
	}
	hret, ok := h.Blocks[0].Instrs[len(h.Blocks[0].Instrs)-1].(*ssa.Return)
	if !ok || len(hret.Results) != len(ret.Results) {
		return nil
	}
	out := make([]ssa.Value, len(ret.Results))
	for i, rv := range hret.Results {
		switch x := rv.(type) {
		case *ssa.Const:
			out[i] = x
		case *ssa.Parameter:
			idx := -1
			for k, p := range h.Params {
				if p == x {
					idx = k
				}
			}
			if idx < 0 || idx >= len(call.Call.Args) {
				return nil
			}
			out[i] = call.Call.Args[idx]
		default:
			return nil
		}
	}
	return out
}
