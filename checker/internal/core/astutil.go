package core

import (
	"go/ast"
	"go/token"
	"go/types"

	"golang.org/x/tools/go/packages"
)

// DeadLocal is a local variable declared without initialiser, never assigned, whose zero value is read in a guard or expression.
type DeadLocal struct {
	Func string
	Var  *types.Var
	Use  token.Pos
	How  string
}

// NeverAssignedLocals implements the deviance rule R9.7 over the function declarations of pkg accepted by filter.
// A local `var x T` (T basic, interface, pointer, slice, map, func or chan) that is never the target of an
// assignment, ++/--, address-of, range clause or closure write, but is read inside an if/for/switch condition or
// as an operand of a unary/binary expression, is reported.
func NeverAssignedLocals(pkg *packages.Package, filter func(fd *ast.FuncDecl) bool) []DeadLocal {
	var out []DeadLocal
	info := pkg.TypesInfo
	for _, file := range pkg.Syntax {
		for _, d := range file.Decls {
			fd, ok := d.(*ast.FuncDecl)
			if !ok || fd.Body == nil || (filter != nil && !filter(fd)) {
				continue
			}
			cands := map[*types.Var]bool{}
			ast.Inspect(fd.Body, func(n ast.Node) bool {
				ds, ok := n.(*ast.DeclStmt)
				if !ok {
					return true
				}
				gd, ok := ds.Decl.(*ast.GenDecl)
				if !ok || gd.Tok != token.VAR {
					return true
				}
				for _, sp := range gd.Specs {
					vs := sp.(*ast.ValueSpec)
					if len(vs.Values) != 0 {
						continue
					}
					for _, id := range vs.Names {
						v, ok := info.Defs[id].(*types.Var)
						if !ok {
							continue
						}
						switch v.Type().Underlying().(type) {
						case *types.Basic, *types.Interface, *types.Pointer, *types.Slice, *types.Map, *types.Signature, *types.Chan:
							cands[v] = true
						}
					}
				}
				return true
			})
			if len(cands) == 0 {
				continue
			}
			written := map[*types.Var]bool{}
			markRoot := func(e ast.Expr) {
				for {
					switch x := e.(type) {
					case *ast.ParenExpr:
						e = x.X
						continue
					case *ast.SelectorExpr:
						e = x.X
						continue
					case *ast.IndexExpr:
						e = x.X
						continue
					case *ast.StarExpr:
						e = x.X
						continue
					case *ast.Ident:
						if v, ok := info.Uses[x].(*types.Var); ok {
							written[v] = true
						}
						if v, ok := info.Defs[x].(*types.Var); ok {
							written[v] = true
						}
					}
					return
				}
			}
			ast.Inspect(fd.Body, func(n ast.Node) bool {
				switch x := n.(type) {
				case *ast.AssignStmt:
					for _, l := range x.Lhs {
						markRoot(l)
					}
				case *ast.IncDecStmt:
					markRoot(x.X)
				case *ast.UnaryExpr:
					if x.Op == token.AND {
						markRoot(x.X)
					}
				case *ast.RangeStmt:
					if x.Key != nil {
						markRoot(x.Key)
					}
					if x.Value != nil {
						markRoot(x.Value)
					}
				}
				return true
			})
			// reads in guards / operators
			report := func(e ast.Expr, how string) {
				ast.Inspect(e, func(n ast.Node) bool {
					if _, isLit := n.(*ast.FuncLit); isLit {
						return false
					}
					id, ok := n.(*ast.Ident)
					if !ok {
						return true
					}
					if v, ok := info.Uses[id].(*types.Var); ok && cands[v] && !written[v] {
						out = append(out, DeadLocal{Func: fd.Name.Name, Var: v, Use: id.Pos(), How: how})
					}
					return true
				})
			}
			ast.Inspect(fd.Body, func(n ast.Node) bool {
				switch x := n.(type) {
				case *ast.IfStmt:
					report(x.Cond, "if condition")
				case *ast.ForStmt:
					if x.Cond != nil {
						report(x.Cond, "for condition")
					}
				case *ast.SwitchStmt:
					if x.Tag != nil {
						report(x.Tag, "switch tag")
					}
				case *ast.BinaryExpr:
					if id, ok := x.X.(*ast.Ident); ok {
						report(id, "operand of "+x.Op.String())
					}
					if id, ok := x.Y.(*ast.Ident); ok {
						report(id, "operand of "+x.Op.String())
					}
				}
				return true
			})
		}
	}
	// de-duplicate by (var, pos)
	seen := map[token.Pos]bool{}
	var uniq []DeadLocal
	for _, d := range out {
		if !seen[d.Use] {
			seen[d.Use] = true
			uniq = append(uniq, d)
		}
	}
	return uniq
}
