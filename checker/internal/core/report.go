package core

import (
	"encoding/json"
	"fmt"
	"os"
	"path/filepath"
	"sort"
	"strings"
	"time"
)

// Status of an obligation.
const (
	Discharged = "discharged"
	Violated   = "violated"
	Exempt     = "exempt"
	Known      = "known-finding"
	Undecided  = "undecided"
)

// Obligation is one instance of a rule on one construct.
type Obligation struct {
	Rule   string `json:"rule"`
	Key    string `json:"construct"` // rule+construct identity; never contains a line number
	Pos    string `json:"pos"`
	Status string `json:"status"`
	Detail string `json:"detail,omitempty"`
}

// Report collects the obligations of one property run.
type Report struct {
	Prop       string
	Tier       string
	Obls       []Obligation
	Broken     []string // reasons the run is undecided/broken (exit 2)
	Notes      []string
	Floors     map[string][2]int // rule -> {found, required}
	Controls   map[string]bool   // control name -> fired
	Assumes    []string
	Trusted    []string
	Explain    string
	Analysed   map[string]int
	Extra      map[string]any
	start      time.Time
	ruleDescrs map[string]string
}

func NewReport(prop, tier string) *Report {
	return &Report{Prop: prop, Tier: tier, Floors: map[string][2]int{}, Controls: map[string]bool{}, Analysed: map[string]int{}, Extra: map[string]any{}, start: time.Now(), ruleDescrs: map[string]string{}}
}

func (r *Report) Rule(id, descr string) { r.ruleDescrs[id] = descr }

func (r *Report) add(rule, key, pos, status, detail string) {
	r.Obls = append(r.Obls, Obligation{Rule: rule, Key: key, Pos: pos, Status: status, Detail: detail})
}
func (r *Report) OK(rule, key, pos, detail string)      { r.add(rule, key, pos, Discharged, detail) }
func (r *Report) Violate(rule, key, pos, detail string) { r.add(rule, key, pos, Violated, detail) }
func (r *Report) ExemptOb(rule, key, pos, reason string) {
	r.add(rule, key, pos, Exempt, reason)
}
func (r *Report) Undecided(rule, key, pos, detail string) {
	r.add(rule, key, pos, Undecided, detail)
	r.Broken = append(r.Broken, fmt.Sprintf("%s %s at %s undecided: %s", rule, key, pos, detail))
}

// Check adds a discharged or violated obligation depending on ok.
func (r *Report) Check(ok bool, rule, key, pos, okDetail, badDetail string) bool {
	if ok {
		r.OK(rule, key, pos, okDetail)
	} else {
		r.Violate(rule, key, pos, badDetail)
	}
	return ok
}

// Break records that the run cannot decide (anchor missing, floor not met…).
func (r *Report) Break(format string, a ...any) {
	r.Broken = append(r.Broken, fmt.Sprintf(format, a...))
}

// Floor asserts that a rule found at least need instances.
func (r *Report) Floor(rule string, found, need int) {
	r.Floors[rule] = [2]int{found, need}
	if found < need {
		r.Break("rule %s matched %d instance(s), fewer than the %d confirmed by hand: the rule no longer finds its subjects (vacuous pass refused)", rule, found, need)
	}
}

// Control records that a positive control did (not) fire.
func (r *Report) Control(name string, fired bool) {
	r.Controls[name] = fired
	if !fired {
		r.Break("positive control %s did not fire: rule is blind", name)
	}
}

// KnownFinding is an entry of known_findings.json.
type KnownFinding struct {
	Kind     string `json:"kind"` // "known" or "fixed"
	Property string `json:"property"`
	Rule     string `json:"rule"`
	Key      string `json:"construct"`
	What     string `json:"what"`
	Commit   string `json:"commit,omitempty"`
}

type knownFile struct {
	Findings []KnownFinding `json:"findings"`
}

func LoadKnown(path string) ([]KnownFinding, error) {
	b, err := os.ReadFile(path)
	if err != nil {
		if os.IsNotExist(err) {
			return nil, nil
		}
		return nil, err
	}
	var kf knownFile
	if err := json.Unmarshal(b, &kf); err != nil {
		return nil, err
	}
	return kf.Findings, nil
}

// Finish applies known findings, writes evidence and replay files, prints the
// protocol lines and returns the exit code.
func (r *Report) Finish(verifDir string, seed int64, checkerCmd string) int {
	known, err := LoadKnown(filepath.Join(verifDir, "known_findings.json"))
	if err != nil {
		r.Break("known_findings.json unreadable: %v", err)
	}
	// stable order
	sort.SliceStable(r.Obls, func(i, j int) bool {
		a, b := r.Obls[i], r.Obls[j]
		if a.Rule != b.Rule {
			return a.Rule < b.Rule
		}
		return a.Key < b.Key
	})
	var knownLines []string
	for i := range r.Obls {
		o := &r.Obls[i]
		if o.Status != Violated {
			continue
		}
		for _, k := range known {
			if k.Kind == "known" && k.Property == r.Prop && k.Rule == o.Rule && k.Key == o.Key {
				o.Status = Known
				knownLines = append(knownLines, fmt.Sprintf("KNOWN-FINDING: property=%s %s %s — %s", r.Prop, o.Rule, o.Key, k.What))
			}
		}
	}
	counts := map[string]int{}
	distinct := map[string]bool{}
	perRule := map[string]map[string]int{}
	for _, o := range r.Obls {
		counts[o.Status]++
		distinct[o.Rule+"|"+o.Key] = true
		if perRule[o.Rule] == nil {
			perRule[o.Rule] = map[string]int{}
		}
		perRule[o.Rule][o.Status]++
	}
	// samples: every non-discharged obligation plus up to 3 discharged per rule
	var samples []Obligation
	taken := map[string]int{}
	for _, o := range r.Obls {
		if o.Status != Discharged {
			samples = append(samples, o)
			continue
		}
		if taken[o.Rule] < 3 {
			taken[o.Rule]++
			samples = append(samples, o)
		}
	}
	replayDir := filepath.Join(verifDir, "evidence", "replay")
	os.MkdirAll(replayDir, 0o755)
	// remove stale replay files of this property
	if old, _ := filepath.Glob(filepath.Join(replayDir, r.Prop+"-*.json")); old != nil {
		for _, f := range old {
			os.Remove(f)
		}
	}
	var violLines []string
	k := 0
	for _, o := range r.Obls {
		if o.Status != Violated {
			continue
		}
		k++
		path := filepath.Join(replayDir, fmt.Sprintf("%s-%d.json", r.Prop, k))
		b, _ := json.MarshalIndent(map[string]any{"property": r.Prop, "obligation": o, "rule_text": r.ruleDescrs[o.Rule], "how_to_replay": "./run.sh " + r.Prop + " quick   (static: re-derives this obligation from /repo's current source)"}, "", " ")
		os.WriteFile(path, b, 0o644)
		violLines = append(violLines, fmt.Sprintf("VIOLATION property=%s replay=%s", r.Prop, path))
		fmt.Printf("  violated %s %s at %s: %s\n", o.Rule, o.Key, o.Pos, o.Detail)
	}
	rules := make([]string, 0, len(r.ruleDescrs))
	for id := range r.ruleDescrs {
		rules = append(rules, id)
	}
	sort.Strings(rules)
	var ruleText []string
	for _, id := range rules {
		ruleText = append(ruleText, id+": "+r.ruleDescrs[id])
	}
	exit := 0
	if len(violLines) > 0 {
		exit = 1
	} else if len(r.Broken) > 0 {
		exit = 2
	}
	cov := map[string]any{
		"explanation":         r.Explain,
		"obligations":         len(r.Obls),
		"discharged":          counts[Discharged] + counts[Exempt],
		"evaluations":         len(r.Obls),
		"distinct_nontrivial": len(distinct),
		"rule":                "obligations are enumerated from the resolved program (go/types + go/ssa) by the rules below; one obligation per rule instance (call site, field, table entry, return, loop); distinct = distinct rule+construct keys; all are non-trivial (each names a construct whose breakage violates the rule). Rules: " + strings.Join(ruleText, " | "),
		"samples":             samples,
		"exhaustive":          true,
		"checker_cmd":         checkerCmd,
		"trusted_base":        r.Trusted,
		"per_rule":            perRule,
		"by_status":           counts,
		"instance_floors":     r.Floors,
		"positive_controls":   r.Controls,
		"analysed":            r.Analysed,
		"undecided":           r.Broken,
		"notes":               r.Notes,
		"known_findings_hit":  knownLines,
		"exit":                exit,
	}
	for k, v := range r.Extra {
		cov[k] = v
	}
	assumes := append([]string{}, r.Assumes...)
	assumes = append(assumes, r.Trusted...)
	if r.Trusted == nil {
		r.Trusted = []string{}
	}
	if r.Notes == nil {
		r.Notes = []string{}
	}
	ev := map[string]any{
		"property_id": r.Prop,
		"tier":        r.Tier,
		"seed":        seed,
		"level":       "other",
		"coverage":    cov,
		"assumptions": assumes,
		"wall_s":      time.Since(r.start).Seconds(),
		"violations":  len(violLines),
	}
	b, _ := json.MarshalIndent(ev, "", " ")
	os.MkdirAll(filepath.Join(verifDir, "evidence"), 0o755)
	if err := os.WriteFile(filepath.Join(verifDir, "evidence", r.Prop+".json"), b, 0o644); err != nil {
		fmt.Println("cannot write evidence:", err)
		return 2
	}
	fmt.Printf("%s %s: %d obligations (%d discharged, %d exempt, %d known, %d violated, %d undecided) over %d distinct constructs\n",
		r.Prop, r.Tier, len(r.Obls), counts[Discharged], counts[Exempt], counts[Known], counts[Violated], counts[Undecided], len(distinct))
	for _, id := range rules {
		fmt.Printf("  %-6s %v\n", id, perRule[id])
	}
	for _, l := range knownLines {
		fmt.Println(l)
	}
	for _, b := range r.Broken {
		fmt.Println("UNDECIDED:", b)
	}
	for _, l := range violLines {
		fmt.Println(l)
	}
	return exit
}
