package core

import (
	"fmt"
	"go/token"
	"go/types"

	"golang.org/x/tools/go/ssa"
)

// ErrResultOfCall returns the SSA value of the error result of a call (nil if the call has none or it is discarded).
func ErrResultOfCall(call ssa.CallInstruction) (ssa.Value, bool) {
	v, ok := call.(*ssa.Call)
	if !ok {
		return nil, false // go/defer: results discarded
	}
	sig := call.Common().Signature()
	idx := ErrResultIndex(sig)
	if idx < 0 {
		return nil, false
	}
	if sig.Results().Len() == 1 {
		return v, true
	}
	for _, ref := range *v.Referrers() {
		if ex, ok := ref.(*ssa.Extract); ok && ex.Index == idx {
			return ex, true
		}
	}
	return nil, true // has an error result, but it is never extracted: dropped
}

// VariadicArgs returns the elements stored into the backing array of a variadic slice argument built at the call site.
func VariadicArgs(v ssa.Value) []ssa.Value {
	sl, ok := v.(*ssa.Slice)
	if !ok {
		return nil
	}
	al, ok := sl.X.(*ssa.Alloc)
	if !ok {
		return nil
	}
	var out []ssa.Value
	for _, ref := range *al.Referrers() {
		ia, ok := ref.(*ssa.IndexAddr)
		if !ok {
			continue
		}
		for _, r2 := range *ia.Referrers() {
			if st, ok := r2.(*ssa.Store); ok && st.Addr == ssa.Value(ia) {
				out = append(out, st.Val)
			}
		}
	}
	return out
}

// PropProblem describes a path on which an error is not propagated.
type PropProblem struct {
	Pos  token.Pos
	What string
}

// CheckErrPropagated decides, over all CFG paths from the call to an exit of its function, that the
// call's error result reaches the function's own error result:
//   - on a path where the error was tested non-nil, the return's error slot is that error (or wraps it);
//   - on a path where it was never tested, the return's error slot is that error, or a freshly made opaque failure
//     (fmt.Errorf / errors.New — never a typed or sentinel error a caller could read as not-found / EOF) chosen by a
//     test on another result of the same call;
//   - nothing is required where it was tested nil.
//
// noErrResult is true when the enclosing function has no error result (caller decides about exemptions).
func CheckErrPropagated(fn *ssa.Function, call ssa.CallInstruction) (problems []PropProblem, noErrResult bool, complete bool) {
	return CheckErrPropagatedOpt(fn, call, false)
}

// CheckErrPropagatedOpt is CheckErrPropagated; with eofHandled, a path that took the true edge of `err == io.EOF` (or the
// false edge of `err != io.EOF`) counts as having handled the error (end of input is an outcome, not a failure).
func CheckErrPropagatedOpt(fn *ssa.Function, call ssa.CallInstruction, eofHandled bool) (problems []PropProblem, noErrResult bool, complete bool) {
	complete = true
	errIdx := ErrResultIndex(fn.Signature)
	e, has := ErrResultOfCall(call)
	if !has {
		return nil, false, true
	}
	if e == nil {
		return []PropProblem{{call.Pos(), "the error result is discarded"}}, errIdx < 0, true
	}
	if errIdx < 0 {
		return nil, true, true
	}
	cv, _ := call.(*ssa.Call)
	sameCallResult := func(v ssa.Value) bool {
		v = Unconv(v)
		if ex, ok := v.(*ssa.Extract); ok && cv != nil && ex.Tuple == ssa.Value(cv) {
			return true
		}
		return false
	}
	startBlock := call.Block()
	seenProblem := map[string]bool{}
	clobbers := ClobberingDefers(fn, errIdx)
	// deferActive: a clobbering defer has been registered when ret executes on this path
	deferActive := func(path []*ssa.BasicBlock, ret *ssa.Return) *ssa.Defer {
		for _, d := range clobbers {
			if d.Block() == ret.Block() || d.Block().Dominates(ret.Block()) {
				return d
			}
			for _, pb := range path {
				if pb == d.Block() {
					return d
				}
			}
		}
		return nil
	}
	complete = EnumPathsFrom(startBlock, 2, 60000, func(path []*ssa.BasicBlock) {
		aliases := map[ssa.Value]bool{e: true}
		state := "untested"
		lastOnSameCall := false
		started := false
		for i, b := range path {
			if i > 0 {
				for _, ins := range b.Instrs {
					phi, ok := ins.(*ssa.Phi)
					if !ok {
						break
					}
					if in := PhiValueOnPath(phi, path[i-1]); in != nil && aliases[in] {
						aliases[phi] = true
					}
				}
			}
			for _, ins := range b.Instrs {
				if i == 0 && !started {
					if ins == call.(ssa.Instruction) {
						started = true
					}
					continue
				}
				switch x := ins.(type) {
				case *ssa.Store:
					// error parked in a local cell (named results / closures): treat the cell's later load as alias
					if aliases[x.Val] {
						aliases[x.Addr] = true
					}
				case *ssa.UnOp:
					if x.Op == token.MUL && aliases[x.X] {
						aliases[x] = true
					}
				case *ssa.MakeInterface:
					if aliases[x.X] {
						aliases[x] = true
					}
				case *ssa.ChangeInterface:
					if aliases[x.X] {
						aliases[x] = true
					}
				case *ssa.Call:
					// wrapping: any call that is handed the error (fmt.Errorf("%w"), errors.Join, custom wrappers) yields a derived error
					if IsErrorType(x.Type()) {
						for _, a := range x.Call.Args {
							if aliases[a] {
								aliases[x] = true
							}
							for _, va := range VariadicArgs(a) {
								if aliases[va] {
									aliases[x] = true
								}
							}
						}
					}
				case *ssa.Return:
					if state == "nil" {
						return
					}
					slot := ResolvedResults(x)[errIdx]
					if !aliases[slot] && errIdx < len(x.Results) && aliases[x.Results[errIdx]] {
						slot = x.Results[errIdx] // `return fail(err)`: the forwarder's own result is what is returned
					}
					if aliases[slot] {
						if d := deferActive(path, x); d != nil {
							k := fmt.Sprint(d.Pos(), "clobber")
							if !seenProblem[k] {
								seenProblem[k] = true
								problems = append(problems, PropProblem{d.Pos(), "the error is placed in the named result, but the deferred call registered here overwrites that result unconditionally (not only when it is nil, not with a value built from it): the caller sees the deferred call's outcome instead"})
							}
						}
						return
					}
					if state == "untested" && lastOnSameCall && isOpaqueFailure(slot) {
						return
					}
					what := ""
					switch {
					case IsNilConst(slot):
						what = "returns a nil error"
					default:
						what = "returns a different error"
					}
					if state == "nonnil" {
						what += " on a path where the load error is known to be non-nil"
					} else {
						what += " on a path that never examined the load error"
					}
					k := fmt.Sprint(x.Pos(), what)
					if !seenProblem[k] {
						seenProblem[k] = true
						problems = append(problems, PropProblem{x.Pos(), what})
					}
					return
				case *ssa.Panic:
					return
				}
			}
			if i+1 < len(path) {
				if cond, taken, ok := BranchTaken(b, path[i+1]); ok {
					lastOnSameCall = false
					if eofHandled {
						if bo, ok := cond.(*ssa.BinOp); ok && (bo.Op == token.EQL || bo.Op == token.NEQ) {
							isEOF := func(v ssa.Value) bool {
								u, ok := v.(*ssa.UnOp)
								if !ok || u.Op != token.MUL {
									return false
								}
								g, ok := u.X.(*ssa.Global)
								return ok && g.Name() == "EOF" && g.Pkg != nil && g.Pkg.Pkg.Path() == "io"
							}
							if (aliases[bo.X] && isEOF(bo.Y)) || (aliases[bo.Y] && isEOF(bo.X)) {
								if (bo.Op == token.EQL) == taken {
									state = "nil"
								}
							}
						}
					}
					if x, trueMeansNil, ok := NilCmp(cond); ok && aliases[x] {
						if taken == trueMeansNil {
							state = "nil"
						} else {
							state = "nonnil"
						}
					} else if bo, ok := cond.(*ssa.BinOp); ok && (sameCallResult(bo.X) || sameCallResult(bo.Y)) {
						// a test on another result of the same call excuses a replacement error only when the callee cannot
						// return a failing error together with the tested value (so the replacement never masks one)
						lastOnSameCall = sameCallTestExcludesError(cv, bo, taken)
					}
				}
			}
		}
	})
	return problems, false, complete
}

// HasErrResult reports whether the function's last result is an error.
func HasErrResult(fn *ssa.Function) bool { return ErrResultIndex(fn.Signature) >= 0 }

// ImplementsMethodOf reports whether fn's name and signature equal a method of the named interface type.
func ImplementsMethodOf(fn *ssa.Function, iface *types.Interface) bool {
	for i := 0; i < iface.NumMethods(); i++ {
		m := iface.Method(i)
		if m.Name() != fn.Name() {
			continue
		}
		ms := m.Type().(*types.Signature)
		a := types.NewSignatureType(nil, nil, nil, fn.Signature.Params(), fn.Signature.Results(), fn.Signature.Variadic())
		b := types.NewSignatureType(nil, nil, nil, ms.Params(), ms.Results(), ms.Variadic())
		if types.Identical(a, b) {
			return true
		}
	}
	return false
}

// isOpaqueFailure: the error value is made on the spot by fmt.Errorf or errors.New (it cannot be mistaken for a
// not-found / end-of-data verdict by the caller).
func isOpaqueFailure(v ssa.Value) bool {
	c, ok := v.(*ssa.Call)
	return ok && (IsCallTo(c, "fmt", "Errorf") || IsCallTo(c, "errors", "New"))
}

// sameCallTestExcludesError: bo compares result i of call cv with a constant K, and the branch outcome `taken` is the one
// on which result i == K (for ==) / != K (for !=). It returns true when the callee is a repository function with a body in
// which no return that may carry a non-nil error has result i equal to K — so on that branch the call's error is nil and
// replacing it hides nothing. Anything it cannot decide is false.
func sameCallTestExcludesError(cv *ssa.Call, bo *ssa.BinOp, taken bool) bool {
	if cv == nil || (bo.Op != token.EQL && bo.Op != token.NEQ) {
		return false
	}
	callee := cv.Call.StaticCallee()
	if callee == nil || len(callee.Blocks) == 0 {
		return false
	}
	var ex *ssa.Extract
	var kv ssa.Value
	if e, ok := Unconv(bo.X).(*ssa.Extract); ok && e.Tuple == ssa.Value(cv) {
		ex, kv = e, bo.Y
	} else if e, ok := Unconv(bo.Y).(*ssa.Extract); ok && e.Tuple == ssa.Value(cv) {
		ex, kv = e, bo.X
	}
	if ex == nil {
		return false
	}
	k, isK := ConstInt(kv)
	if !isK {
		return false
	}
	// the branch on which result == K
	eqBranch := (bo.Op == token.EQL) == taken
	if !eqBranch {
		return false
	}
	errIdx := ErrResultIndex(callee.Signature)
	if errIdx < 0 {
		return false
	}
	for _, ret := range Returns(callee) {
		rr := ResolvedResults(ret)
		if IsNilConst(rr[errIdx]) {
			continue
		}
		rk, isRK := ConstInt(rr[ex.Index])
		if !isRK || rk == k {
			return false
		}
	}
	return true
}

// ClobberingDefers returns the deferred calls of fn that can replace a non-nil error already placed in fn's named error
// result (index idx) by something unrelated: a deferred closure (or a deferred call handed the address of the result) that
// stores to the result cell, unless the store (a) happens only when the result is currently nil (`if err == nil { err = … }`),
// (b) stores a value built from the current result (wrapping, errors.Join, the result itself), or (c) happens only after a
// recover() that returned non-nil (the function was panicking, no error had been returned).
func ClobberingDefers(fn *ssa.Function, idx int) []*ssa.Defer {
	if idx < 0 {
		return nil
	}
	var cell *ssa.Alloc
	for _, ret := range Returns(fn) {
		if idx >= len(ret.Results) {
			continue
		}
		if u, ok := ret.Results[idx].(*ssa.UnOp); ok && u.Op == token.MUL {
			if a, ok := u.X.(*ssa.Alloc); ok {
				cell = a
			}
		}
	}
	if cell == nil {
		return nil
	}
	var out []*ssa.Defer
	for _, b := range fn.Blocks {
		for _, ins := range b.Instrs {
			d, ok := ins.(*ssa.Defer)
			if !ok {
				continue
			}
			var body *ssa.Function
			var addr ssa.Value
			if mc, ok := d.Call.Value.(*ssa.MakeClosure); ok {
				body, _ = mc.Fn.(*ssa.Function)
				for k, bv := range mc.Bindings {
					if bv == ssa.Value(cell) && body != nil && k < len(body.FreeVars) {
						addr = body.FreeVars[k]
					}
				}
			} else if sc := d.Call.StaticCallee(); sc != nil {
				body = sc
				for k, a := range d.Call.Args {
					if a == ssa.Value(cell) && k < len(sc.Params) {
						addr = sc.Params[k]
					}
				}
			}
			if body == nil || addr == nil || len(body.Blocks) == 0 {
				continue
			}
			if storeClobbers(body, addr) {
				out = append(out, d)
			}
		}
	}
	return out
}

func storeClobbers(body *ssa.Function, addr ssa.Value) bool {
	isCur := func(v ssa.Value) bool {
		u, ok := v.(*ssa.UnOp)
		return ok && u.Op == token.MUL && u.X == addr
	}
	var derives func(v ssa.Value, d int) bool
	derives = func(v ssa.Value, d int) bool {
		if d > 4 {
			return false
		}
		if isCur(v) {
			return true
		}
		switch x := v.(type) {
		case *ssa.Call:
			for _, a := range x.Call.Args {
				if derives(a, d+1) {
					return true
				}
				for _, va := range VariadicArgs(a) {
					if derives(va, d+1) {
						return true
					}
				}
			}
		case *ssa.MakeInterface:
			return derives(x.X, d+1)
		case *ssa.ChangeInterface:
			return derives(x.X, d+1)
		case *ssa.Phi:
			for _, e := range x.Edges {
				if !derives(e, d+1) {
					return false
				}
			}
			return len(x.Edges) > 0
		}
		return false
	}
	for _, b := range body.Blocks {
		for _, ins := range b.Instrs {
			st, ok := ins.(*ssa.Store)
			if !ok || st.Addr != addr {
				continue
			}
			if derives(st.Val, 0) {
				continue
			}
			guarded := GuardedBy(b, func(cond ssa.Value) (bool, bool) {
				x, trueMeansNil, ok := NilCmp(cond)
				if !ok {
					return false, false
				}
				if isCur(x) {
					return trueMeansNil, true // store only when the result is nil
				}
				if c, ok := x.(*ssa.Call); ok {
					if bi, ok := c.Call.Value.(*ssa.Builtin); ok && bi.Name() == "recover" {
						return !trueMeansNil, true // store only while panicking
					}
				}
				return false, false
			})
			if !guarded {
				return true
			}
		}
	}
	return false
}
