// Package core holds the shared machinery of the static checker: loading the
// repository into go/types + go/ssa, the closed-world call graph, the
// obligation/evidence model and small SSA helpers used by the rules.
package core

import (
	"fmt"
	"go/ast"
	"go/token"
	"go/types"
	"os"
	"path/filepath"
	"sort"
	"strings"

	"golang.org/x/tools/go/packages"
	"golang.org/x/tools/go/ssa"
	"golang.org/x/tools/go/ssa/ssautil"
)

// Module is the import path of the repository under analysis.
const Module = "github.com/ipfs/go-unixfsnode"

// ControlPkg is the import path of the overlay-only positive-control package.
const ControlPkg = Module + "/zz_verif_control"

// Program is the resolved repository.
type Program struct {
	RepoDir string
	Fset    *token.FileSet
	// Repo packages (non-test), keyed by import path; includes the control package when loaded.
	Repo map[string]*packages.Package
	// Every package reachable, keyed by import path.
	All map[string]*packages.Package
	SSA *ssa.Program
	// All SSA functions (named, methods, anonymous) whose package is a repo package.
	RepoFuncs []*ssa.Function
	GOARCH    string
}

// LoadOptions configures Load.
type LoadOptions struct {
	RepoDir string
	// Controls maps file name -> source of the control package, injected as overlay.
	Controls map[string][]byte
	GOARCH   string
}

// Load type-checks ./... of the repository (tests excluded) with full syntax
// for dependencies and builds SSA for everything.
func Load(o LoadOptions) (*Program, error) {
	env := append(os.Environ(), "GOFLAGS=-mod=mod", "GOPROXY=off", "GOSUMDB=off", "GOTOOLCHAIN=local", "GOWORK=off")
	if o.GOARCH != "" {
		env = append(env, "GOARCH="+o.GOARCH, "CGO_ENABLED=0")
	}
	cfg := &packages.Config{
		Mode:  packages.LoadAllSyntax,
		Dir:   o.RepoDir,
		Tests: false,
		Env:   env,
	}
	patterns := []string{"./..."}
	if len(o.Controls) > 0 {
		cfg.Overlay = map[string][]byte{}
		for name, src := range o.Controls {
			cfg.Overlay[filepath.Join(o.RepoDir, "zz_verif_control", name)] = src
		}
		patterns = append(patterns, "./zz_verif_control")
	}
	// the reference protobuf descriptor used by C09 (a dependency of the module, not of its non-test packages)
	patterns = append(patterns, "github.com/ipfs/boxo/ipld/unixfs/pb")
	pkgs, err := packages.Load(cfg, patterns...)
	if err != nil {
		return nil, fmt.Errorf("packages.Load: %w", err)
	}
	p := &Program{RepoDir: o.RepoDir, Repo: map[string]*packages.Package{}, All: map[string]*packages.Package{}, GOARCH: o.GOARCH}
	var errs []string
	packages.Visit(pkgs, nil, func(pk *packages.Package) {
		p.All[pk.PkgPath] = pk
		if pk.PkgPath == Module || strings.HasPrefix(pk.PkgPath, Module+"/") {
			p.Repo[pk.PkgPath] = pk
			for _, e := range pk.Errors {
				errs = append(errs, e.Error())
			}
		}
	})
	if len(errs) > 0 {
		return nil, fmt.Errorf("type-check errors in repository packages: %s", strings.Join(errs, "; "))
	}
	n := 0
	for path := range p.Repo {
		if path != ControlPkg {
			n++
		}
	}
	if n == 0 {
		return nil, fmt.Errorf("no repository packages loaded from %s", o.RepoDir)
	}
	if len(pkgs) > 0 {
		p.Fset = pkgs[0].Fset
	}
	prog, _ := ssautil.AllPackages(pkgs, ssa.InstantiateGenerics)
	prog.Build()
	p.SSA = prog
	for fn := range ssautil.AllFunctions(prog) {
		if fn.Pkg != nil && p.IsRepoPkg(fn.Pkg.Pkg) {
			p.RepoFuncs = append(p.RepoFuncs, fn)
		} else if fn.Pkg == nil && fn.Object() != nil && fn.Object().Pkg() != nil && p.IsRepoPkg(fn.Object().Pkg()) {
			p.RepoFuncs = append(p.RepoFuncs, fn)
		} else if fn.Parent() != nil {
			// anonymous function: attribute to outermost parent
			par := fn
			for par.Parent() != nil {
				par = par.Parent()
			}
			if par.Pkg != nil && p.IsRepoPkg(par.Pkg.Pkg) {
				p.RepoFuncs = append(p.RepoFuncs, fn)
			}
		}
	}
	// de-duplicate and sort deterministically
	seen := map[*ssa.Function]bool{}
	var out []*ssa.Function
	for _, f := range p.RepoFuncs {
		if !seen[f] {
			seen[f] = true
			out = append(out, f)
		}
	}
	sort.Slice(out, func(i, j int) bool {
		if out[i].String() != out[j].String() {
			return out[i].String() < out[j].String()
		}
		return out[i].Pos() < out[j].Pos()
	})
	p.RepoFuncs = out
	return p, nil
}

// IsRepoPkg reports whether pkg belongs to the repository module.
func (p *Program) IsRepoPkg(pkg *types.Package) bool {
	if pkg == nil {
		return false
	}
	return pkg.Path() == Module || strings.HasPrefix(pkg.Path(), Module+"/")
}

// Rel returns the import path relative to the module ("" for the root package).
func Rel(path string) string {
	if path == Module {
		return ""
	}
	return strings.TrimPrefix(path, Module+"/")
}

// PkgOf returns the repository-relative package of fn ("file", "hamt", "" for root, ...),
// and ok=false when fn is not repository code.
func (p *Program) PkgOf(fn *ssa.Function) (string, bool) {
	f := fn
	for f.Parent() != nil {
		f = f.Parent()
	}
	var tp *types.Package
	if f.Pkg != nil {
		tp = f.Pkg.Pkg
	} else if f.Object() != nil {
		tp = f.Object().Pkg()
	}
	if !p.IsRepoPkg(tp) {
		return "", false
	}
	return Rel(tp.Path()), true
}

// Pos renders a position relative to the repository root: "file/shard.go:182".
func (p *Program) Pos(pos token.Pos) string {
	if !pos.IsValid() {
		return "-"
	}
	ps := p.Fset.Position(pos)
	rel, err := filepath.Rel(p.RepoDir, ps.Filename)
	if err != nil || strings.HasPrefix(rel, "..") {
		rel = ps.Filename
		if i := strings.Index(rel, "/pkg/mod/"); i >= 0 {
			rel = rel[i+len("/pkg/mod/"):]
		}
	}
	return fmt.Sprintf("%s:%d", rel, ps.Line)
}

// FileOf returns the repository-relative file name of pos.
func (p *Program) FileOf(pos token.Pos) string {
	if !pos.IsValid() {
		return ""
	}
	ps := p.Fset.Position(pos)
	rel, err := filepath.Rel(p.RepoDir, ps.Filename)
	if err != nil {
		return ps.Filename
	}
	return rel
}

// IsGenerated reports whether the file containing pos carries a "Code generated" header
// or is one of the ipldsch_* generated files.
func (p *Program) IsGenerated(pos token.Pos) bool {
	f := p.FileOf(pos)
	base := filepath.Base(f)
	return strings.HasPrefix(base, "ipldsch_")
}

// FuncSyntax returns the *ast.FuncDecl or *ast.FuncLit for fn, if any.
func FuncSyntax(fn *ssa.Function) ast.Node { return fn.Syntax() }

// SSAPkg returns the ssa package for a repository-relative path.
func (p *Program) SSAPkg(rel string) *ssa.Package {
	path := Module
	if rel != "" {
		path = Module + "/" + rel
	}
	pk := p.All[path]
	if pk == nil || pk.Types == nil {
		return nil
	}
	return p.SSA.Package(pk.Types)
}

// DepSSAPkg returns the ssa package of a dependency by full import path.
func (p *Program) DepSSAPkg(path string) *ssa.Package {
	pk := p.All[path]
	if pk == nil || pk.Types == nil {
		return nil
	}
	return p.SSA.Package(pk.Types)
}

// HandWritten reports whether fn is repository code outside generated files and outside the control package.
func (p *Program) HandWritten(fn *ssa.Function) bool {
	rel, ok := p.PkgOf(fn)
	if !ok || rel == "zz_verif_control" {
		return false
	}
	if fn.Synthetic != "" && fn.Syntax() == nil {
		return false
	}
	return !p.IsGenerated(fn.Pos())
}
