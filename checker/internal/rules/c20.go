package rules

import (
	"fmt"
	"go/token"
	"go/types"
	"strings"

	"golang.org/x/tools/go/ssa"

	"verifchk/internal/core"
)

func init() { Registry["C20"] = c20 }

func c20(c *Ctx) {
	r := c.R
	r.Explain = "C20 (deterministic depth-first request order): decides that nothing in the code that can reach a block load makes the order of loads depend on anything but the DAG — (R20.1) no function from which a load is reachable ranges over a Go map with a load-reaching body, starts a goroutine, selects, or reads clock/random state; (R20.2) every link handed to a loader is the element just yielded by a forward dag-pb links iterator (or the hash-selected bucket on the lookup path), and the readers given to io.MultiReader are the slice appended to in link order, passed on without sort or reversal; (R20.3) descent is depth-first: the walk recurses into the loaded child in the same iteration before the links iterator advances, and the sharded list iterator advances its own links only when no child cursor is active. io.MultiReader reading its readers sequentially is an axiom. Not decided: go-ipld-prime's root-to-target order for path traversals."
	r.Rule("R20.1", "in every reader-side function that reaches a block load: no map range whose body reaches a load, no go/select, no clock/random read (positive controls must fire)")
	r.Rule("R20.2", "the link argument of every loader call is the value yielded by Next() of a forward links iterator in the same function (or the result of the hash-bucket selection); io.MultiReader receives the slice that the children loop appended to, unmodified")
	r.Rule("R20.4", "nothing is requested before it is asked for: the \"unixfs\" reifier and every member of the lazy reifier table cannot reach a block load (a table entry swapped for its preload sibling requests a whole subtree when a path merely passes through)")
	r.Rule("R20.5", "every child is requested: the single-block reader is chosen exactly when the node has no links (same check as R4.10) — a node with links treated as childless never requests them")
	r.Rule("R20.3", "depth first: after a child is loaded, every path back to the loop header passes the recursive walk of that child; the list iterator advances the parent's links only on the edge where its child cursor is nil")

	fetch := c.G.Fetchers(core.ReaderPkgs)
	reach := c.G.ReachersOf(fetch)
	// loaders: the fetchers plus their thin wrappers (a cache-checking front that hands a part of its parameter to the fetcher)
	loaders := c.G.Loaders(core.ReaderPkgs)
	// control package: treat its own load site as a fetcher for the control run
	ctlFetch := c.G.Fetchers(map[string]bool{core.Rel(core.ControlPkg): true})
	ctlReach := c.G.ReachersOf(ctlFetch)
	ctlSeen := map[string]bool{}
	nfun, nbad := 0, 0
	for _, fn := range c.G.Funcs() {
		rel, ok := c.P.PkgOf(fn)
		if !ok {
			continue
		}
		isCtl := rel == core.Rel(core.ControlPkg)
		rc := reach
		if isCtl {
			rc = ctlReach
		} else if !core.ReaderPkgs[rel] {
			continue
		}
		if !rc[fn] {
			continue
		}
		if !isCtl {
			nfun++
		}
		report := func(what string, pos token.Pos) {
			if isCtl {
				ctlSeen[strings.Fields(what)[0]] = true
				return
			}
			nbad++
			r.Violate("R20.1", fmt.Sprintf("%s/%s", core.FuncName(fn), strings.ReplaceAll(what, " ", "-")), c.P.Pos(pos), what+" in code that reaches a block load: the request order would vary between runs")
		}
		for _, b := range fn.Blocks {
			for _, ins := range b.Instrs {
				switch x := ins.(type) {
				case *ssa.Go:
					report("go statement", x.Pos())
				case *ssa.Select:
					report("select statement", x.Pos())
				case ssa.CallInstruction:
					if s := nondetCall(x.Common().StaticCallee()); s != "" {
						report("clock/random read "+s, x.Pos())
					}
				}
			}
		}
		for _, li := range rangeLoops(fn) {
			if li.kind != "map" {
				continue
			}
			loads := false
			for b := range li.body {
				for _, ins := range b.Instrs {
					if ci, ok := ins.(ssa.CallInstruction); ok {
						for _, e := range c.G.Out[fn] {
							if e.Site == ci.(ssa.Instruction) && rc[e.Callee] {
								loads = true
							}
						}
						if len(core.FetchSites(fn)) > 0 {
							for _, s := range core.FetchSites(fn) {
								if s.Call == ci {
									loads = true
								}
							}
						}
					}
				}
			}
			if loads {
				report("map range with a load-reaching body", firstPos(li.header))
			}
		}
	}
	if nbad == 0 {
		r.OK("R20.1", "reader-packages/*", "-", fmt.Sprintf("%d functions reach a block load: none ranges a map around a load, starts a goroutine, selects or reads clock/random state", nfun))
	}
	r.Floor("R20.1/functions", nfun, 30)
	r.Control("R20.1/map-range-around-load", ctlSeen["map"])
	r.Control("R20.1/goroutine", ctlSeen["go"])

	// ---- R20.2 (a) loader link provenance
	n2 := 0
	for _, fn := range c.G.Funcs() {
		rel, ok := c.P.PkgOf(fn)
		if !ok || !core.ReaderPkgs[rel] || fn.Synthetic != "" {
			continue
		}
		k := 0
		for _, ci := range core.CallsIn(fn) {
			call, ok := ci.(*ssa.Call)
			if !ok || !loaders[call.Call.StaticCallee()] || len(call.Call.Args) < 2 || loaders[fn] {
				continue
			}
			// the loader's link parameter: the argument of PBLink type
			var link ssa.Value
			for _, a := range call.Call.Args[1:] {
				if strings.Contains(types.TypeString(a.Type(), nil), "PBLink") {
					link = a
				}
			}
			if link == nil {
				continue
			}
			n2++
			k++
			key := fmt.Sprintf("%s/loader-link#%d", core.FuncName(fn), k)
			ok2, why := c.linkFromForwardIterator(fn, link)
			r.Check(ok2, "R20.2", key, c.P.Pos(call.Pos()), why, "the link handed to the loader is not the element just yielded by a forward links iterator: "+why)
		}
	}
	r.Floor("R20.2/loader-link", n2, 3)
	// (b) MultiReader
	n2b := 0
	for _, fn := range c.G.Funcs() {
		rel, ok := c.P.PkgOf(fn)
		if !ok || rel != "file" {
			continue
		}
		for _, ci := range core.CallsIn(fn) {
			if !core.IsCallTo(ci, "io", "MultiReader") {
				continue
			}
			n2b++
			key := core.FuncName(fn) + "/multireader-order"
			arg := ci.Common().Args[0]
			var bad []string
			phi, isPhi := arg.(*ssa.Phi)
			if !isPhi {
				bad = append(bad, "io.MultiReader does not receive the accumulated slice directly")
			} else {
				for i, e := range phi.Edges {
					_ = i
					if e == ssa.Value(phi) {
						continue
					}
					if k, ok := e.(*ssa.Call); ok {
						if b, ok := k.Call.Value.(*ssa.Builtin); ok && b.Name() == "append" && k.Call.Args[0] == ssa.Value(phi) {
							continue
						}
					}
					if _, ok := e.(*ssa.MakeSlice); ok {
						continue
					}
					if sl, ok := e.(*ssa.Slice); ok {
						if _, fresh := sl.X.(*ssa.Alloc); fresh {
							continue // make([]T, 0): a fresh empty slice
						}
					}
					if core.IsNilConst(e) {
						continue
					}
					bad = append(bad, "the readers slice is built by something other than append in link order")
				}
				for _, ref := range *phi.Referrers() {
					switch x := ref.(type) {
					case *ssa.DebugRef:
						continue
					case *ssa.Phi:
						if phi.Block().Dominates(x.Block()) && core.InCycle(x.Block()) {
							continue // merge of the same accumulation inside the loop
						}
						bad = append(bad, fmt.Sprintf("the readers slice is merged with another value at %s", c.P.Pos(x.Pos())))
					case *ssa.Call:
						if x == ci.(*ssa.Call) {
							continue
						}
						if b, ok := x.Call.Value.(*ssa.Builtin); ok && (b.Name() == "len" || b.Name() == "append") {
							continue
						}
						bad = append(bad, fmt.Sprintf("the readers slice is also passed to %s at %s (it may be reordered)", shorten(core.CalleeName(x)), c.P.Pos(x.Pos())))
					default:
						bad = append(bad, fmt.Sprintf("the readers slice escapes through %T at %s before io.MultiReader (it may be reordered)", ref, c.P.Pos(ref.Pos())))
					}
				}
				// the loop is driven by a forward list iterator
				hdr := phi.Block()
				fwd := false
				if iff := core.BlockIf(hdr); iff != nil {
					cond := iff.Cond
					if u, ok := cond.(*ssa.UnOp); ok {
						cond = u.X
					}
					if call, ok := cond.(*ssa.Call); ok {
						if name, _ := methodCall(call); name == "Done" {
							fwd = true
						}
					}
				}
				if !fwd {
					bad = append(bad, "the children loop is not driven by the links iterator's Done()")
				}
			}
			r.Check(len(bad) == 0, "R20.2", key, c.P.Pos(ci.Pos()), "children are appended in link order and handed to io.MultiReader unmodified", uniqJoin(bad))
		}
	}
	r.Floor("R20.2/multireader", n2b, 1)
	// (c) no child is opened while the stream is assembled except the one containing the offset: the rest is loaded in
	// link order as the MultiReader reaches it (decided by C05's R5.4 on the same function)
	{
		saved := c.R
		tmp := core.NewReport("tmp", "")
		c.R = tmp
		c.checkSkipBeforeOpen(reach, fetch)
		c.R = saved
		for _, o := range tmp.Obls {
			if strings.HasSuffix(o.Key, "/declared-size-paths") {
				// sizing a child whose size is recorded must not open it: an opened child is an out-of-order request
				r.Check(o.Status == core.Discharged, "R20.2", strings.Replace(o.Key, "/declared-size-paths", "/sizing-opens-nothing-recorded", 1), o.Pos, "children with a recorded size are sized without being opened", "a child can be opened while sizes are computed (its block is requested before the children in front of it are read): "+o.Detail)
				continue
			}
			if !strings.HasSuffix(o.Key, "/skip-before-open") {
				continue
			}
			r.Check(o.Status == core.Discharged, "R20.2", strings.Replace(o.Key, "/skip-before-open", "/children-stay-deferred", 1), o.Pos, "only the child containing the offset is opened while the stream is assembled; later children load as the MultiReader reaches them", "children are opened while the stream is assembled (breadth-first requests): "+o.Detail)
		}
	}

	// ---- R20.4 / R20.5
	{
		lazy, _, lazyName, _, okT := c.lazyAndPreloadTables()
		reg, _ := c.reifierRegistry()
		if !okT || reg["unixfs"] == nil {
			r.Break("cannot identify the lazy reifier table from the KnownReifiers registry")
		} else {
			n4 := 0
			subjects := []*ssa.Function{reg["unixfs"]}
			for _, e := range lazy {
				if e.Fn != nil {
					subjects = append(subjects, e.Fn)
				}
			}
			seenS := map[*ssa.Function]bool{}
			for _, f := range subjects {
				if seenS[f] {
					continue
				}
				seenS[f] = true
				n4++
				key := core.FuncName(f) + "/requests-nothing"
				if reach[f] {
					path := c.G.PathTo(f, fetch)
					r.Violate("R20.4", key, c.P.Pos(f.Pos()), "a member of the lazy table ("+lazyName+") / the lazy reifier can reach a block load: "+core.PathString(path)+" — blocks are requested at reification time, before and outside the depth-first order of use")
				} else {
					r.OK("R20.4", key, c.P.Pos(f.Pos()), "cannot reach a block load")
				}
			}
			r.Floor("R20.4", n4, 4)
		}
		c.checkChildlessDispatch("R20.5")
	}

	// ---- R20.3
	n3 := 0
	// (a) recursive walks: reuse the walk-shape check of C06 on every function that loads in a links loop and recurses
	for _, fn := range c.hamtWalkers(loaders) {
		n3++
		saved := c.R
		tmp := core.NewReport("tmp", "")
		c.R = tmp
		c.checkWalkComplete(fn, loaders)
		c.R = saved
		var bad []string
		for _, o := range tmp.Obls {
			if o.Status != core.Discharged {
				bad = append(bad, o.Detail)
			}
		}
		r.Check(len(bad) == 0, "R20.3", core.FuncName(fn)+"/depth-first-walk", c.P.Pos(fn.Pos()), "the loaded child is walked in the same iteration, before the links iterator advances", uniqJoin(bad))
	}
	// (a') no level-order collection: a child shard obtained from a loader inside a loop is not put aside into a slice, array
	// or map in that loop (it must be descended into, or handed to a cursor, before the next link is looked at)
	for _, fn := range c.G.Funcs() {
		rel, ok := c.P.PkgOf(fn)
		if !ok || rel != "hamt" || fn.Synthetic != "" || loaders[fn] {
			continue
		}
		ord := 0
		for _, ci := range core.CallsIn(fn) {
			call, ok := ci.(*ssa.Call)
			if !ok || !loaders[call.Call.StaticCallee()] || !core.InCycle(call.Block()) {
				continue
			}
			child := extractOf(call, 0)
			if child == nil {
				continue
			}
			ord++
			n3++
			key := fmt.Sprintf("%s/child-not-collected#%d", core.FuncName(fn), ord)
			badAt := ""
			for _, ref := range *child.Referrers() {
				switch x := ref.(type) {
				case *ssa.Store:
					if _, isIdx := x.Addr.(*ssa.IndexAddr); isIdx && x.Val == child {
						badAt = c.P.Pos(x.Pos())
						if badAt == "-" {
							badAt = c.P.Pos(call.Pos())
						}
					}
				case *ssa.MapUpdate:
					if x.Value == child {
						badAt = c.P.Pos(x.Pos())
					}
				}
			}
			r.Check(badAt == "", "R20.3", key, c.P.Pos(call.Pos()), "the loaded child is used in the iteration that loaded it", "loaded child shards are collected into a slice/map at "+badAt+" inside the loop that loads them: all children of a level are requested before any of them is descended into (level order, not depth first)")
		}
	}
	// (b) list iterator: parent advance only when no child cursor is active
	for _, fn := range c.G.Funcs() {
		rel, ok := c.P.PkgOf(fn)
		if !ok || rel != "hamt" || fn.Synthetic != "" || len(fn.Params) == 0 {
			continue
		}
		recvN := core.RecvNamed(fn)
		if recvN == nil {
			continue
		}
		st, ok := recvN.Underlying().(*types.Struct)
		if !ok {
			continue
		}
		var child, parent *types.Var
		for i := 0; i < st.NumFields(); i++ {
			f := st.Field(i)
			if pt, ok := f.Type().Underlying().(*types.Pointer); ok {
				if nn, ok := types.Unalias(pt.Elem()).(*types.Named); ok && nn == recvN {
					child = f
				} else if hasNextDone(f.Type()) {
					parent = f
				}
			}
		}
		if child == nil || parent == nil {
			continue
		}
		var adv *ssa.Call
		for _, ci := range core.CallsIn(fn) {
			call, ok := ci.(*ssa.Call)
			if !ok {
				continue
			}
			name, rv := methodCall(call)
			if name != "Next" {
				continue
			}
			if u, ok := rv.(*ssa.UnOp); ok && c.fieldOfAddr(fn, u.X) == parent {
				adv = call
			}
		}
		if adv == nil {
			continue
		}
		n3++
		key := core.FuncName(fn) + "/drain-child-before-advance"
		good := core.GuardedBy(adv.Block(), func(cond ssa.Value) (bool, bool) {
			x, trueMeansNil, ok := core.NilCmp(cond)
			if !ok {
				return false, false
			}
			if u, ok := x.(*ssa.UnOp); ok && c.fieldOfAddr(fn, u.X) == child {
				return trueMeansNil, true
			}
			return false, false
		})
		r.Check(good, "R20.3", key, c.P.Pos(adv.Pos()), "the parent's links advance only when no child cursor is active (the child is drained first)", "the parent's links iterator can advance while a child cursor is still active: breadth-first / interleaved order")
	}
	r.Floor("R20.3", n3, 2)
}

// linkFromForwardIterator: link is extract #1 of Next() on a links iterator, or the result of the bucket selection.
func (c *Ctx) linkFromForwardIterator(fn *ssa.Function, link ssa.Value) (bool, string) {
	switch x := link.(type) {
	case *ssa.Extract:
		call, ok := x.Tuple.(*ssa.Call)
		if !ok {
			return false, "not a call result"
		}
		name, rv := methodCall(call)
		if name == "Next" && rv != nil && strings.Contains(types.TypeString(rv.Type(), nil), "PBLinks__Itr") {
			return true, "the link is the element yielded by the dag-pb links iterator's Next() in this invocation"
		}
		if f := call.Call.StaticCallee(); f != nil {
			if _, isRepo := c.P.PkgOf(f); isRepo && c.derivesFromHashBits(call.Call.Args) {
				return true, "the link is the bucket selected by the hash bits (" + f.Name() + ")"
			}
		}
		return false, "result of " + shorten(core.CalleeName(call))
	case *ssa.Call:
		// index form: links.Lookup(i) with i a counter that runs forward from 0 in steps of 1
		if name, rv := methodCall(x); name == "Lookup" && rv != nil && strings.Contains(types.TypeString(rv.Type(), nil), "PBLinks") && len(x.Call.Args) >= 2 {
			if phi, ok := core.Unconv(x.Call.Args[len(x.Call.Args)-1]).(*ssa.Phi); ok && isCounterFromNonNeg(phi) {
				fwd := true
				for _, e := range phi.Edges {
					if k, isK := core.ConstInt(e); isK {
						fwd = fwd && k == 0
					} else if add, isAdd := e.(*ssa.BinOp); isAdd {
						k, isK := core.ConstInt(add.Y)
						fwd = fwd && isK && k == 1
					}
				}
				if fwd {
					return true, "the link is the i-th element of the dag-pb links list with i counting forward from 0"
				}
			}
		}
		return false, "result of " + shorten(core.CalleeName(x))
	case *ssa.Parameter:
		// forwarded: every caller must satisfy the rule
		idx := -1
		for i, p := range fn.Params {
			if p == x {
				idx = i
			}
		}
		for _, e := range c.G.In[fn] {
			call, ok := e.Site.(ssa.CallInstruction)
			if !ok || call.Common().StaticCallee() != fn {
				return false, "called indirectly"
			}
			if ok2, why := c.linkFromForwardIterator(e.Caller, call.Common().Args[idx]); !ok2 {
				return false, why
			}
		}
		return true, "parameter fed by forward-iterator elements at every call site"
	}
	return false, fmt.Sprintf("%T", link)
}

// hamtWalkers: the functions of package hamt that load child shards inside a links loop and recurse (directly, or through
// a per-link helper from which both a loader and the function itself are reachable).
func (c *Ctx) hamtWalkers(fetch map[*ssa.Function]bool) []*ssa.Function {
	var out []*ssa.Function
	for _, fn := range c.G.Funcs() {
		rel, ok := c.P.PkgOf(fn)
		if !ok || rel != "hamt" || fn.Synthetic != "" {
			continue
		}
		selfRec, loads := false, false
		for _, ci := range core.CallsIn(fn) {
			if ci.Common().StaticCallee() == fn {
				selfRec = true
			}
			if fetch[ci.Common().StaticCallee()] && core.InCycle(ci.Block()) {
				loads = true
			}
			// the per-link step delegated to a helper: a call inside the loop to a non-loader repository function from which
			// both a loader and fn itself are reachable
			if h := ci.Common().StaticCallee(); h != nil && h != fn && !fetch[h] && core.InCycle(ci.Block()) && len(fn.Params) > 0 && fn.Signature.Recv() != nil {
				if hrel, isRepo := c.P.PkgOf(h); isRepo && hrel == "hamt" && core.RecvNamed(h) == core.RecvNamed(fn) {
					hr, _ := c.G.Reach(h)
					rl := false
					for f := range fetch {
						if hr[f] {
							rl = true
						}
					}
					if rl && hr[fn] {
						selfRec, loads = true, true
					}
				}
			}
		}
		if selfRec && loads {
			out = append(out, fn)
		}
	}
	return out
}
