package rules

import (
	"fmt"
	"go/constant"
	"go/token"
	"go/types"
	"os"
	"sort"
	"strings"

	"golang.org/x/tools/go/ssa"

	"verifchk/internal/core"
)

// lenOf decodes len(x) (builtin) and returns x.
func lenOf(v ssa.Value) (ssa.Value, bool) {
	call, ok := core.Unconv(v).(*ssa.Call)
	if !ok {
		return nil, false
	}
	b, ok := call.Call.Value.(*ssa.Builtin)
	if !ok || b.Name() != "len" {
		return nil, false
	}
	return call.Call.Args[0], true
}

// sameValue: identical SSA value, or identical access path (re-evaluated pure accessor chain / re-loaded field).
func (c *Ctx) sameValue(a, b ssa.Value) bool {
	if a == b || core.Unconv(a) == core.Unconv(b) {
		return true
	}
	if sameCellLoads(core.Unconv(a), core.Unconv(b)) {
		return true
	}
	pa, pb := c.accessPath(core.Unconv(a), 0), c.accessPath(core.Unconv(b), 0)
	return pa == pb && !strings.Contains(pa, "val@") && pa != "?"
}

// sameCellLoads: a and b are loads of one local variable cell (a variable that lives in memory because a closure captures
// it) that cannot have been reassigned between them: every store to the cell in the function dominates both loads, and no
// closure that captures the cell stores to it.
func sameCellLoads(a, b ssa.Value) bool {
	ua, ok1 := a.(*ssa.UnOp)
	ub, ok2 := b.(*ssa.UnOp)
	if !ok1 || !ok2 || ua.Op != token.MUL || ub.Op != token.MUL || ua.X != ub.X {
		return false
	}
	al, ok := ua.X.(*ssa.Alloc)
	if !ok || al.Referrers() == nil {
		return false
	}
	for _, ref := range *al.Referrers() {
		switch x := ref.(type) {
		case *ssa.Store:
			if x.Addr != ssa.Value(al) {
				return false // the address itself escapes into memory
			}
			sb := x.Block()
			for _, ld := range []*ssa.UnOp{ua, ub} {
				if sb == ld.Block() {
					// the store must come first in the block
					for _, ins := range sb.Instrs {
						if ins == ssa.Instruction(ld) {
							return false
						}
						if ins == ssa.Instruction(x) {
							break
						}
					}
				} else if !sb.Dominates(ld.Block()) {
					return false
				}
			}
		case *ssa.UnOp:
		case *ssa.DebugRef:
		case *ssa.MakeClosure:
			body, _ := x.Fn.(*ssa.Function)
			if body == nil {
				return false
			}
			for k, bv := range x.Bindings {
				if bv != ssa.Value(al) || k >= len(body.FreeVars) {
					continue
				}
				fv := body.FreeVars[k]
				if fv.Referrers() == nil {
					continue
				}
				for _, r2 := range *fv.Referrers() {
					switch y := r2.(type) {
					case *ssa.UnOp, *ssa.DebugRef:
					case *ssa.Store:
						if y.Addr == ssa.Value(fv) {
							return false
						}
						return false
					default:
						return false
					}
				}
			}
		default:
			return false
		}
	}
	return true
}

// leLenGuard reports whether block b is dominated by a branch edge that implies idx <= len(x) (strict=false) or idx < len(x) (strict=true).
func (c *Ctx) leLenGuard(b *ssa.BasicBlock, idx, x ssa.Value, strict bool) bool {
	return core.GuardedBy(b, func(cond ssa.Value) (bool, bool) {
		bo, ok := cond.(*ssa.BinOp)
		if !ok {
			return false, false
		}
		// normalise to  L op len(X)
		l, r, op := bo.X, bo.Y, bo.Op
		lx, lIsLen := lenOf(l)
		rx, rIsLen := lenOf(r)
		var lenArg, other ssa.Value
		switch {
		case rIsLen && !lIsLen:
			lenArg, other = rx, l
		case lIsLen && !rIsLen:
			lenArg, other = lx, r
			switch op { // len(X) op other  ==>  other op' len(X)
			case token.LSS:
				op = token.GTR
			case token.GTR:
				op = token.LSS
			case token.LEQ:
				op = token.GEQ
			case token.GEQ:
				op = token.LEQ
			}
		default:
			return false, false
		}
		if !c.sameValue(lenArg, x) || !c.sameValue(other, idx) {
			return false, false
		}
		// other op len(X)
		switch op {
		case token.LSS: // other < len : true edge implies strict
			return true, true
		case token.LEQ: // other <= len : true edge implies non-strict
			if strict {
				return false, false
			}
			return true, true
		case token.GEQ: // other >= len : false edge implies other < len
			return false, true
		case token.GTR: // other > len : false edge implies other <= len
			if strict {
				return false, false
			}
			return false, true
		case token.EQL:
			if strict {
				return false, false
			}
			return true, true
		}
		return false, false
	})
}

// noInterveningStore: no store to the receiver field loaded by v can execute before ins within fn.
func (c *Ctx) noInterveningStore(fn *ssa.Function, ins ssa.Instruction, v ssa.Value) bool {
	u, ok := core.Unconv(v).(*ssa.UnOp)
	if !ok || u.Op != token.MUL {
		return true
	}
	_, fv, ok := core.FieldAddrOf(u.X)
	if !ok {
		return true
	}
	for _, fs := range recvFieldStores(fn) {
		if fs.field != fv {
			continue
		}
		sb, ib := fs.st.Block(), ins.Block()
		if sb == ib {
			si, ii := -1, -1
			for k, x := range sb.Instrs {
				if x == ssa.Instruction(fs.st) {
					si = k
				}
				if x == ins {
					ii = k
				}
			}
			if si < ii || core.InCycle(sb) {
				return false
			}
			continue
		}
		// can the store's block reach the instruction's block?
		seen := map[*ssa.BasicBlock]bool{}
		stack := []*ssa.BasicBlock{sb}
		for len(stack) > 0 {
			x := stack[len(stack)-1]
			stack = stack[:len(stack)-1]
			if x == ib {
				return false
			}
			if seen[x] {
				continue
			}
			seen[x] = true
			stack = append(stack, x.Succs...)
		}
	}
	return true
}

// positionFieldNonNeg: v is a load of a reader position field for which C04's R4.1/R4.3 hold, so it is >= 0 by induction.
func (c *Ctx) positionFieldNonNeg(v ssa.Value) (bool, string) {
	u, ok := core.Unconv(v).(*ssa.UnOp)
	if !ok || u.Op != token.MUL {
		return false, ""
	}
	_, fv, ok := core.FieldAddrOf(u.X)
	if !ok {
		return false, ""
	}
	for _, rt := range findReaderTypes(c, map[string]bool{"file": true}) {
		for _, pf := range rt.pos {
			if pf != fv {
				continue
			}
			saved := c.R
			tmp := core.NewReport("tmp", "")
			c.R = tmp
			c.checkSeek(rt, pf)
			if rt.read != nil {
				c.checkReadAdvance(rt, pf)
			}
			c.R = saved
			for _, o := range tmp.Obls {
				if o.Status != core.Discharged {
					return false, "position field " + pf.Name() + " is not proven non-negative (C04 " + o.Rule + " fails: " + o.Detail + ")"
				}
			}
			// other writers: only Seek and Read may store it
			for _, m := range c.P.RepoFuncs {
				if m.Synthetic != "" || core.RecvNamed(m) != rt.named || m == rt.seek || m == rt.read {
					continue
				}
				for _, fs := range recvFieldStores(m) {
					if fs.field == pf {
						return false, "position field is also written by " + m.Name()
					}
				}
			}
			return true, "position field " + pf.Name() + " is >= 0 by the C04 invariant (Seek validates before commit, Read adds the non-negative count)"
		}
	}
	return false, ""
}

func (d *discharger) dischargeBounds(s panicSite) (bool, string) {
	c := d.c
	switch x := s.ins.(type) {
	case *ssa.Slice:
		// (a) decoder advance rest[n:]
		if x.High == nil && x.Max == nil && x.Low != nil && isConsumeLen(x.Low) {
			guarded := core.GuardedBy(x.Block(), func(cond ssa.Value) (bool, bool) {
				v, onT, onF, ok := core.SignTest(cond)
				if !ok || v != x.Low {
					return false, false
				}
				if onT == "nonneg" {
					return true, true
				}
				if onF == "nonneg" {
					return false, true
				}
				return false, false
			})
			var consumed ssa.Value
			if ex, ok := x.Low.(*ssa.Extract); ok {
				consumed = ex.Tuple.(*ssa.Call).Call.Args[len(ex.Tuple.(*ssa.Call).Call.Args)-1]
			} else if call, ok := x.Low.(*ssa.Call); ok {
				consumed = call.Call.Args[len(call.Call.Args)-1]
			}
			if guarded && consumed == x.X {
				return true, "advance of the consumed buffer by a protowire.Consume* length under n>=0 (0<n<=len by protowire's contract)"
			}
			return false, "slice by a Consume* length that is not sign-checked or applies to a different buffer"
		}
		// (a') the advance helper of a decoder cursor: r.F = r.F[n:] with n a parameter that every call site obtains from
		// protowire.Consume*(r.F) on the same receiver in the same block
		if x.High == nil && x.Max == nil && x.Low != nil {
			if p, isParam := x.Low.(*ssa.Parameter); isParam && p.Parent() == s.fn {
				j := -1
				for i, q := range s.fn.Params {
					if q == p {
						j = i
					}
				}
				if adv := c.advanceHelper(s.fn, j); adv != nil {
					ncs, okAll := 0, true
					for _, e := range c.G.In[s.fn] {
						cs, isCall := e.Site.(*ssa.Call)
						if !isCall || cs.Call.StaticCallee() != s.fn || j >= len(cs.Call.Args) {
							continue
						}
						ncs++
						fw := c.consumeForwarder(e.Caller)
						if fw == nil || fw.adv == nil || fw.adv.fn != s.fn {
							okAll = false
						}
					}
					if ncs > 0 && okAll {
						return true, fmt.Sprintf("advance helper: the length is sign-tested here and at all %d call site(s) it is the length protowire.Consume* returned for this very buffer field (0<=n<=len by protowire's contract)", ncs)
					}
					return false, "advance helper called with a length that is not the result of protowire.Consume* on the same buffer"
				}
			}
		}
		// (b) len dominance for x[lo:]
		if x.High == nil && x.Max == nil && x.Low != nil {
			upper := c.leLenGuard(x.Block(), x.Low, x.X, false) && c.noInterveningStore(s.fn, x, x.Low)
			lowerOK, lowerWhy := false, ""
			if isConstNonNeg(x.Low) {
				lowerOK, lowerWhy = true, "constant lower bound"
			} else if ok, why := c.positionFieldNonNeg(x.Low); ok {
				lowerOK, lowerWhy = true, why
			} else if why != "" {
				lowerWhy = why
			}
			if upper && lowerOK {
				return true, "lower bound: " + lowerWhy + "; upper bound: dominated by a comparison with len of the same value"
			}
			// (c) listed preconditions
			if ok, why, listed := d.precondition(s); listed {
				return ok, why
			}
			if !upper {
				return false, "low bound is not dominated by a comparison with len() of the sliced value"
			}
			return false, "low bound not proven non-negative: " + lowerWhy
		}
		if ok, why, listed := d.precondition(s); listed {
			return ok, why
		}
		return false, "no recognised guard for this slice form"
	case *ssa.IndexAddr:
		if c.leLenGuard(x.Block(), x.Index, x.X, true) && (isConstNonNeg(x.Index)) {
			return true, "index dominated by a comparison with len of the same value"
		}
		// a fixed-size array (a dispatch table indexed by a decoded number): idx < N and idx >= 0 on dominating edges; when
		// the array is an array-of-structs function table, every index must also have its functions (a gap is a nil call)
		if n, isArr := arrayLenOf(x.X.Type()); isArr {
			idx := core.Unconv(x.Index)
			upper := core.GuardedBy(x.Block(), func(cond ssa.Value) (bool, bool) {
				bo, ok := cond.(*ssa.BinOp)
				if !ok || core.Unconv(bo.X) != idx {
					return false, false
				}
				k, isK := core.ConstInt(bo.Y)
				if !isK {
					return false, false
				}
				switch {
				case bo.Op == token.GEQ && k <= n: // idx >= k false => idx < k <= n
					return false, true
				case bo.Op == token.GTR && k <= n-1:
					return false, true
				case bo.Op == token.LSS && k <= n:
					return true, true
				case bo.Op == token.LEQ && k <= n-1:
					return true, true
				}
				return false, false
			})
			lower := isConstNonNeg(idx) || isUnsigned(idx.Type()) || core.GuardedBy(x.Block(), func(cond ssa.Value) (bool, bool) {
				v, onT, onF, ok := core.SignTest(cond)
				if !ok || core.Unconv(v) != idx {
					return false, false
				}
				if onT == "nonneg" {
					return true, true
				}
				if onF == "nonneg" {
					return false, true
				}
				return false, false
			})
			if upper && lower {
				if gl, isGl := x.X.(*ssa.Global); isGl {
					for key, ents := range c.G.FieldTables {
						if key.Global != gl {
							continue
						}
						have := map[string]bool{}
						for _, e := range ents {
							if e.Key != nil {
								have[e.Key.ExactString()] = true
							}
						}
						if int64(len(have)) != n {
							return false, fmt.Sprintf("the index is within the array, but the function table has %d of %d entries for one of its fields: an index without a function is a nil call", len(have), n)
						}
					}
				}
				return true, fmt.Sprintf("index tested to lie in [0, %d) of a fixed-size array", n)
			}
		}
		// x[len(x)-k], k >= 1, under a test that len(x)-k is not negative (or that len(x) >= k)
		if bo, ok := core.Unconv(x.Index).(*ssa.BinOp); ok && bo.Op == token.SUB {
			if k, isK := core.ConstInt(bo.Y); isK && k >= 1 {
				if lv, isLen := lenOf(bo.X); isLen && (lv == x.X || c.sameValue(lv, x.X)) {
					guarded := core.GuardedBy(x.Block(), func(cond ssa.Value) (bool, bool) {
						v, onT, onF, ok := core.SignTest(cond)
						if ok && (v == x.Index || v == ssa.Value(bo)) {
							if onT == "nonneg" {
								return true, true
							}
							if onF == "nonneg" {
								return false, true
							}
						}
						// len(x) >= k / len(x) > k-1 / len(x) != 0 (k == 1)
						if cb, ok := cond.(*ssa.BinOp); ok && cb.X == bo.X {
							if kk, isK2 := core.ConstInt(cb.Y); isK2 {
								switch {
								case cb.Op == token.GEQ && kk >= k, cb.Op == token.GTR && kk >= k-1, cb.Op == token.NEQ && kk == 0 && k == 1:
									return true, true
								case cb.Op == token.LSS && kk >= k, cb.Op == token.LEQ && kk >= k-1, cb.Op == token.EQL && kk == 0 && k == 1:
									return false, true
								}
							}
						}
						return false, false
					})
					if guarded && c.noInterveningStore(s.fn, x, x.Index) {
						return true, fmt.Sprintf("index is len-%d of the indexed value and is tested not to be negative", k)
					}
				}
			}
		}
		if ok, why, listed := d.precondition(s); listed {
			return ok, why
		}
		return false, "index is not dominated by a comparison with len() of the indexed value"
	}
	if ok, why, listed := d.precondition(s); listed {
		return ok, why
	}
	return false, "no recognised guard"
}

// ---------------------------------------------------------------------------
// listed preconditions and arithmetic facts (each with co-guards that are checked on every run)
// ---------------------------------------------------------------------------

// shardFacts gathers the structural facts about the sharded-directory reader that the co-guards need.
type shardFacts struct {
	ok           bool
	why          string
	isValueLink  *ssa.Function // predicate(link, pad) (bool, error) with len(name) < pad -> error
	padFn        *ssa.Function // pad width function of shard data (maxPadLength)
	loaders      []*ssa.Function
	shardStruct  *types.Named
	fanoutEqual  bool
	fanoutDetail string
}

// findLinkPredicate: function (link, pad int) (bool, error) containing `len(S) < pad` -> non-nil error.
func (d *discharger) findLinkPredicate() (*ssa.Function, string) {
	c := d.c
	for _, fn := range c.G.Funcs() {
		rel, ok := c.P.PkgOf(fn)
		if !ok || rel != "hamt" || fn.Synthetic != "" {
			continue
		}
		sig := fn.Signature
		if sig.Params().Len() != 2 || sig.Results().Len() != 2 || !isBasic(sig.Results().At(0).Type(), types.Bool) || !core.IsErrorType(sig.Results().At(1).Type()) || !isBasic(sig.Params().At(1).Type(), types.Int) {
			continue
		}
		pad := fn.Params[1]
		// find `len(S) < pad` whose true edge returns a non-nil error, and S derives from param 0's Name
		for _, b := range fn.Blocks {
			iff := core.BlockIf(b)
			if iff == nil {
				continue
			}
			bo, ok := iff.Cond.(*ssa.BinOp)
			if !ok || bo.Op != token.LSS || bo.Y != ssa.Value(pad) {
				continue
			}
			sv, ok := lenOf(bo.X)
			if !ok || !strings.Contains(c.accessPath(sv, 0), "Name") {
				continue
			}
			t := b.Succs[0]
			if ret, ok := t.Instrs[len(t.Instrs)-1].(*ssa.Return); ok && !core.IsNilConst(ret.Results[1]) {
				// (true, nil) returns must be dominated by the false edge
				good := true
				for _, r2 := range core.Returns(fn) {
					if k, ok := r2.Results[0].(*ssa.Const); ok && k.Value != nil && k.Value.String() == "true" && core.IsNilConst(r2.Results[1]) {
						if !core.EdgeDominates(b, b.Succs[1], r2.Block()) {
							good = false
						}
					}
				}
				if good {
					return fn, ""
				}
			}
		}
	}
	return nil, "no link predicate with a `len(name) < pad => error` test found in package hamt"
}

// guardedByPredicate: block b is dominated by pred(link, pad) having returned (true, nil) for these very values.
func (d *discharger) guardedByPredicate(fn *ssa.Function, b *ssa.BasicBlock, pred *ssa.Function, link, pad ssa.Value) bool {
	c := d.c
	for _, ci := range core.CallsIn(fn) {
		call, ok := ci.(*ssa.Call)
		if !ok || call.Call.StaticCallee() != pred {
			continue
		}
		if !c.sameValue(unbox(call.Call.Args[0]), unbox(link)) || !c.sameValue(call.Call.Args[1], pad) {
			continue
		}
		bv, ev := extractOf(call, 0), extractOf(call, 1)
		if bv == nil || ev == nil {
			continue
		}
		okTrue := core.GuardedBy(b, func(cond ssa.Value) (bool, bool) {
			if cond == bv {
				return true, true
			}
			return false, false
		})
		okNil := core.GuardedBy(b, func(cond ssa.Value) (bool, bool) {
			x, trueMeansNil, ok := core.NilCmp(cond)
			if !ok || x != ev {
				return false, false
			}
			return trueMeansNil, true
		})
		if okTrue && okNil {
			return true
		}
	}
	return false
}

func (d *discharger) precondition(s panicSite) (ok bool, why string, listed bool) {
	c := d.c
	rel, _ := c.P.PkgOf(s.fn)
	if rel != "hamt" {
		return false, "", false
	}
	switch x := s.ins.(type) {
	case *ssa.Slice:
		if x.High != nil || x.Low == nil {
			return false, "", false
		}
		// Case A: name[pad:] inside a function (link, _, pad): every internal caller is guarded by the link predicate on the same values.
		if p, isParam := x.Low.(*ssa.Parameter); isParam && strings.Contains(c.accessPath(x.X, 0), "Name") {
			pred, why := d.findLinkPredicate()
			if pred == nil {
				return false, why, true
			}
			padIdx := -1
			for i, q := range s.fn.Params {
				if q == p {
					padIdx = i
				}
			}
			ins := c.G.In[s.fn]
			n := 0
			for _, e := range ins {
				call, isCall := e.Site.(ssa.CallInstruction)
				if !isCall || call.Common().StaticCallee() != s.fn {
					return false, "called indirectly at " + c.P.Pos(e.Site.Pos()), true
				}
				n++
				args := call.Common().Args
				if !d.guardedByPredicate(e.Caller, e.Site.Block(), pred, args[0], args[padIdx]) {
					return false, fmt.Sprintf("call-site precondition fails: call at %s in %s is not dominated by %s(link, pad) == (true, nil) on the same values", c.P.Pos(e.Site.Pos()), core.FuncName(e.Caller), pred.Name()), true
				}
			}
			if n == 0 {
				return true, "no internal caller; exported helper whose contract is the " + pred.Name() + " precondition", true
			}
			return true, fmt.Sprintf("call-site precondition: all %d internal call(s) are dominated by %s(link, pad) == (true, nil), which implies len(name) > pad", n, pred.Name()), true
		}
		// Case B: name[t.pad:] with pad a field of a transformer struct: pad agreement chain
		if u, ok := x.Low.(*ssa.UnOp); ok && u.Op == token.MUL {
			if _, fv, ok := core.FieldAddrOf(u.X); ok && isBasic(fv.Type(), types.Int) {
				okc, whyc := d.padChain(s.fn, fv)
				return okc, whyc, true
			}
		}
		// Case B': name[pad:] inside a closure that a factory function returns, with pad the factory's parameter
		if fac, pi := closureFactoryParam(s.fn, x.Low); fac != nil {
			d.trFactory, d.trFactoryIdx = fac, pi
			okc, whyc := d.padChain(s.fn, nil)
			d.trFactory = nil
			return okc, whyc, true
		}
	case *ssa.IndexAddr:
		// Case C: hashBits.next indexing
		if okc, whyc, l := d.hashBitsFact(s, x); l {
			return okc, whyc, true
		}
	}
	return false, "", false
}

// padChain checks the co-guards that make name[t.pad:] safe for names yielded by the sharded list iterator.
func (d *discharger) padChain(site *ssa.Function, padField *types.Var) (bool, string) {
	c := d.c
	pred, why := d.findLinkPredicate()
	if pred == nil {
		return false, why
	}
	var steps []string
	// identify the list-iterator struct: struct in hamt with an int field and a field of pointer-to-struct type that has a loader method
	var itrT *types.Named
	var itrPad, itrNode *types.Var
	hp := c.P.Repo[core.Module+"/hamt"]
	if hp == nil {
		return false, "package hamt not loaded"
	}
	sc := hp.Types.Scope()
	for _, name := range sc.Names() {
		tn, ok := sc.Lookup(name).(*types.TypeName)
		if !ok {
			continue
		}
		n, ok := tn.Type().(*types.Named)
		if !ok {
			continue
		}
		st, ok := n.Underlying().(*types.Struct)
		if !ok || !hasNextDone(types.NewPointer(n)) {
			continue
		}
		var pf, nf *types.Var
		for i := 0; i < st.NumFields(); i++ {
			f := st.Field(i)
			if isBasic(f.Type(), types.Int) {
				pf = f
			}
			if pt, ok := f.Type().Underlying().(*types.Pointer); ok {
				if nn, ok := types.Unalias(pt.Elem()).(*types.Named); ok && nn != n {
					if _, ok := nn.Underlying().(*types.Struct); ok {
						nf = f
					}
				}
			}
		}
		if pf != nil && nf != nil {
			itrT, itrPad, itrNode = n, pf, nf
		}
	}
	if itrT == nil {
		return false, "sharded list iterator type not found"
	}
	// P1: every allocation of the iterator stores pad = padFn(X.data) with X the value stored to its node field;
	//     every allocation of the transformer stores the same SSA value as the iterator allocated in the same function.
	var padFn *ssa.Function
	nItrAlloc, nTrAlloc := 0, 0
	trStruct := padField
	for _, fn := range c.G.Funcs() {
		if rel, ok := c.P.PkgOf(fn); !ok || rel != "hamt" {
			continue
		}
		var itrPadVals []ssa.Value
		var trPadVals []ssa.Value
		for _, b := range fn.Blocks {
			for _, ins := range b.Instrs {
				st, ok := ins.(*ssa.Store)
				if !ok {
					continue
				}
				base, fv, ok := core.FieldAddrOf(st.Addr)
				if !ok {
					continue
				}
				if _, isAlloc := base.(*ssa.Alloc); !isAlloc {
					if fv == itrPad || (trStruct != nil && fv == trStruct) {
						return false, fmt.Sprintf("pad field %s is written outside a constructor literal at %s", fv.Name(), c.P.Pos(st.Pos()))
					}
					continue
				}
				if fv == itrPad {
					nItrAlloc++
					itrPadVals = append(itrPadVals, st.Val)
					// pad = padFn(Y.data), node = Y
					call, ok := st.Val.(*ssa.Call)
					if !ok || call.Call.StaticCallee() == nil || len(call.Call.Args) != 1 {
						return false, fmt.Sprintf("iterator pad at %s is not computed by the pad function of a shard's data", c.P.Pos(st.Pos()))
					}
					if padFn == nil {
						padFn = call.Call.StaticCallee()
					} else if padFn != call.Call.StaticCallee() {
						return false, "iterator pads are computed by different functions"
					}
					// the node stored in the same alloc
					var nodeVal ssa.Value
					for _, ref := range *base.(*ssa.Alloc).Referrers() {
						if fa, ok := ref.(*ssa.FieldAddr); ok {
							if _, f2, _ := core.FieldAddrOf(fa); f2 == itrNode {
								for _, r2 := range *fa.Referrers() {
									if s2, ok := r2.(*ssa.Store); ok {
										nodeVal = s2.Val
									}
								}
							}
						}
					}
					if nodeVal == nil {
						return false, fmt.Sprintf("iterator allocated at %s without its shard", c.P.Pos(st.Pos()))
					}
					want := c.accessPath(nodeVal, 0) + ".data"
					if got := c.accessPath(call.Call.Args[0], 0); got != want {
						return false, fmt.Sprintf("iterator at %s validates links with the pad of %s but iterates %s", c.P.Pos(st.Pos()), shortPath(got), shortPath(want))
					}
				}
				if trStruct != nil && fv == trStruct {
					nTrAlloc++
					trPadVals = append(trPadVals, st.Val)
				}
			}
		}
		// transformer made by a factory function: the pad is the argument of each call of the factory
		if d.trFactory != nil {
			for _, ci := range core.CallsIn(fn) {
				if call, ok := ci.(*ssa.Call); ok && call.Call.StaticCallee() == d.trFactory && d.trFactoryIdx < len(call.Call.Args) {
					nTrAlloc++
					trPadVals = append(trPadVals, call.Call.Args[d.trFactoryIdx])
				}
			}
		}
		for _, tv := range trPadVals {
			match := false
			for _, iv := range itrPadVals {
				if iv == tv {
					match = true
				}
			}
			// the pad read back from the iterator that is handed on together with the transformer
			if u, ok := tv.(*ssa.UnOp); ok && u.Op == token.MUL {
				if _, f2, ok := core.FieldAddrOf(u.X); ok && f2 == itrPad {
					match = true
				}
			}
			// the same pure expression: padFn(receiver.data)
			if call, ok := tv.(*ssa.Call); ok && len(fn.Params) > 0 && call.Call.StaticCallee() != nil && len(call.Call.Args) == 1 {
				if (padFn == nil || call.Call.StaticCallee() == padFn) && c.accessPath(call.Call.Args[0], 0) == "param:"+fn.Params[0].Name()+".data" {
					if padFn == nil {
						padFn = call.Call.StaticCallee()
					}
					match = true
				}
			}
			if !match {
				return false, fmt.Sprintf("in %s the name transformer's pad is not the SSA value the list iterator validates links with", core.FuncName(fn))
			}
		}
	}
	if nItrAlloc == 0 || nTrAlloc == 0 {
		return false, "no allocation of the iterator / transformer found"
	}
	steps = append(steps, fmt.Sprintf("P1 %d iterator and %d transformer allocation(s) use pad=%s(shard.data) of the shard they iterate", nItrAlloc, nTrAlloc, padFn.Name()))
	// P2: loaders (functions of hamt containing a fetch site) return a child only after comparing its fanout with the receiver's
	nload := 0
	for _, fn := range core.SortedFuncs(c.outermostLoaders(map[string]bool{"hamt": true})) {
		nload++
		ok, why := d.loaderChecksFanout(fn)
		if !ok {
			return false, "P2 " + why
		}
	}
	if nload == 0 {
		return false, "no shard loader found"
	}
	steps = append(steps, fmt.Sprintf("P2 %d loader(s) return a child only when child fanout == own fanout (so pads agree at every depth)", nload))
	// P3: the iterator's next yields a link only after pred(link, itr.pad) == (true, nil) or from the child cursor
	nnext := 0
	for _, fn := range c.G.Funcs() {
		if core.RecvNamed(fn) != itrT || fn.Synthetic != "" || len(fn.Params) == 0 {
			continue
		}
		sig := fn.Signature
		if sig.Results().Len() < 2 {
			continue
		}
		for _, ret := range core.Returns(fn) {
			// the link result: first result of pointer/interface type that is not the error
			for i, rv := range ret.Results {
				if i == core.ErrResultIndex(sig) || !nilable(rv.Type()) || core.IsNilConst(rv) {
					continue
				}
				nnext++
				if ex, ok := rv.(*ssa.Extract); ok {
					if call, ok := ex.Tuple.(*ssa.Call); ok {
						if f := call.Call.StaticCallee(); f != nil && core.RecvNamed(f) == itrT {
							continue // from the child cursor / sibling method, which obeys the same rule
						}
					}
				}
				padLoad := func() ssa.Value {
					for _, b := range fn.Blocks {
						for _, ins := range b.Instrs {
							if u, ok := ins.(*ssa.UnOp); ok && u.Op == token.MUL {
								if _, f2, ok := core.FieldAddrOf(u.X); ok && f2 == itrPad {
									return u
								}
							}
						}
					}
					return nil
				}()
				if padLoad == nil || !d.guardedByPredicate(fn, ret.Block(), pred, rv, padLoad) {
					return false, fmt.Sprintf("P3 %s yields a link at %s that was not validated by %s with the iterator's pad", core.FuncName(fn), c.P.Pos(ret.Pos()), pred.Name())
				}
			}
		}
	}
	if nnext == 0 {
		return false, "P3 no yielding return found in the list iterator"
	}
	steps = append(steps, fmt.Sprintf("P3 every link yielded by the list iterator passed %s(link, pad) == (true, nil) or comes from a child cursor", pred.Name()))
	steps = append(steps, "P4 "+pred.Name()+" rejects len(name) < pad")
	_ = site
	return true, "call-site precondition chain holds: " + strings.Join(steps, "; ")
}

// loaderChecksFanout: every nil-error return of a freshly loaded child is dominated by an equality test between the
// child's Fanout and the receiver's Fanout; values put in the cache are stored only after that test.
func (d *discharger) loaderChecksFanout(fn *ssa.Function) (bool, string) {
	// returns are only constrained at the level where the child leaves the loader set; cache writes at every level
	loaders := d.c.G.Loaders(map[string]bool{"hamt": true})
	outer := false
	for _, e := range d.c.G.In[fn] {
		if !loaders[e.Caller] {
			outer = true
		}
	}
	return d.loaderChecksFanout2(fn, outer)
}

func (d *discharger) loaderChecksFanout2(fn *ssa.Function, checkReturns bool) (bool, string) {
	c := d.c
	errIdx := core.ErrResultIndex(fn.Signature)
	if errIdx < 0 {
		return false, core.FuncName(fn) + " has no error result"
	}
	isFanoutCmp := func(cond ssa.Value) (bool, bool) {
		bo, ok := cond.(*ssa.BinOp)
		if !ok || (bo.Op != token.EQL && bo.Op != token.NEQ) {
			return false, false
		}
		px, py := c.accessPath(core.Unconv(bo.X), 0), c.accessPath(core.Unconv(bo.Y), 0)
		if strings.Contains(px, "Fanout") && strings.Contains(py, "Fanout") && px != py {
			return bo.Op == token.EQL, true
		}
		// the comparison made by a validator helper: `if err := recv.check(child); err != nil { return … }` where every
		// return of the helper that may carry a nil error is itself dominated by the fanout equality
		if x, trueMeansNil, ok := core.NilCmp(cond); ok {
			var call *ssa.Call
			switch v := x.(type) {
			case *ssa.Call:
				call = v
			case *ssa.Extract:
				call, _ = v.Tuple.(*ssa.Call)
			}
			if call != nil {
				if h := call.Call.StaticCallee(); h != nil && h != fn && c.isFanoutValidator(h) {
					return trueMeansNil, true
				}
			}
		}
		return false, false
	}
	nret := 0
	for _, ret := range core.Returns(fn) {
		if !checkReturns {
			nret++
			break
		}
		if !core.IsNilConst(ret.Results[errIdx]) {
			continue
		}
		v := ret.Results[0]
		// cached value: a map lookup result, directly or through a repository getter whose every return is one
		if isMapLookupResult(v) || c.fromCacheGetter(v) {
			continue
		}
		nret++
		if !core.GuardedBy(ret.Block(), isFanoutCmp) {
			return false, fmt.Sprintf("%s returns a loaded child at %s without comparing its fanout with the parent's", core.FuncName(fn), c.P.Pos(ret.Pos()))
		}
	}
	for _, b := range fn.Blocks {
		for _, ins := range b.Instrs {
			if mu, ok := ins.(*ssa.MapUpdate); ok {
				if !core.GuardedBy(mu.Block(), isFanoutCmp) {
					return false, fmt.Sprintf("%s caches a child at %s before comparing fanouts", core.FuncName(fn), c.P.Pos(mu.Pos()))
				}
			}
			// a repository setter that stores its argument into a map
			if call, ok := ins.(*ssa.Call); ok {
				if f := call.Call.StaticCallee(); f != nil && c.isCacheSetter(f) {
					if !core.GuardedBy(call.Block(), isFanoutCmp) {
						return false, fmt.Sprintf("%s caches a child through %s at %s before comparing fanouts", core.FuncName(fn), f.Name(), c.P.Pos(call.Pos()))
					}
				}
			}
		}
	}
	if nret == 0 {
		return false, core.FuncName(fn) + " has no successful return of a loaded child"
	}
	return true, ""
}

func isMapLookupResult(v ssa.Value) bool {
	switch x := v.(type) {
	case *ssa.Extract:
		_, ok := x.Tuple.(*ssa.Lookup)
		return ok
	case *ssa.Lookup:
		return true
	case *ssa.Phi:
		for _, e := range x.Edges {
			if !isMapLookupResult(e) {
				return false
			}
		}
		return true
	}
	return false
}

// hashBitsFact: b[consumed/8] inside the bit reader is in range because its only entry point checks
// consumed+i <= len(b)*8 first (arithmetic fact, co-guards: the check exists and dominates; no other caller).
func (d *discharger) hashBitsFact(s panicSite, x *ssa.IndexAddr) (bool, string, bool) {
	c := d.c
	fn := s.fn
	if fn.Signature.Recv() == nil || len(fn.Params) < 2 {
		return false, "", false
	}
	// index = consumed / 8 with consumed a receiver field; indexed value = receiver field of type []byte
	bo, ok := x.Index.(*ssa.BinOp)
	if !ok || bo.Op != token.QUO {
		return false, "", false
	}
	if k, ok := core.ConstInt(bo.Y); !ok || k != 8 {
		return false, "", false
	}
	recv := fn.Params[0]
	if core.RootOfAddr(mulAddr(bo.X)) != ssa.Value(recv) || core.RootOfAddr(mulAddr(x.X)) != ssa.Value(recv) {
		return false, "", false
	}
	// callers: only itself and guarded entry points
	nentry := 0
	for _, e := range c.G.In[fn] {
		if e.Caller == fn {
			continue
		}
		call, ok := e.Site.(*ssa.Call)
		if !ok || call.Call.StaticCallee() != fn {
			return false, "bit reader called indirectly", true
		}
		nentry++
		// guard: (consumed + i) > len(b)*8  false edge dominates the call
		g := core.GuardedBy(call.Block(), func(cond ssa.Value) (bool, bool) {
			cb, ok := cond.(*ssa.BinOp)
			if !ok || (cb.Op != token.GTR && cb.Op != token.LEQ) {
				return false, false
			}
			mul, ok := cb.Y.(*ssa.BinOp)
			if !ok || mul.Op != token.MUL {
				return false, false
			}
			if _, isLen := lenOf(mul.X); !isLen {
				return false, false
			}
			if k, ok := core.ConstInt(mul.Y); !ok || k != 8 {
				return false, false
			}
			add, ok := cb.X.(*ssa.BinOp)
			if !ok || add.Op != token.ADD {
				return false, false
			}
			return cb.Op == token.LEQ, true
		})
		if !g {
			return false, fmt.Sprintf("entry point %s calls the bit reader at %s without the consumed+i <= len*8 check", core.FuncName(e.Caller), c.P.Pos(call.Pos())), true
		}
	}
	if nentry == 0 {
		return false, "bit reader has no guarded entry point", true
	}
	return true, fmt.Sprintf("arithmetic fact: consumed/8 < len(b) because the only %d entry point(s) check consumed+i <= len(b)*8 before calling, and the recursion consumes exactly i bits", nentry), true
}

func mulAddr(v ssa.Value) ssa.Value {
	if u, ok := core.Unconv(v).(*ssa.UnOp); ok && u.Op == token.MUL {
		return u.X
	}
	return v
}

// ---------------------------------------------------------------------------
// R13.4 bitfield calls
// ---------------------------------------------------------------------------

func (d *discharger) dischargeBitfield(s panicSite) (bool, string) {
	c := d.c
	call := s.ins.(*ssa.Call)
	f := call.Call.StaticCallee()
	recv := call.Call.Args[0]
	switch f.Name() {
	case "Lookup":
		idx := core.Unconv(call.Call.Args[1])
		upper := core.GuardedBy(call.Block(), func(cond ssa.Value) (bool, bool) {
			bo, isBin := cond.(*ssa.BinOp)
			if !isBin || core.Unconv(bo.X) != idx {
				return false, false
			}
			lc, ok := core.Unconv(bo.Y).(*ssa.Call)
			if !ok {
				return false, false
			}
			name, lrecv := methodCall(lc)
			if name != "Length" || !c.sameValue(lrecv, recv) {
				return false, false
			}
			switch bo.Op {
			case token.GEQ:
				return false, true
			case token.LSS:
				return true, true
			}
			return false, false
		})
		lower := isConstNonNeg(idx) || isCounterFromNonNeg(idx) || core.GuardedBy(call.Block(), func(cond ssa.Value) (bool, bool) {
			v, onT, onF, ok := core.SignTest(cond)
			if !ok || core.Unconv(v) != idx {
				return false, false
			}
			if onT == "nonneg" {
				return true, true
			}
			if onF == "nonneg" {
				return false, true
			}
			return false, false
		})
		if upper && lower {
			return true, "index is range-checked against Length() of the same list before the lookup"
		}
		// the index is the result of a search helper over the same list: it returns a negative constant or a position it
		// compared with Length() of its list parameter; the caller tests it for non-negativity
		if hc, ok := idx.(*ssa.Call); ok && lower {
			if h := hc.Call.StaticCallee(); h != nil && len(h.Blocks) > 0 {
				if _, isRepo := c.P.PkgOf(h); isRepo {
					for li, a := range hc.Call.Args {
						if li < len(h.Params) && c.sameValue(a, recv) && c.indexHelperInRange(h, li) {
							return true, "index comes from " + h.Name() + ", which returns a negative constant or a position below Length() of the same list, and is tested to be non-negative"
						}
					}
				}
			}
		}
		return false, "index is not range-checked against Length() of the list (a nil element would be dereferenced)"
	case "SetBytes":
		arg := call.Call.Args[1]
		// dominated by len(arg) <= len(recv) (any spelling)
		ok := core.GuardedBy(call.Block(), func(cond ssa.Value) (bool, bool) {
			bo, isBin := cond.(*ssa.BinOp)
			if !isBin {
				return false, false
			}
			lx, okx := lenOf(bo.X)
			ly, oky := lenOf(bo.Y)
			if !okx || !oky {
				return false, false
			}
			var op token.Token
			switch {
			case c.sameValue(lx, arg) && c.sameValue(ly, recv):
				op = bo.Op
			case c.sameValue(ly, arg) && c.sameValue(lx, recv):
				switch bo.Op { // len(recv) op len(arg) => len(arg) op' len(recv)
				case token.LSS:
					op = token.GTR
				case token.GTR:
					op = token.LSS
				case token.LEQ:
					op = token.GEQ
				case token.GEQ:
					op = token.LEQ
				default:
					op = bo.Op
				}
			default:
				return false, false
			}
			switch op {
			case token.GTR:
				return false, true
			case token.LEQ, token.EQL:
				return true, true
			}
			return false, false
		})
		if ok {
			return true, "argument length is checked against the bitfield's length before the call"
		}
		return false, "bitfield.SetBytes panics when the data is longer than the bitfield; no dominating length check"
	case "Bit", "OnesBefore", "OnesAfter":
		idx := call.Call.Args[1]
		return d.bitIndexInRange(s.fn, call, recv, idx, 0)
	}
	return false, "no rule for bitfield." + f.Name()
}

// bitIndexInRange: idx is a hashBits.Next(log2(fanout(X.data))) result (or a parameter that always receives one),
// and the bitfield is X.bitfield with X constructed as bitfield = bitField(data) for the same data.
func (d *discharger) bitIndexInRange(fn *ssa.Function, at ssa.Instruction, bf, idx ssa.Value, depth int) (bool, string) {
	c := d.c
	if depth > 3 {
		return false, "index provenance too deep"
	}
	if p, ok := idx.(*ssa.Parameter); ok {
		if fn.Object() != nil && fn.Object().Exported() {
			return false, "index is a parameter of an exported function"
		}
		pi := -1
		for i, q := range fn.Params {
			if q == p {
				pi = i
			}
		}
		ins := c.G.In[fn]
		if len(ins) == 0 {
			return false, "no call sites"
		}
		// receiver of this method must be the same object as at the call sites
		for _, e := range ins {
			call, ok := e.Site.(*ssa.Call)
			if !ok || call.Call.StaticCallee() != fn {
				return false, "called indirectly"
			}
			if c.accessPath(bf, 0) != "param:"+fn.Params[0].Name()+".bitfield" && !strings.HasSuffix(c.accessPath(bf, 0), ".bitfield") {
				return false, "bitfield is not the receiver's own"
			}
			// translate: bitfield of callee's receiver == args[0].bitfield in the caller
			ok2, why := d.bitIndexFromNext(e.Caller, call, call.Call.Args[0], call.Call.Args[pi])
			if !ok2 {
				return false, fmt.Sprintf("call at %s: %s", c.P.Pos(call.Pos()), why)
			}
		}
		return true, fmt.Sprintf("index < fanout: all %d call site(s) pass hashBits.Next(log2(fanout)) of the shard that owns the bitfield; constructor builds the bitfield from the same data", len(ins))
	}
	return false, "index is not a parameter fed from hashBits.Next"
}

func (d *discharger) bitIndexFromNext(fn *ssa.Function, at *ssa.Call, shard, idx ssa.Value) (bool, string) {
	return d.bitIndexFromNextD(fn, at, shard, idx, 0)
}

func (d *discharger) bitIndexFromNextD(fn *ssa.Function, at *ssa.Call, shard, idx ssa.Value, depth int) (bool, string) {
	c := d.c
	// the index and the shard are handed through an unexported helper unchanged: decide at its call sites
	if p, isParam := idx.(*ssa.Parameter); isParam && p.Parent() == fn && depth < 3 && len(fn.Params) > 0 && shard == ssa.Value(fn.Params[0]) && (fn.Object() == nil || !fn.Object().Exported()) {
		pi := -1
		for i, q := range fn.Params {
			if q == p {
				pi = i
			}
		}
		n := 0
		for _, e := range c.G.In[fn] {
			cs, ok := e.Site.(*ssa.Call)
			if e.Caller.Synthetic != "" && len(c.G.In[e.Caller]) == 0 {
				continue
			}
			if !ok || cs.Call.StaticCallee() != fn || pi < 0 || pi >= len(cs.Call.Args) {
				return false, "called indirectly"
			}
			n++
			if ok2, why := d.bitIndexFromNextD(e.Caller, cs, cs.Call.Args[0], cs.Call.Args[pi], depth+1); !ok2 {
				return false, why
			}
		}
		if n > 0 {
			return true, ""
		}
		return false, "no call sites"
	}
	ex, ok := idx.(*ssa.Extract)
	if !ok {
		return false, "index is not the result of the bit reader"
	}
	call, ok := ex.Tuple.(*ssa.Call)
	if !ok || call.Call.StaticCallee() == nil || call.Call.StaticCallee().Name() != "Next" || len(call.Call.Args) != 2 {
		return false, "index is not the result of hashBits.Next"
	}
	// error of Next checked
	ev := extractOf(call, 1)
	if ev == nil || !core.GuardedBy(at.Block(), func(cond ssa.Value) (bool, bool) {
		x, trueMeansNil, ok := core.NilCmp(cond)
		if !ok || x != ev {
			return false, false
		}
		return trueMeansNil, true
	}) {
		return false, "hashBits.Next's error is not checked before the index is used"
	}
	// width argument = log2Size(shard.data)
	w, ok := call.Call.Args[1].(*ssa.Call)
	if !ok || w.Call.StaticCallee() == nil || len(w.Call.Args) != 1 {
		return false, "bit width is not log2 of the shard's fanout"
	}
	wf := w.Call.StaticCallee()
	if !d.isLog2OfFanout(wf) {
		return false, wf.Name() + " is not trailing-zeros of the Fanout field"
	}
	if c.accessPath(w.Call.Args[0], 0) != c.accessPath(shard, 0)+".data" {
		return false, "bit width is computed from a different shard's data"
	}
	// the fanout the width is taken from is a positive power of two: the validator hands it to a check that rejects
	// v <= 0 (fanout 0 would give a 64-bit width and an empty bitfield)
	if ok, why := d.fanoutCheckedPositive(); !ok {
		return false, why
	}
	// constructor pairing: every allocation of the shard struct stores data=D and bitfield=bitField(D)
	if ok, why := d.ctorPairsBitfield(); !ok {
		return false, why
	}
	return true, ""
}

func (d *discharger) isLog2OfFanout(fn *ssa.Function) bool {
	for _, ci := range core.CallsIn(fn) {
		if core.IsCallTo(ci, "math/bits", "TrailingZeros") {
			if strings.Contains(d.c.accessPath(core.Unconv(ci.Common().Args[0]), 0), "Fanout") {
				return true
			}
		}
	}
	return false
}

// ctorPairsBitfield: each composite literal of a struct with fields `data` and `bitfield` stores bitfield = B(data)
// where B builds NewBitfield(fanout(data)); NewBitfield is capped.
func (d *discharger) ctorPairsBitfield() (bool, string) {
	c := d.c
	n := 0
	for _, fn := range c.G.Funcs() {
		if rel, ok := c.P.PkgOf(fn); !ok || rel != "hamt" {
			continue
		}
		for _, b := range fn.Blocks {
			for _, ins := range b.Instrs {
				al, ok := ins.(*ssa.Alloc)
				if !ok {
					continue
				}
				var dataV, bfV ssa.Value
				for _, ref := range *al.Referrers() {
					fa, ok := ref.(*ssa.FieldAddr)
					if !ok {
						continue
					}
					_, fv, _ := core.FieldAddrOf(fa)
					for _, r2 := range *fa.Referrers() {
						if st, ok := r2.(*ssa.Store); ok && st.Addr == ssa.Value(fa) {
							if fv.Name() == "data" {
								dataV = st.Val
							}
							if strings.HasSuffix(types.TypeString(fv.Type(), nil), "bitfield.Bitfield") {
								bfV = st.Val
							}
						}
					}
				}
				if bfV == nil {
					continue
				}
				n++
				ex, ok := bfV.(*ssa.Extract)
				if !ok {
					return false, "bitfield is not the result of the bitfield constructor at " + c.P.Pos(al.Pos())
				}
				bc, ok := ex.Tuple.(*ssa.Call)
				if !ok || bc.Call.StaticCallee() == nil || len(bc.Call.Args) != 1 || bc.Call.Args[0] != dataV {
					return false, "bitfield is built from different data than the shard stores at " + c.P.Pos(al.Pos())
				}
				// the builder calls NewBitfield(fanout of its param)
				bfn := bc.Call.StaticCallee()
				okNB := false
				for _, ci := range core.CallsIn(bfn) {
					if core.IsCallTo(ci, bitfieldPath, "NewBitfield") {
						if strings.Contains(c.accessPath(core.Unconv(ci.Common().Args[0]), 0), "Fanout") {
							okNB = true
						}
					}
				}
				if !okNB {
					return false, bfn.Name() + " does not size the bitfield by the Fanout field"
				}
			}
		}
	}
	if n == 0 {
		return false, "no shard allocation with a bitfield found"
	}
	return true, ""
}

// ---------------------------------------------------------------------------
// R13.6 bounded work
// ---------------------------------------------------------------------------

func (c *Ctx) checkBoundedWork() {
	r := c.R
	nloops := 0
	for _, fn := range c.G.Funcs() {
		if !c.inC13Scope(fn) {
			continue
		}
		headers := map[*ssa.BasicBlock]bool{}
		for _, b := range fn.Blocks {
			for _, p := range b.Preds {
				if b.Dominates(p) {
					headers[b] = true
				}
			}
		}
		var hs []*ssa.BasicBlock
		for h := range headers {
			hs = append(hs, h)
		}
		sort.Slice(hs, func(i, j int) bool { return hs[i].Index < hs[j].Index })
		for k, h := range hs {
			nloops++
			key := fmt.Sprintf("%s/loop#%d", core.FuncName(fn), k+1)
			pos := c.P.Pos(firstPos(h))
			if !blockDriven(fn) {
				r.ExemptOb("R13.6", key, pos, "function takes no node, byte slice, decoded data or link system: its loop is driven by caller-supplied arguments (a path string), not by block content")
				continue
			}
			ok, how := c.classifyLoop(fn, h)
			r.Check(ok, "R13.6", key, pos, how, "loop is not a range, advancing-iterator, counter or input-consuming loop: "+how)
		}
	}
	r.Floor("R13.6/loops", nloops, 8)
	// allocation caps: bitfield.NewBitfield(n) dominated by n > C => error
	ncap := 0
	for _, fn := range c.G.Funcs() {
		if !c.inC13Scope(fn) {
			continue
		}
		for _, ci := range core.CallsIn(fn) {
			if !core.IsCallTo(ci, bitfieldPath, "NewBitfield") {
				continue
			}
			ncap++
			arg := ci.Common().Args[0]
			ok := core.GuardedBy(ci.Block(), func(cond ssa.Value) (bool, bool) {
				bo, isBin := cond.(*ssa.BinOp)
				if !isBin || bo.X != arg {
					return false, false
				}
				if _, isC := core.ConstInt(bo.Y); !isC {
					return false, false
				}
				switch bo.Op {
				case token.GTR, token.GEQ:
					return false, true
				case token.LEQ, token.LSS:
					return true, true
				}
				return false, false
			})
			r.Check(ok, "R13.6", core.FuncName(fn)+"/alloc-cap:NewBitfield", c.P.Pos(ci.Pos()), "bitfield size is capped by a constant before allocation", "bitfield of attacker-chosen size is allocated without a cap")
		}
	}
	r.Floor("R13.6/cap", ncap, 1)
	// recursion: every non-trivial SCC of the reader-side graph contains a loader or a direct caller of one, or is a listed arithmetic recursion
	fetch := c.G.Fetchers(core.ReaderPkgs)
	// a cycle is load-bounded when some member can reach a block load (directly or through helpers that are not part of
	// the cycle): each further level of the recursion is entered through a freshly loaded block
	callsFetch := c.G.ReachersOf(fetch)
	sccs := c.sccs(func(f *ssa.Function) bool { return c.inC13Scope(f) || (f.Synthetic != "" && isRPWrapper(c, f)) })
	nscc := 0
	for _, comp := range sccs {
		nscc++
		names := []string{}
		hasFetch := false
		for _, f := range comp {
			names = append(names, core.FuncName(f))
			if callsFetch[f] {
				hasFetch = true
			}
		}
		sort.Strings(names)
		key := "recursion:" + names[0]
		if hasFetch {
			r.OK("R13.6", key, c.P.Pos(comp[0].Pos()), fmt.Sprintf("cycle of %d function(s) contains a block load: one distinct loaded block per level", len(comp)))
			continue
		}
		if len(comp) == 1 {
			if ok, why := c.decreasingSelfRecursion(comp[0]); ok {
				r.OK("R13.6", key, c.P.Pos(comp[0].Pos()), why)
				continue
			}
		}
		r.Violate("R13.6", key, c.P.Pos(comp[0].Pos()), "recursion cycle {"+strings.Join(names, ", ")+"} neither loads a block per level nor provably decreases an argument")
	}
	r.Floor("R13.6/recursion", nscc, 3)
}

func isRPWrapper(c *Ctx, f *ssa.Function) bool {
	n := core.RecvNamed(f)
	if n == nil || n.Obj().Pkg() == nil {
		return false
	}
	return core.ReaderPkgs[core.Rel(n.Obj().Pkg().Path())] && c.P.IsRepoPkg(n.Obj().Pkg())
}

// decreasingSelfRecursion: f(…, i) calls itself only with i - k where k is proven >= 1 on that path (k = 8 - x%8).
func (c *Ctx) decreasingSelfRecursion(fn *ssa.Function) (bool, string) {
	n := 0
	for _, ci := range core.CallsIn(fn) {
		if ci.Common().StaticCallee() != fn {
			continue
		}
		n++
		dec := false
		for i, a := range ci.Common().Args {
			bo, ok := a.(*ssa.BinOp)
			if !ok || bo.Op != token.SUB || bo.X != ssa.Value(fn.Params[i]) {
				continue
			}
			// k = 8 - (x % 8)  => 1..8
			if kb, ok := core.Unconv(bo.Y).(*ssa.BinOp); ok && kb.Op == token.SUB {
				if c8, ok := core.ConstInt(kb.X); ok && c8 == 8 {
					if rem, ok := core.Unconv(kb.Y).(*ssa.BinOp); ok && rem.Op == token.REM {
						if m, ok := core.ConstInt(rem.Y); ok && m == 8 {
							dec = true
						}
					}
				}
			}
			if k, ok := core.ConstInt(bo.Y); ok && k >= 1 {
				dec = true
			}
		}
		if !dec {
			return false, ""
		}
		// and the recursive call is only made when i > k (so the argument stays positive): the call is on the fall-through after i == k and i < k returned
	}
	if n == 0 {
		return false, ""
	}
	return true, "self-recursion passes i-(8-consumed%8), a strictly smaller positive width (arithmetic fact: 1 <= 8-consumed%8 <= 8; calls with i <= leftb return without recursing)"
}

// sccs returns the non-trivial strongly connected components (or self loops) of G restricted to keep().
func (c *Ctx) sccs(keep func(*ssa.Function) bool) [][]*ssa.Function {
	idx := map[*ssa.Function]int{}
	low := map[*ssa.Function]int{}
	on := map[*ssa.Function]bool{}
	var stack []*ssa.Function
	var out [][]*ssa.Function
	n := 0
	var strong func(v *ssa.Function)
	strong = func(v *ssa.Function) {
		idx[v], low[v] = n, n
		n++
		stack = append(stack, v)
		on[v] = true
		for _, e := range c.G.Out[v] {
			w := e.Callee
			if !keep(w) {
				continue
			}
			if _, seen := idx[w]; !seen {
				strong(w)
				if low[w] < low[v] {
					low[v] = low[w]
				}
			} else if on[w] && idx[w] < low[v] {
				low[v] = idx[w]
			}
		}
		if low[v] == idx[v] {
			var comp []*ssa.Function
			for {
				w := stack[len(stack)-1]
				stack = stack[:len(stack)-1]
				on[w] = false
				comp = append(comp, w)
				if w == v {
					break
				}
			}
			self := false
			for _, e := range c.G.Out[v] {
				if e.Callee == v {
					self = true
				}
			}
			if len(comp) > 1 || self {
				sort.Slice(comp, func(i, j int) bool { return comp[i].String() < comp[j].String() })
				out = append(out, comp)
			}
		}
	}
	for _, f := range c.G.Funcs() {
		if !keep(f) {
			continue
		}
		if _, seen := idx[f]; !seen {
			strong(f)
		}
	}
	sort.Slice(out, func(i, j int) bool { return out[i][0].String() < out[j][0].String() })
	return out
}

// classifyLoop decides why the loop headed by h terminates in work bounded by the input.
func (c *Ctx) classifyLoop(fn *ssa.Function, h *ssa.BasicBlock) (bool, string) {
	// loop body = blocks that can reach h and are dominated by h
	body := map[*ssa.BasicBlock]bool{}
	for _, b := range fn.Blocks {
		if h.Dominates(b) && blockReaches(b, h) {
			body[b] = true
		}
	}
	// (1) range-index loop
	for _, ins := range h.Instrs {
		if phi, ok := ins.(*ssa.Phi); ok && phi.Comment == "rangeindex" {
			return true, "range loop over a slice/string: bounded by its length"
		}
	}
	for b := range body {
		for _, ins := range b.Instrs {
			if _, ok := ins.(*ssa.Next); ok {
				return true, "range loop over a map/string iterator: bounded by its size"
			}
		}
	}
	// (2) iterator loop: condition is !it.Done() (or it.Done()) and every cycle calls it.Next()
	if iff := core.BlockIf(h); iff != nil {
		cond := iff.Cond
		negated := false
		if u, ok := cond.(*ssa.UnOp); ok && u.Op == token.NOT {
			cond, negated = u.X, true
		}
		if call, ok := cond.(*ssa.Call); ok {
			name, recv := methodCall(call)
			if name == "Done" && recv != nil {
				// the body is entered while the iterator is NOT done: Next() on an exhausted typed-list iterator indexes past
				// the end (and the loop would never look at a link of a non-empty list)
				bodyIdx := 1 // `if Done() goto exit else body`
				if negated {
					bodyIdx = 0
				}
				if len(h.Succs) == 2 && !body[h.Succs[bodyIdx]] && body[h.Succs[1-bodyIdx]] {
					return false, "the loop runs while Done() holds (inverted test): Next() is called on an exhausted iterator and no element of a non-empty list is visited"
				}
				// every path h -> h passes a Next() on the same iterator
				if everyCyclePasses(h, body, func(ins ssa.Instruction) bool {
					cl, ok := ins.(*ssa.Call)
					if !ok {
						return false
					}
					n2, r2 := methodCall(cl)
					return n2 == "Next" && r2 == recv
				}) {
					return true, "iterator loop: Next() is called on the iterator whose Done() guards the loop on every iteration (a finite link list)"
				}
				return false, "iterator loop has a path back to the header that does not call Next()"
			}
		}
		// (3) decoder loop: header tests len(buf) and every cycle passes a protowire.Consume* call
		if bo, ok := iff.Cond.(*ssa.BinOp); ok {
			if _, isLen := lenOf(bo.X); isLen {
				if everyCyclePasses(h, body, func(ins ssa.Instruction) bool {
					cl, ok := ins.(*ssa.Call)
					return ok && strings.HasPrefix(pwName(cl), "Consume")
				}) {
					return true, "decoder loop: every iteration consumes at least one protowire element (R9.3 shows the buffer advances)"
				}
			}
			// (4) counter loop: i < N with i = phi(c, i+1)
			if bo.Op == token.LSS {
				if phi, ok := core.Unconv(bo.X).(*ssa.Phi); ok && phi.Block() == h {
					for _, e := range phi.Edges {
						if inc, ok := e.(*ssa.BinOp); ok && inc.Op == token.ADD && inc.X == ssa.Value(phi) {
							if k, ok := core.ConstInt(inc.Y); ok && k >= 1 {
								return true, "counter loop: i < N with i incremented on every iteration"
							}
						}
					}
				}
			}
		}
	}
	// (3') cursor decoder loop: the header tests r.done() (len(r.F)==0) and every cycle passes a consume forwarder on
	// the same cursor (each consumes at least one byte or reports an error that R9/R12-style propagation ends the loop with)
	if iffc := core.BlockIf(h); iffc != nil {
		cond := iffc.Cond
		if u, ok := cond.(*ssa.UnOp); ok && u.Op == token.NOT {
			cond = u.X
		}
		if dc, ok := cond.(*ssa.Call); ok {
			if fld, _, isDone := c.cursorDoneMethod(dc.Call.StaticCallee()); isDone && len(dc.Call.Args) == 1 {
				cur := dc.Call.Args[0]
				if everyCyclePasses(h, body, func(ins ssa.Instruction) bool {
					cl, ok := ins.(*ssa.Call)
					if !ok || len(cl.Call.Args) == 0 || cl.Call.Args[0] != cur {
						return false
					}
					fw := c.forwarderOfCall(cl)
					if fw == nil || fw.field != fld {
						return false
					}
					// a failed consume (no progress) must end the loop: its error is returned
					probs, noErr, complete := core.CheckErrPropagated(fn, cl)
					return complete && !noErr && len(probs) == 0
				}) {
					return true, "cursor decoder loop: every iteration passes a consume forwarder of the cursor whose exhaustion ends the loop"
				}
			}
		}
	}
	// (5) shrinking-width loop: a loop-carried integer i is reduced on every back edge by a step k with 1 <= k (a positive
	// constant, or 8 - x%8) and every cycle first passes `i < k` (or `i <= k`) whose true edge leaves the loop
	posStep := func(k ssa.Value) bool {
		if v, ok := core.ConstInt(k); ok {
			return v >= 1
		}
		if kb, ok := k.(*ssa.BinOp); ok && kb.Op == token.SUB {
			if c8, ok := core.ConstInt(kb.X); ok && c8 >= 1 {
				if rem, ok := kb.Y.(*ssa.BinOp); ok && rem.Op == token.REM {
					if m, ok := core.ConstInt(rem.Y); ok && m >= 1 && m <= c8 {
						return true
					}
				}
			}
		}
		return false
	}
	for _, ins := range h.Instrs {
		phi, ok := ins.(*ssa.Phi)
		if !ok {
			break
		}
		if !isIntegerType(phi.Type()) {
			continue
		}
		var step ssa.Value
		nback, allDec := 0, true
		for i, e := range phi.Edges {
			if !body[h.Preds[i]] {
				continue
			}
			nback++
			bo, ok := e.(*ssa.BinOp)
			if !ok || bo.Op != token.SUB || bo.X != ssa.Value(phi) || !posStep(bo.Y) || (step != nil && step != bo.Y) {
				allDec = false
				continue
			}
			step = bo.Y
		}
		if nback == 0 || !allDec || step == nil {
			continue
		}
		if everyCyclePasses(h, body, func(ins ssa.Instruction) bool {
			iff, ok := ins.(*ssa.If)
			if !ok {
				return false
			}
			bo, ok := iff.Cond.(*ssa.BinOp)
			if !ok || (bo.Op != token.LSS && bo.Op != token.LEQ) || bo.X != ssa.Value(phi) || bo.Y != step {
				return false
			}
			return !body[iff.Block().Succs[0]]
		}) {
			return true, "shrinking-width loop: the remaining width decreases by a step in 1..8 on every iteration and the loop is left once it is not larger than the step"
		}
	}
	return false, "unrecognised loop shape"
}

func methodCall(call *ssa.Call) (string, ssa.Value) {
	cc := call.Common()
	if cc.IsInvoke() {
		return cc.Method.Name(), cc.Value
	}
	if f := cc.StaticCallee(); f != nil && f.Signature.Recv() != nil && len(cc.Args) > 0 {
		return f.Name(), cc.Args[0]
	}
	return "", nil
}

func blockReaches(from, to *ssa.BasicBlock) bool {
	seen := map[*ssa.BasicBlock]bool{}
	stack := append([]*ssa.BasicBlock{}, from.Succs...)
	for len(stack) > 0 {
		x := stack[len(stack)-1]
		stack = stack[:len(stack)-1]
		if x == to {
			return true
		}
		if seen[x] {
			continue
		}
		seen[x] = true
		stack = append(stack, x.Succs...)
	}
	return false
}

// everyCyclePasses: every path from h back to h (through body blocks) executes an instruction accepted by pred.
func everyCyclePasses(h *ssa.BasicBlock, body map[*ssa.BasicBlock]bool, pred func(ssa.Instruction) bool) bool {
	has := func(b *ssa.BasicBlock) bool {
		for _, ins := range b.Instrs {
			if pred(ins) {
				return true
			}
		}
		return false
	}
	if has(h) {
		return true
	}
	// search for a path h -> … -> h avoiding blocks that satisfy pred
	seen := map[*ssa.BasicBlock]bool{}
	var stack []*ssa.BasicBlock
	for _, s := range h.Succs {
		if body[s] || s == h {
			stack = append(stack, s)
		}
	}
	for len(stack) > 0 {
		x := stack[len(stack)-1]
		stack = stack[:len(stack)-1]
		if x == h {
			return false
		}
		if seen[x] || !body[x] || has(x) {
			continue
		}
		seen[x] = true
		stack = append(stack, x.Succs...)
	}
	return true
}

// blockDriven: the function is a method, or has a parameter through which block content can arrive
// ([]byte, an interface or pointer/struct from go-ipld-prime, go-codec-dagpb or this repository).
func blockDriven(fn *ssa.Function) bool {
	if fn.Signature.Recv() != nil || fn.Parent() != nil {
		return true
	}
	for i := 0; i < fn.Signature.Params().Len(); i++ {
		t := fn.Signature.Params().At(i).Type()
		if sl, ok := t.Underlying().(*types.Slice); ok && isBasic(sl.Elem(), types.Byte) {
			return true
		}
		tt := types.Unalias(t)
		if pt, ok := tt.(*types.Pointer); ok {
			tt = types.Unalias(pt.Elem())
		}
		if n, ok := tt.(*types.Named); ok && n.Obj().Pkg() != nil {
			p := n.Obj().Pkg().Path()
			if strings.HasPrefix(p, "github.com/ipld/go-ipld-prime/datamodel") || strings.HasPrefix(p, "github.com/ipld/go-ipld-prime/linking") || strings.HasPrefix(p, "github.com/ipld/go-codec-dagpb") || strings.HasPrefix(p, core.Module) {
				return true
			}
		}
	}
	return false
}

// bceCrossCheck (thorough tier): every bounds check the Go compiler could not eliminate in a hand-written reader-side
// file must be explained by the inventory: a may-panic site on that line, a call on that line to a repository function
// that (transitively) contains such a site (inlined), or a call on that line into dependency code (trusted base, listed).
// The compiler report is produced by `go build -gcflags=…=-d=ssa/check_bce/debug=1` (static; nothing is executed).
func (c *Ctx) bceCrossCheck(reportPath string, sites []panicSite) {
	r := c.R
	data, err := os.ReadFile(reportPath)
	if err != nil {
		r.Break("cannot read the compiler's bounds-check report: %v", err)
		return
	}
	siteAt := map[string]bool{}
	hasSite := map[*ssa.Function]bool{}
	for _, s := range sites {
		if s.kind == "slice" || s.kind == "index" || s.kind == "depcall" {
			p := c.P.Fset.Position(s.ins.Pos())
			siteAt[fmt.Sprintf("%s:%d", c.P.FileOf(s.ins.Pos()), p.Line)] = true
			hasSite[s.fn] = true
		}
	}
	// transitive: repo functions that statically call a function with a site
	for changed := true; changed; {
		changed = false
		for _, fn := range c.G.Funcs() {
			if hasSite[fn] {
				continue
			}
			for _, e := range c.G.Out[fn] {
				if e.Kind == "static" && hasSite[e.Callee] {
					hasSite[fn] = true
					changed = true
				}
			}
		}
	}
	callsAt := map[string][]ssa.CallInstruction{}
	for _, fn := range c.G.Funcs() {
		if !c.inC13Scope(fn) {
			continue
		}
		for _, ci := range core.CallsIn(fn) {
			p := c.P.Fset.Position(ci.Pos())
			k := fmt.Sprintf("%s:%d", c.P.FileOf(ci.Pos()), p.Line)
			callsAt[k] = append(callsAt[k], ci)
		}
	}
	inScopeFile := map[string]bool{}
	for _, fn := range c.G.Funcs() {
		if c.inC13Scope(fn) {
			inScopeFile[c.P.FileOf(fn.Pos())] = true
		}
	}
	n, nsite, ninl, ndep := 0, 0, 0, 0
	depCallees := map[string]int{}
	seen := map[string]bool{}
	for _, line := range strings.Split(string(data), "\n") {
		line = strings.TrimPrefix(strings.TrimSpace(line), "./")
		if !strings.Contains(line, ": Found Is") {
			continue
		}
		parts := strings.SplitN(line, ":", 4)
		if len(parts) < 4 || !inScopeFile[parts[0]] {
			continue
		}
		k := parts[0] + ":" + parts[1]
		if seen[k] {
			continue
		}
		seen[k] = true
		n++
		switch {
		case siteAt[k]:
			nsite++
		default:
			explained := false
			for _, ci := range callsAt[k] {
				f := ci.Common().StaticCallee()
				if f == nil {
					continue
				}
				if _, isRepo := c.P.PkgOf(f); isRepo && !c.P.IsGenerated(f.Pos()) {
					if hasSite[f] {
						ninl++
						explained = true
						break
					}
					continue
				}
				depCallees[shorten(strings.ReplaceAll(f.String(), core.Module+"/", ""))]++
				ndep++
				explained = true
				break
			}
			if !explained {
				r.Undecided("R13.3", "bce:"+k, k, "the compiler keeps a bounds check on this line that the may-panic inventory does not account for (enumerator incomplete?)")
			}
		}
	}
	r.Extra["bce_cross_check"] = map[string]any{"compiler_reported_lines": n, "matched_inventory_site": nsite, "inlined_repository_function_with_site": ninl, "inlined_dependency_code": ndep, "dependency_callees": depCallees}
	r.Floor("R13.3/bce-lines", n, 20)
}

// fromCacheGetter: v is result 0 of a repository function all of whose returns yield a map lookup result.
func (c *Ctx) fromCacheGetter(v ssa.Value) bool {
	ex, ok := v.(*ssa.Extract)
	if !ok || ex.Index != 0 {
		return false
	}
	call, ok := ex.Tuple.(*ssa.Call)
	if !ok {
		return false
	}
	f := call.Call.StaticCallee()
	if f == nil || len(f.Blocks) == 0 {
		return false
	}
	if _, isRepo := c.P.PkgOf(f); !isRepo || len(core.FetchSites(f)) > 0 {
		return false
	}
	rets := core.Returns(f)
	if len(rets) == 0 {
		return false
	}
	for _, ret := range rets {
		if !isMapLookupResult(core.ResolvedResults(ret)[0]) {
			return false
		}
	}
	return true
}

// isCacheSetter: a repository function that stores one of its parameters into a map.
func (c *Ctx) isCacheSetter(f *ssa.Function) bool {
	if _, isRepo := c.P.PkgOf(f); !isRepo {
		return false
	}
	for _, b := range f.Blocks {
		for _, ins := range b.Instrs {
			if mu, ok := ins.(*ssa.MapUpdate); ok {
				if _, isParam := mu.Value.(*ssa.Parameter); isParam {
					return true
				}
			}
		}
	}
	return false
}

// outermostLoaders: loaders (fetchers and their thin wrappers) that are not themselves only called from another loader
// of the set with their link passed through — the level at which callers receive the child and the fanout check must hold.
// Inner levels are checked too when they cache or return a child without the comparison reaching them.
func (c *Ctx) outermostLoaders(pkgs map[string]bool) map[*ssa.Function]bool {
	all := c.G.Loaders(pkgs)
	return all
}

// ---------------------------------------------------------------------------
// R13.7 nil results that signal "nothing" without an error must be tested before they are dereferenced
// ---------------------------------------------------------------------------

// mayReturnNilOK lists, for a repository function, the result indices of pointer/interface type for which some return
// yields the nil constant while the error result (if any) is the nil constant too.
func (c *Ctx) mayReturnNilOK(fn *ssa.Function) []int {
	if len(fn.Blocks) == 0 {
		return nil
	}
	errIdx := core.ErrResultIndex(fn.Signature)
	// comma-ok form: without an error result, a trailing bool result is the status; nil together with a constant false is a
	// reported failure like nil together with an error
	okIdx := -1
	if n := fn.Signature.Results().Len(); errIdx < 0 && n >= 2 && isBasic(fn.Signature.Results().At(n-1).Type(), types.Bool) {
		okIdx = n - 1
	}
	var out []int
	for i := 0; i < fn.Signature.Results().Len(); i++ {
		if i == errIdx || i == okIdx || !nilable(fn.Signature.Results().At(i).Type()) {
			continue
		}
		if _, isSlice := fn.Signature.Results().At(i).Type().Underlying().(*types.Slice); isSlice {
			continue
		}
		for _, ret := range core.Returns(fn) {
			rr := core.ResolvedResults(ret)
			if okIdx >= 0 {
				if cst, isC := rr[okIdx].(*ssa.Const); isC && cst.Value != nil && cst.Value.Kind() == constant.Bool && !constant.BoolVal(cst.Value) {
					continue
				}
			}
			lazyNil := c.lazilySetField(fn, rr[i]) && !core.GuardedBy(ret.Block(), func(cond ssa.Value) (bool, bool) {
				x, trueMeansNil, ok := core.NilCmp(cond)
				if !ok || !c.sameValue(x, rr[i]) {
					return false, false
				}
				return !trueMeansNil, true
			})
			if (core.IsNilConst(rr[i]) || lazyNil) && (errIdx < 0 || core.IsNilConst(rr[errIdx]) || !(core.ErrKnownNonNil(rr[errIdx], nil) || core.GuardedBy(ret.Block(), func(cond ssa.Value) (bool, bool) {
				x, trueMeansNil, ok := core.NilCmp(cond)
				if !ok || x != rr[errIdx] {
					return false, false
				}
				return !trueMeansNil, true
			}))) {
				out = append(out, i)
				break
			}
		}
	}
	return out
}

func (c *Ctx) checkNilResults() {
	r := c.R
	n := 0
	for _, fn := range c.G.Funcs() {
		if !c.inC13Scope(fn) {
			continue
		}
		ord := 0
		for _, ci := range core.CallsIn(fn) {
			call, ok := ci.(*ssa.Call)
			if !ok {
				continue
			}
			// callees: static repository function, or every repository implementer of an invoke on a repository interface
			var callees []*ssa.Function
			if f := call.Call.StaticCallee(); f != nil {
				if _, isRepo := c.P.PkgOf(f); isRepo {
					callees = append(callees, f)
				}
			} else if call.Call.IsInvoke() {
				for _, e := range c.G.Out[fn] {
					if e.Site == ssa.Instruction(call) {
						callees = append(callees, e.Callee)
					}
				}
			}
			idxs := map[int]string{}
			for _, f := range callees {
				if c.P.IsGenerated(f.Pos()) {
					continue
				}
				for _, i := range c.mayReturnNilOK(f) {
					idxs[i] = core.FuncName(f)
				}
			}
			for i, from := range idxs {
				var v ssa.Value
				if call.Call.Signature().Results().Len() == 1 {
					v = call
				} else {
					v = extractOf(call, i)
				}
				if v == nil {
					continue
				}
				// dereferencing uses of v: receiver of a method call / invoke, field address, load
				for _, ref := range *v.Referrers() {
					deref := false
					switch x := ref.(type) {
					case *ssa.Call:
						if x.Call.IsInvoke() && x.Call.Value == v {
							deref = true
						} else if f := x.Call.StaticCallee(); f != nil && f.Signature.Recv() != nil && len(x.Call.Args) > 0 && x.Call.Args[0] == v {
							// method on a pointer receiver of a generated/typed node dereferences it
							if _, isPtr := f.Signature.Recv().Type().Underlying().(*types.Pointer); isPtr || true {
								deref = true
							}
						}
					case *ssa.FieldAddr:
						deref = x.X == v
					case *ssa.UnOp:
						deref = x.Op == token.MUL && x.X == v
					}
					if !deref {
						continue
					}
					n++
					ord++
					key := fmt.Sprintf("%s/nil-result-deref#%d", core.FuncName(fn), ord)
					guarded := core.GuardedBy(ref.Block(), func(cond ssa.Value) (bool, bool) {
						x, trueMeansNil, ok := core.NilCmp(cond)
						if !ok || x != v {
							return false, false
						}
						return !trueMeansNil, true
					})
					r.Check(guarded, "R13.7", key, c.P.Pos(ref.Pos()), "result of "+from+" (nil without error means 'nothing') is tested before use", "result of "+from+" can be nil with a nil error (it signals 'nothing left' / 'not found') and is dereferenced without a nil test")
				}
			}
		}
	}
	r.Floor("R13.7", n, 1)
}

// isFanoutValidator: h has an error result and each of its returns that may carry a nil error is dominated by an equality
// between two different Fanout access paths (the child's and the parent's).
func (c *Ctx) isFanoutValidator(h *ssa.Function) bool {
	if len(h.Blocks) == 0 {
		return false
	}
	if _, isRepo := c.P.PkgOf(h); !isRepo {
		return false
	}
	errIdx := core.ErrResultIndex(h.Signature)
	if errIdx < 0 {
		return false
	}
	cmp := func(cond ssa.Value) (bool, bool) {
		bo, ok := cond.(*ssa.BinOp)
		if !ok || (bo.Op != token.EQL && bo.Op != token.NEQ) {
			return false, false
		}
		px, py := c.accessPath(core.Unconv(bo.X), 0), c.accessPath(core.Unconv(bo.Y), 0)
		if strings.Contains(px, "Fanout") && strings.Contains(py, "Fanout") && px != py {
			return bo.Op == token.EQL, true
		}
		return false, false
	}
	n := 0
	for _, ret := range core.Returns(h) {
		ev := core.ResolvedResults(ret)[errIdx]
		if core.ErrKnownNonNil(ev, nil) {
			continue
		}
		n++
		if !core.GuardedBy(ret.Block(), cmp) {
			return false
		}
	}
	return n > 0
}

// isCounterFromNonNeg: v is a loop counter phi(c, v+k) with constants c >= 0 and k >= 0: it is never negative (overflow
// is not modelled, see DESIGN §10.4).
func isCounterFromNonNeg(v ssa.Value) bool {
	phi, ok := core.Unconv(v).(*ssa.Phi)
	if !ok {
		return false
	}
	for _, e := range phi.Edges {
		if k, isK := core.ConstInt(e); isK {
			if k < 0 {
				return false
			}
			continue
		}
		bo, isBin := e.(*ssa.BinOp)
		if !isBin || bo.Op != token.ADD || bo.X != ssa.Value(phi) {
			return false
		}
		if k, isK := core.ConstInt(bo.Y); !isK || k < 0 {
			return false
		}
	}
	return len(phi.Edges) > 0
}

// closureFactoryParam: v (a slice bound inside closure cl) is the captured parameter of the function that creates and
// returns cl; returns that factory and the parameter index.
func closureFactoryParam(cl *ssa.Function, v ssa.Value) (*ssa.Function, int) {
	par := cl.Parent()
	if par == nil {
		return nil, -1
	}
	var fvr *ssa.FreeVar
	switch x := v.(type) {
	case *ssa.FreeVar:
		fvr = x
	case *ssa.UnOp:
		if x.Op == token.MUL {
			fvr, _ = x.X.(*ssa.FreeVar)
		}
	}
	if fvr == nil {
		return nil, -1
	}
	idx := -1
	for i, f := range cl.FreeVars {
		if f == fvr {
			idx = i
		}
	}
	if idx < 0 {
		return nil, -1
	}
	for _, b := range par.Blocks {
		for _, ins := range b.Instrs {
			mc, ok := ins.(*ssa.MakeClosure)
			if !ok || mc.Fn != ssa.Value(cl) || idx >= len(mc.Bindings) {
				continue
			}
			bound := mc.Bindings[idx]
			var p *ssa.Parameter
			switch y := bound.(type) {
			case *ssa.Parameter:
				p = y
			case *ssa.Alloc:
				n := 0
				for _, ref := range *y.Referrers() {
					if st, ok := ref.(*ssa.Store); ok && st.Addr == ssa.Value(y) {
						n++
						p, _ = st.Val.(*ssa.Parameter)
					}
				}
				if n != 1 {
					p = nil
				}
			}
			if p == nil {
				return nil, -1
			}
			for i, q := range par.Params {
				if q == p {
					return par, i
				}
			}
		}
	}
	return nil, -1
}

// unbox strips interface conversions: a value handed to a parameter of (narrower) interface type is still that value.
func unbox(v ssa.Value) ssa.Value {
	for i := 0; i < 4; i++ {
		switch x := v.(type) {
		case *ssa.MakeInterface:
			v = x.X
		case *ssa.ChangeInterface:
			v = x.X
		default:
			return v
		}
	}
	return v
}

// fanoutCheckedPositive: some function of package hamt that is handed the Fanout value (from the data validator) returns an
// error for every v <= 0 and for every v that is not a power of two.
func (d *discharger) fanoutCheckedPositive() (bool, string) {
	c := d.c
	found := false
	for _, fn := range c.G.Funcs() {
		rel, ok := c.P.PkgOf(fn)
		if !ok || rel != "hamt" || fn.Synthetic != "" {
			continue
		}
		for _, ci := range core.CallsIn(fn) {
			call, ok := ci.(*ssa.Call)
			if !ok {
				continue
			}
			h := call.Call.StaticCallee()
			if h == nil || len(h.Blocks) == 0 || len(h.Params) != 1 || !isIntegerType(h.Params[0].Type()) || core.ErrResultIndex(h.Signature) < 0 {
				continue
			}
			if hrel, isRepo := c.P.PkgOf(h); !isRepo || hrel != "hamt" {
				continue
			}
			if !strings.Contains(c.accessPath(core.Unconv(call.Call.Args[0]), 0), "Fanout") {
				continue
			}
			found = true
			v := ssa.Value(h.Params[0])
			// every return that may carry a nil error is dominated by v > 0
			for _, ret := range core.Returns(h) {
				ev := core.ResolvedResults(ret)[core.ErrResultIndex(h.Signature)]
				if core.ErrKnownNonNil(ev, nil) {
					continue
				}
				posCmp := func(cond ssa.Value, v ssa.Value) (bool, bool) {
					bo, ok := cond.(*ssa.BinOp)
					if !ok || core.Unconv(bo.X) != v {
						return false, false
					}
					k, isK := core.ConstInt(bo.Y)
					if !isK {
						return false, false
					}
					switch {
					case bo.Op == token.LEQ && k == 0, bo.Op == token.LSS && k == 1:
						return false, true
					case bo.Op == token.GTR && k == 0, bo.Op == token.GEQ && k == 1:
						return true, true
					}
					return false, false
				}
				pos := core.GuardedBy(ret.Block(), func(cond ssa.Value) (bool, bool) {
					// a boolean predicate helper P(v) whose every possibly-true return is itself dominated by v > 0
					neg := false
					pc := cond
					if u, isNot := pc.(*ssa.UnOp); isNot && u.Op == token.NOT {
						pc, neg = u.X, true
					}
					if pcall, isCall := pc.(*ssa.Call); isCall {
						if ph := pcall.Call.StaticCallee(); ph != nil && len(ph.Blocks) > 0 && len(ph.Params) == 1 && len(pcall.Call.Args) == 1 && core.Unconv(pcall.Call.Args[0]) == v && ph.Signature.Results().Len() == 1 && isBasic(ph.Signature.Results().At(0).Type(), types.Bool) {
							implies := true
							for _, pr := range core.Returns(ph) {
								if cst, isC := pr.Results[0].(*ssa.Const); isC && cst.Value != nil && cst.Value.Kind() == constant.Bool && !constant.BoolVal(cst.Value) {
									continue
								}
								pv := ssa.Value(ph.Params[0])
								if !core.GuardedBy(pr.Block(), func(c2 ssa.Value) (bool, bool) { return posCmp(c2, pv) }) {
									implies = false
								}
							}
							if implies {
								return !neg, true
							}
						}
					}
					bo, ok := cond.(*ssa.BinOp)
					if !ok || core.Unconv(bo.X) != v {
						return false, false
					}
					k, isK := core.ConstInt(bo.Y)
					if !isK {
						return false, false
					}
					switch {
					case bo.Op == token.LEQ && k == 0, bo.Op == token.LSS && k == 1:
						return false, true // must be on the false edge
					case bo.Op == token.GTR && k == 0, bo.Op == token.GEQ && k == 1:
						return true, true
					}
					return false, false
				})
				if !pos {
					return false, fmt.Sprintf("%s can accept a fanout that is not positive (return at %s is not dominated by v > 0): fanout 0 yields a 64-bit index into an empty bitfield", core.FuncName(h), c.P.Pos(ret.Pos()))
				}
			}
		}
	}
	if !found {
		return false, "no check of the Fanout value (positive power of two) found in package hamt"
	}
	return true, ""
}

// indexHelperInRange: every return of h yields a negative constant, or a counter (from a non-negative start) whose return
// is dominated by `v < Length()` of h's li-th parameter.
func (c *Ctx) indexHelperInRange(h *ssa.Function, li int) bool {
	if h.Signature.Results().Len() != 1 || !isIntegerType(h.Signature.Results().At(0).Type()) {
		return false
	}
	list := ssa.Value(h.Params[li])
	n := 0
	for _, ret := range core.Returns(h) {
		n++
		v := core.Unconv(core.ResolvedResults(ret)[0])
		if k, isK := core.ConstInt(v); isK {
			if k < 0 {
				continue
			}
			return false
		}
		if !isCounterFromNonNeg(v) {
			return false
		}
		if !core.GuardedBy(ret.Block(), func(cond ssa.Value) (bool, bool) {
			bo, isBin := cond.(*ssa.BinOp)
			if !isBin || core.Unconv(bo.X) != v {
				return false, false
			}
			lc, ok := core.Unconv(bo.Y).(*ssa.Call)
			if !ok {
				return false, false
			}
			name, lrecv := methodCall(lc)
			if name != "Length" || !c.sameValue(lrecv, list) {
				return false, false
			}
			switch bo.Op {
			case token.GEQ:
				return false, true
			case token.LSS:
				return true, true
			}
			return false, false
		}) {
			return false
		}
	}
	return n > 0
}

// lazilySetField: v is a load of a nilable field of fn's receiver that no constructor initialises (every store to the
// field is on an object that already exists: a memo filled in later, e.g. under a sync.Once) — the load can yield nil.
func (c *Ctx) lazilySetField(fn *ssa.Function, v ssa.Value) bool {
	u, ok := v.(*ssa.UnOp)
	if !ok || u.Op != token.MUL || len(fn.Params) == 0 {
		return false
	}
	fv := c.fieldOfAddr(fn, u.X)
	if fv == nil || !nilable(fv.Type()) {
		return false
	}
	nstores := 0
	for _, f := range c.G.Funcs() {
		for _, b := range f.Blocks {
			for _, ins := range b.Instrs {
				st, ok := ins.(*ssa.Store)
				if !ok {
					continue
				}
				if _, sf, ok := core.FieldAddrOf(st.Addr); !ok || sf != fv {
					continue
				}
				nstores++
				if _, fresh := rootObject(st.Addr); fresh && !core.IsNilConst(st.Val) {
					return false
				}
			}
		}
	}
	return nstores > 0
}

// arrayLenOf: t is an array or a pointer to one; returns its length.
func arrayLenOf(t types.Type) (int64, bool) {
	if p, ok := t.Underlying().(*types.Pointer); ok {
		t = p.Elem()
	}
	if a, ok := t.Underlying().(*types.Array); ok {
		return a.Len(), true
	}
	return 0, false
}

func isUnsigned(t types.Type) bool {
	b, ok := t.Underlying().(*types.Basic)
	return ok && b.Info()&types.IsUnsigned != 0
}
