package rules

import (
	"fmt"
	"go/constant"
	"go/token"
	"go/types"
	"sort"
	"strings"

	"golang.org/x/tools/go/ssa"

	"verifchk/internal/core"
)

func init() { Registry["C15"] = c15 }

// mapADLTypes: struct types of the reader packages that are name-addressable maps (LookupByString + MapIterator + Substrate).
func (c *Ctx) mapADLTypes() []*types.Named {
	var out []*types.Named
	for _, n := range c.repoNamedTypes(core.ReaderPkgs) {
		if _, ok := n.Underlying().(*types.Struct); !ok {
			continue
		}
		if classOf(types.NewPointer(n)) == "map" {
			out = append(out, n)
		}
	}
	return out
}

func (c *Ctx) methodOf(n *types.Named, name string) *ssa.Function {
	ms := c.P.SSA.MethodSets.MethodSet(types.NewPointer(n))
	for i := 0; i < ms.Len(); i++ {
		if ms.At(i).Obj().Name() == name {
			return c.P.SSA.MethodValue(ms.At(i))
		}
	}
	return nil
}

// stringPrimitives: repository functions that fn calls with the given string value (or a value derived from it) as an argument.
func (c *Ctx) keyConsumers(fn *ssa.Function, key ssa.Value) map[*ssa.Function]bool {
	derived := map[ssa.Value]bool{key: true}
	for changed := true; changed; {
		changed = false
		for _, b := range fn.Blocks {
			for _, ins := range b.Instrs {
				v, ok := ins.(ssa.Value)
				if !ok || derived[v] {
					continue
				}
				for _, op := range ins.Operands(nil) {
					if *op != nil && derived[*op] {
						// conversions and pure calls of the key keep it "the key"; stop at repository calls (they are the consumers)
						if call, isCall := ins.(*ssa.Call); isCall {
							if f := call.Call.StaticCallee(); f != nil {
								if _, isRepo := c.P.PkgOf(f); isRepo && f.Signature.Recv() == nil || (isRepo && f.Name() != "String") {
									continue
								}
							}
						}
						derived[v] = true
						changed = true
					}
				}
			}
		}
	}
	out := map[*ssa.Function]bool{}
	for _, ci := range core.CallsIn(fn) {
		f := ci.Common().StaticCallee()
		if f == nil {
			continue
		}
		if _, isRepo := c.P.PkgOf(f); !isRepo {
			continue
		}
		for _, a := range ci.Common().Args {
			if derived[a] {
				out[f] = true
			}
		}
	}
	return out
}

func c15(c *Ctx) {
	r := c.R
	r.Explain = "C15 (directory nodes satisfy the map-node contract): decides structural agreement between the operations of each name-addressable node type — (M1) LookupByNode and LookupBySegment return, unmodified, the result of the same type's LookupByString on key.AsString() / seg.String(), and the native Lookup hands the key to the same primitive(s) as LookupByString; (M2) Length() returns the length of the very links list the iterators are created over and the list-iterator wrappers forward Next/Done unmodified; (M3) iterators and the lookup primitive map an absent link name to the constant \"\"; (M4) in the sharded directory, length, iteration and lookup classify links with the same predicate and descend through the same loader; (M5) the map iterator reports ErrIteratorOverread past the end. Not decided: the quantified equalities themselves (they also depend on go-codec-dagpb's list semantics)."
	r.Rule("M1", "entry-point agreement per map ADL type: LookupByNode/LookupBySegment forward LookupByString(key.AsString()/seg.String()) unmodified; native Lookup passes key.String() to the same primitive functions as LookupByString")
	r.Rule("M6", "the list-scanning lookup primitive leaves its links loop only when the iterator is exhausted or on the edge where the key equals the link's name: it never stops early on an ordering assumption (link lists may arrive in any order)")
	r.Rule("M8", "Length() of the sharded directory is the count of a complete walk: the walk visits every link, recurses into every child shard, and the memoised count is written only by that walk after its loop has finished (an iterator or lookup that writes the memo can make Length() disagree with what iteration yields)")
	r.Rule("M9", "the sharded lookup compares the whole stored name after the hash prefix with the key: where the match predicate compares a slice of the link name with the key, that slice starts at the prefix length and runs to the end of the name (a tail or an inner slice would let a key match an entry whose name merely ends with / contains it)")
	r.Rule("M10", "a map iterator's Next returns a key with every entry: on no path does it return a nil key together with an error that is nil (constant, or known nil on that path) — a nameless link is yielded under the key \"\", not as an empty pair")
	r.Rule("M7", "every lookup entry point of the sharded directory hands the descent a hash cursor allocated in that very call (the cursor is stateful: it may be passed down the recursion but never reused across calls)")
	r.Rule("M2", "Length() returns Length() of the links list at the same access path the iterators are created from (or the result of the walk function for sharded directories); list-iterator wrappers return the wrapped iterator's Next/Done results unmodified")
	r.Rule("M3", "every function that tests a link's Name for existence uses the constant \"\" on the absent branch")
	r.Rule("M4", "sharded directory: every function that calls the shard loader classifies the link with the link predicate first, and all of them use the same loader and the same predicate")
	r.Rule("M5", "the map iterator returns ErrIteratorOverread when the underlying iterator yields no link")

	ts := c.mapADLTypes()
	r.Floor("M1/types", len(ts), 3)
	n1 := 0
	for _, t := range ts {
		tn := core.TypeNameOf(t)
		byStr := c.methodOf(t, "LookupByString")
		if byStr == nil {
			r.Violate("M1", tn+"/LookupByString", c.P.Pos(t.Obj().Pos()), "map ADL type has no LookupByString")
			continue
		}
		for _, m := range []struct{ name, conv string }{{"LookupByNode", "AsString"}, {"LookupBySegment", "String"}} {
			fn := c.methodOf(t, m.name)
			n1++
			key := tn + "/" + m.name
			if fn == nil || len(fn.Blocks) == 0 {
				r.Violate("M1", key, c.P.Pos(t.Obj().Pos()), "method missing")
				continue
			}
			var bad []string
			nfwd := 0
			errIdx := core.ErrResultIndex(fn.Signature)
			for _, ret := range core.Returns(fn) {
				rr := core.ResolvedResults(ret)
				ex0, ok0 := rr[0].(*ssa.Extract)
				if !ok0 {
					// error-only return: must carry the conversion's error
					if core.IsNilConst(rr[0]) && !core.IsNilConst(rr[errIdx]) {
						continue
					}
					bad = append(bad, fmt.Sprintf("return at %s does not forward LookupByString", c.P.Pos(ret.Pos())))
					continue
				}
				call, ok := ex0.Tuple.(*ssa.Call)
				ex1, ok1 := rr[errIdx].(*ssa.Extract)
				if !ok || !ok1 || ex1.Tuple != ex0.Tuple || call.Call.StaticCallee() != byStr {
					bad = append(bad, fmt.Sprintf("return at %s does not forward the unmodified results of this type's LookupByString", c.P.Pos(ret.Pos())))
					continue
				}
				if call.Call.Args[0] != ssa.Value(fn.Params[0]) {
					bad = append(bad, "LookupByString is called on a different node")
				}
				// the string argument: conv() of the key parameter
				arg := call.Call.Args[1]
				if ex, ok := arg.(*ssa.Extract); ok {
					arg = ex.Tuple
				}
				ac, ok := arg.(*ssa.Call)
				okArg := false
				if ok {
					name, rv := methodCall(ac)
					if name == m.conv && rv == ssa.Value(fn.Params[1]) {
						okArg = true
					}
				}
				if !okArg {
					bad = append(bad, "the looked-up string is not "+m.conv+"() of the key")
				}
				nfwd++
			}
			if nfwd == 0 {
				bad = append(bad, "no forwarding return")
			}
			r.Check(len(bad) == 0, "M1", key, c.P.Pos(fn.Pos()), "forwards LookupByString("+m.conv+"() of the key) unmodified", uniqJoin(bad))
		}
		// native Lookup
		if lk := c.methodOf(t, "Lookup"); lk != nil && len(lk.Blocks) > 0 && len(lk.Params) == 2 {
			n1++
			key := tn + "/Lookup"
			// key string in Lookup: key.String(); in LookupByString: the parameter
			var ks ssa.Value
			for _, ci := range core.CallsIn(lk) {
				if call, ok := ci.(*ssa.Call); ok {
					if name, rv := methodCall(call); name == "String" && rv == ssa.Value(lk.Params[1]) {
						ks = call
					}
				}
			}
			if ks == nil {
				r.Violate("M1", key, c.P.Pos(lk.Pos()), "native Lookup does not use key.String()")
			} else {
				// all String() calls on the key count as the key
				a := map[*ssa.Function]bool{}
				for _, ci := range core.CallsIn(lk) {
					if call, ok := ci.(*ssa.Call); ok {
						if name, rv := methodCall(call); name == "String" && rv == ssa.Value(lk.Params[1]) {
							for f := range c.keyConsumers(lk, call) {
								a[f] = true
							}
						}
					}
				}
				b := c.keyConsumers(byStr, byStr.Params[1])
				r.Check(sameFuncSet(a, b) && len(a) > 0, "M1", key, c.P.Pos(lk.Pos()), "hands the key to the same primitive(s) as LookupByString: "+funcSetString(a), fmt.Sprintf("native Lookup uses %s but LookupByString uses %s", funcSetString(a), funcSetString(b)))
			}
		}
	}
	r.Floor("M1", n1, 9)

	c.checkFullScan(ts)
	c.checkFreshHashCursor(ts)
	c.checkLengthSource(ts)
	c.checkAbsentName()
	c.checkShardedAgreement()
	c.checkLengthWalk()
	c.checkKeyMatchExact()
	c.checkIteratorYieldsKey()
	c.checkFoundIffNonNil()
	c.checkOverread()
}

func sameFuncSet(a, b map[*ssa.Function]bool) bool {
	if len(a) != len(b) {
		return false
	}
	for f := range a {
		if !b[f] {
			return false
		}
	}
	return true
}

func funcSetString(a map[*ssa.Function]bool) string {
	var s []string
	for f := range a {
		s = append(s, core.FuncName(f))
	}
	sort.Strings(s)
	return "{" + strings.Join(s, ", ") + "}"
}

// linksPath normalises `x._substrate.FieldLinks()` and `x._substrate.Links` to the same path.
func (c *Ctx) linksPath(v ssa.Value) string {
	p := c.accessPath(v, 0)
	return p
}

func (c *Ctx) checkLengthSource(ts []*types.Named) {
	r := c.R
	n := 0
	for _, t := range ts {
		tn := core.TypeNameOf(t)
		length := c.methodOf(t, "Length")
		if length == nil || len(length.Blocks) == 0 {
			continue
		}
		n++
		key := tn + "/Length-vs-iteration"
		// source of Length
		var lenSrc []string
		walk := false
		for _, ret := range core.Returns(length) {
			v := ret.Results[0]
			if k, ok := core.ConstInt(v); ok && k == 0 {
				continue // error fallback of an interface-imposed signature
			}
			if call, ok := v.(*ssa.Call); ok {
				if name, rv := methodCall(call); name == "Length" && rv != nil {
					lenSrc = append(lenSrc, c.linksPath(rv))
					continue
				}
			}
			if ex, ok := v.(*ssa.Extract); ok {
				if call, ok := ex.Tuple.(*ssa.Call); ok && call.Call.StaticCallee() != nil && core.RecvNamed(call.Call.StaticCallee()) == t {
					walk = true
					continue
				}
			}
			lenSrc = append(lenSrc, "?")
		}
		// source of the iterators
		var itSrc []string
		for _, mname := range []string{"MapIterator", "Iterator"} {
			m := c.methodOf(t, mname)
			if m == nil {
				continue
			}
			if src := c.iteratorSource(m, 0); src != "" {
				itSrc = append(itSrc, src)
			} else {
				itSrc = append(itSrc, "?")
			}
		}
		var bad []string
		if walk {
			// sharded: covered by M4 (same predicate/loader) — require the iterators to start from the receiver's links
			for _, s := range itSrc {
				if !strings.Contains(s, "Links") {
					bad = append(bad, "an iterator is not created over the receiver's links")
				}
			}
		} else {
			for _, l := range lenSrc {
				for _, s := range itSrc {
					if normLinks(l) != normLinks(s) {
						bad = append(bad, fmt.Sprintf("Length() counts %s but the iterators walk %s", shortPath(l), shortPath(s)))
					}
				}
			}
			if len(lenSrc) == 0 {
				bad = append(bad, "Length() does not return the length of a links list")
			}
		}
		how := "Length() and both iterators read " + shortPath(strings.Join(uniqStrings(itSrc), ","))
		if walk {
			how = "Length() is the result of the walk function; iterators start from the receiver's links (agreement of the walk with iteration: M4)"
		}
		r.Check(len(bad) == 0, "M2", key, c.P.Pos(length.Pos()), how, uniqJoin(bad))
	}
	// list-iterator wrappers: types with Next() (int64, PBLink, error) and Done() whose struct has a single *PBLinks__Itr field
	for _, t := range c.repoNamedTypes(core.ReaderPkgs) {
		st, ok := t.Underlying().(*types.Struct)
		if !ok || st.NumFields() != 1 {
			continue
		}
		// the wrapped links iterator: the dag-pb iterator itself, or an interface with Next() (int64, PBLink) and Done()
		ft := st.Field(0).Type()
		if !strings.Contains(types.TypeString(ft, nil), "PBLinks__Itr") {
			it, isIface := ft.Underlying().(*types.Interface)
			if !isIface || !hasNextDone(ft) || it.NumMethods() > 2 {
				continue
			}
			linkItr := false
			for i := 0; i < it.NumMethods(); i++ {
				if sig, ok := it.Method(i).Type().(*types.Signature); ok && it.Method(i).Name() == "Next" && sig.Results().Len() == 2 && strings.Contains(types.TypeString(sig.Results().At(1).Type(), nil), "PBLink") {
					linkItr = true
				}
			}
			if !linkItr {
				continue
			}
		}
		for _, mname := range []string{"Next", "Done"} {
			m := c.methodOf(t, mname)
			if m == nil || len(m.Blocks) == 0 {
				continue
			}
			n++
			key := core.TypeNameOf(t) + "/" + mname + "-forwards"
			good := len(m.Blocks) == 1
			if good {
				ret := core.Returns(m)[0]
				// results are extracts of (or the value of) the wrapped iterator's same-named method, extra error result nil
				var inner *ssa.Call
				for _, ci := range core.CallsIn(m) {
					if call, ok := ci.(*ssa.Call); ok {
						if name, _ := methodCall(call); name == mname {
							inner = call
						}
					}
				}
				if inner == nil {
					good = false
				} else {
					k := 0
					for _, rv := range ret.Results {
						if core.IsNilConst(rv) {
							continue
						}
						if ex, ok := rv.(*ssa.Extract); ok && ex.Tuple == ssa.Value(inner) && ex.Index == k {
							k++
							continue
						}
						if rv == ssa.Value(inner) {
							continue
						}
						good = false
					}
				}
			}
			r.Check(good, "M2", key, c.P.Pos(m.Pos()), "returns the wrapped links iterator's "+mname+"() unmodified", "wrapper alters or reorders what the links iterator yields")
		}
	}
	r.Floor("M2", n, 7)
}

func normLinks(p string) string {
	p = strings.ReplaceAll(p, ".FieldLinks()", ".Links")
	return p
}

func uniqStrings(ss []string) []string {
	seen := map[string]bool{}
	var out []string
	for _, s := range ss {
		s = normLinks(s)
		if !seen[s] {
			seen[s] = true
			out = append(out, s)
		}
	}
	return out
}

// checkAbsentName implements M3.
func (c *Ctx) checkAbsentName() {
	r := c.R
	n := 0
	for _, fn := range c.G.Funcs() {
		rel, ok := c.P.PkgOf(fn)
		if !ok || !(rel == "iter" || rel == "utils") || fn.Synthetic != "" {
			continue
		}
		// branches on <link>.Name.Exists()
		for _, b := range fn.Blocks {
			iff := core.BlockIf(b)
			if iff == nil || c.existsCond2(iff.Cond) != "Name" {
				continue
			}
			n++
			key := core.FuncName(fn) + "/absent-name"
			absent := b.Succs[1]
			// on the absent side the name is the constant "": either AssignString("") or a phi edge "" into the compared name
			good := false
			region := dominatedRegion(absent)
			if len(absent.Preds) == 1 {
				for rb := range region {
					for _, ins := range rb.Instrs {
						call, ok := ins.(*ssa.Call)
						if !ok {
							continue
						}
						if assignsEmptyString(call) {
							good = true
						}
						// a repository helper that builds the empty name
						if f := call.Call.StaticCallee(); f != nil {
							if _, isRepo := c.P.PkgOf(f); isRepo {
								for _, ci := range core.CallsIn(f) {
									if hc, ok := ci.(*ssa.Call); ok && assignsEmptyString(hc) {
										good = true
									}
								}
							}
						}
					}
				}
			}
			// return form: if Exists { return name }; return ""
			if len(absent.Preds) == 1 {
				for rb := range region {
					if len(rb.Instrs) == 0 {
						continue
					}
					if ret, ok := rb.Instrs[len(rb.Instrs)-1].(*ssa.Return); ok && len(ret.Results) > 0 {
						if k, ok := ret.Results[0].(*ssa.Const); ok && k.Value != nil && k.Value.Kind() == constant.String && constant.StringVal(k.Value) == "" {
							good = true
						}
					}
				}
			}
			// else form: if Exists { name = … } else { name = "" } — the absent block only jumps to the join, whose phi takes ""
			if len(absent.Preds) == 1 && len(absent.Succs) == 1 {
				j := absent.Succs[0]
				for _, ins := range j.Instrs {
					phi, ok := ins.(*ssa.Phi)
					if !ok {
						break
					}
					if !isBasic(phi.Type(), types.String) {
						continue
					}
					for i, e := range phi.Edges {
						if j.Preds[i] == absent {
							if k, ok := e.(*ssa.Const); ok && k.Value != nil && k.Value.Kind() == constant.String && constant.StringVal(k.Value) == "" {
								good = true
							}
						}
					}
				}
			}
			// phi form: name := ""; if Exists { name = … }
			for _, s := range []*ssa.BasicBlock{absent} {
				for _, ins := range s.Instrs {
					if phi, ok := ins.(*ssa.Phi); ok {
						for i, e := range phi.Edges {
							if s.Preds[i] == b {
								if k, ok := e.(*ssa.Const); ok && k.Value != nil && k.Value.Kind() == constant.String && constant.StringVal(k.Value) == "" {
									good = true
								}
							}
						}
					}
				}
			}
			r.Check(good, "M3", key, c.P.Pos(firstPos(b)), "a link without a name is presented under the key \"\"", "the absent-name branch does not use the constant \"\" (iteration and lookup would disagree on nameless links)")
			// the present side: the name compared / yielded is the link's own Name (phi edge or value derived from Name.Must())
			present := b.Succs[0]
			usesName := false
			for rb := range dominatedRegion(present) {
				for _, ins := range rb.Instrs {
					if call, ok := ins.(*ssa.Call); ok {
						if name, _ := methodCall(call); name == "Must" && strings.HasSuffix(c.accessPath(call, 0), "Name.Must()") {
							// the value must be used: referenced by something other than a debug ref
							if refs := call.Referrers(); refs != nil {
								for _, ref := range *refs {
									if _, isDbg := ref.(*ssa.DebugRef); !isDbg {
										usesName = true
									}
								}
							}
						}
					}
				}
			}
			if len(present.Preds) == 1 {
				r.Check(usesName, "M3", key+"/present", c.P.Pos(firstPos(present)), "a named link is presented under its own Name", "the branch for a link that has a name does not read it: every entry would be listed or matched under the same key")
			}
		}
	}
	r.Floor("M3", n, 2)
}

// checkShardedAgreement implements M4.
func (c *Ctx) checkShardedAgreement() {
	r := c.R
	loaders := c.G.Loaders(map[string]bool{"hamt": true})
	pred, _ := newDischarger(c).findLinkPredicate()
	if pred == nil {
		r.Violate("M4", "hamt/link-predicate", "-", "no link predicate found")
		return
	}
	n := 0
	usedLoaders := map[*ssa.Function]bool{}
	for _, fn := range c.G.Funcs() {
		rel, ok := c.P.PkgOf(fn)
		if !ok || rel != "hamt" || fn.Synthetic != "" || loaders[fn] {
			continue
		}
		for _, ci := range core.CallsIn(fn) {
			call, ok := ci.(*ssa.Call)
			if !ok || !loaders[call.Call.StaticCallee()] {
				continue
			}
			n++
			usedLoaders[call.Call.StaticCallee()] = true
			key := core.FuncName(fn) + "/classify-then-load"
			link := call.Call.Args[1]
			// dominated by pred(link, pad) with value==false and err==nil — in this function, or (when the link is a parameter)
			// at every call site of this function
			good := c.classifiedBefore(fn, call, link, pred, 0)
			r.Check(good, "M4", key, c.P.Pos(call.Pos()), "the link is classified with "+pred.Name()+" and loaded only when it is not a value link", "a link is loaded as a child shard without being classified by "+pred.Name())
		}
	}
	r.Floor("M4", n, 3)
	r.Check(len(usedLoaders) == 1, "M4", "hamt/single-loader", "-", "lookup, iteration and length descend through the same loader", fmt.Sprintf("%d different loaders are used", len(usedLoaders)))
}

// checkOverread implements M5.
func (c *Ctx) checkOverread() {
	r := c.R
	n := 0
	for _, fn := range c.G.Funcs() {
		rel, ok := c.P.PkgOf(fn)
		if !ok || rel != "iter" || fn.Name() != "Next" || fn.Synthetic != "" || fn.Signature.Results().Len() != 3 {
			continue
		}
		n++
		key := core.FuncName(fn) + "/overread"
		good := false
		for _, ret := range core.Returns(fn) {
			e := ret.Results[2]
			if mi, ok := e.(*ssa.MakeInterface); ok && strings.Contains(types.TypeString(mi.X.Type(), nil), "ErrIteratorOverread") {
				// guarded by next == nil
				if core.GuardedBy(ret.Block(), func(cond ssa.Value) (bool, bool) {
					_, trueMeansNil, ok := core.NilCmp(cond)
					if !ok {
						return false, false
					}
					return trueMeansNil, true
				}) {
					good = true
				}
			}
		}
		r.Check(good, "M5", key, c.P.Pos(fn.Pos()), "a nil link from the underlying iterator is reported as ErrIteratorOverread", "the map iterator does not report ErrIteratorOverread when no link is left")
	}
	r.Floor("M5", n, 1)
	_ = token.ADD
}

func assignsEmptyString(call *ssa.Call) bool {
	if !call.Call.IsInvoke() || call.Call.Method.Name() != "AssignString" || len(call.Call.Args) != 1 {
		return false
	}
	k, ok := call.Call.Args[0].(*ssa.Const)
	return ok && k.Value != nil && k.Value.Kind() == constant.String && constant.StringVal(k.Value) == ""
}

// checkFullScan implements M6 on every repository function that the plain map types' LookupByString hands the key to
// and that loops over a links iterator.
func (c *Ctx) checkFullScan(ts []*types.Named) {
	r := c.R
	prims := map[*ssa.Function]bool{}
	for _, t := range ts {
		if m := c.methodOf(t, "LookupByString"); m != nil && len(m.Params) > 1 {
			// the functions the key is handed to, transitively (a per-type helper may sit in front of the shared primitive)
			work := []struct {
				f *ssa.Function
				k ssa.Value
			}{{m, m.Params[1]}}
			for d := 0; d < 3 && len(work) > 0; d++ {
				var next []struct {
					f *ssa.Function
					k ssa.Value
				}
				for _, w := range work {
					for f := range c.keyConsumers(w.f, w.k) {
						if prims[f] {
							continue
						}
						prims[f] = true
						for _, p := range f.Params {
							if isBasic(p.Type(), types.String) {
								next = append(next, struct {
									f *ssa.Function
									k ssa.Value
								}{f, p})
							}
						}
					}
				}
				work = next
			}
		}
	}
	n := 0
	for _, fn := range core.SortedFuncs(prims) {
		// the links loop: header with Done() of an iterator
		for _, h := range fn.Blocks {
			isHeader := false
			for _, p := range h.Preds {
				if h.Dominates(p) {
					isHeader = true
				}
			}
			iff := core.BlockIf(h)
			if !isHeader || iff == nil {
				continue
			}
			cond := iff.Cond
			neg := false
			if u, ok := cond.(*ssa.UnOp); ok && u.Op == token.NOT {
				cond, neg = u.X, true
			}
			exitIdx := 0
			if neg {
				exitIdx = 1
			}
			if call, ok := cond.(*ssa.Call); ok {
				if name, _ := methodCall(call); name != "Done" {
					continue
				}
			} else if bo, ok := cond.(*ssa.BinOp); ok && !neg && bo.Op == token.LSS {
				// index form: for i := 0; i < links.Length(); i++
				phi, isPhi := core.Unconv(bo.X).(*ssa.Phi)
				lc, isCall := core.Unconv(bo.Y).(*ssa.Call)
				if !isPhi || !isCall || phi.Block() != h || !isCounterFromNonNeg(phi) {
					continue
				}
				if name, _ := methodCall(lc); name != "Length" {
					continue
				}
				exitIdx = 1
			} else {
				continue
			}
			n++
			key := core.FuncName(fn) + "/full-scan"
			inLoop := map[*ssa.BasicBlock]bool{}
			for _, b := range fn.Blocks {
				if h.Dominates(b) && (b == h || blockReaches(b, h)) {
					inLoop[b] = true
				}
			}
			// the key: a string parameter
			var keyP ssa.Value
			for _, p := range fn.Params {
				if isBasic(p.Type(), types.String) {
					keyP = p
				}
			}
			var bad []string
			for b := range inLoop {
				for si, s2 := range b.Succs {
					if inLoop[s2] || (b == h && si == exitIdx) {
						continue
					}
					// leaving the loop early: must be the true edge of key == name
					iff2 := core.BlockIf(b)
					okExit := false
					if iff2 != nil && si == 0 {
						if bo, ok := iff2.Cond.(*ssa.BinOp); ok && bo.Op == token.EQL && (bo.X == keyP || bo.Y == keyP) {
							okExit = true
						}
					}
					if iff2 != nil && si == 1 {
						if bo, ok := iff2.Cond.(*ssa.BinOp); ok && bo.Op == token.NEQ && (bo.X == keyP || bo.Y == keyP) {
							okExit = true
						}
					}
					// what the key is compared with is the link's own name (on some edge; "" on the others)
					if okExit {
						bo := iff2.Cond.(*ssa.BinOp)
						other := bo.X
						if other == keyP {
							other = bo.Y
						}
						if !c.derivesFromLinkName(other, 0, map[ssa.Value]bool{}) {
							bad = append(bad, fmt.Sprintf("the key is compared at %s with a value that never is the link's Name", c.P.Pos(bo.Pos())))
						}
					}
					if !okExit {
						bad = append(bad, fmt.Sprintf("the scan can stop at %s on a condition other than key == name", c.P.Pos(firstPos(s2))))
					}
				}
			}
			r.Check(len(bad) == 0, "M6", key, c.P.Pos(fn.Pos()), "the links are scanned to the end unless the key matches", uniqJoin(bad))
		}
	}
	r.Floor("M6", n, 1)
}

// statefulCursorPtr: pointer to a repository struct type that has a Next method (a cursor that advances).
func (c *Ctx) statefulCursorPtr(t types.Type) bool {
	pt, ok := t.Underlying().(*types.Pointer)
	if !ok {
		return false
	}
	n, ok := types.Unalias(pt.Elem()).(*types.Named)
	if !ok || n.Obj().Pkg() == nil || !c.P.IsRepoPkg(n.Obj().Pkg()) {
		return false
	}
	ms := types.NewMethodSet(t)
	for i := 0; i < ms.Len(); i++ {
		if ms.At(i).Obj().Name() == "Next" {
			return true
		}
	}
	return false
}

// checkFreshHashCursor implements M7.
func (c *Ctx) checkFreshHashCursor(ts []*types.Named) {
	r := c.R
	n := 0
	for _, t := range ts {
		for _, mname := range []string{"LookupByString", "Lookup"} {
			m := c.methodOf(t, mname)
			if m == nil || len(m.Blocks) == 0 {
				continue
			}
			// follow the entry point into the repository helpers it calls until the descent receives its cursor: the cursor
			// must be allocated in the function that hands it over, or be that function's own parameter (passed down)
			seen := map[*ssa.Function]bool{}
			var visit func(fn *ssa.Function, depth int)
			visit = func(fn *ssa.Function, depth int) {
				if seen[fn] || depth > 3 || len(fn.Blocks) == 0 {
					return
				}
				seen[fn] = true
				for _, ci := range core.CallsIn(fn) {
					f := ci.Common().StaticCallee()
					if f == nil {
						continue
					}
					if rel, isRepo := c.P.PkgOf(f); !isRepo || rel != "hamt" {
						continue
					}
					handsCursor := false
					for _, a := range ci.Common().Args {
						if !c.statefulCursorPtr(a.Type()) {
							continue
						}
						handsCursor = true
						if p, isParam := a.(*ssa.Parameter); isParam && p.Parent() == fn {
							continue // passed down the recursion
						}
						n++
						key := core.TypeNameOf(t) + "/" + mname + "/fresh-hash-cursor"
						al, fresh := a.(*ssa.Alloc)
						r.Check(fresh && al.Parent() == fn, "M7", key, c.P.Pos(ci.Pos()), "the hash cursor handed to "+f.Name()+" is allocated in this call", "the stateful hash cursor handed to "+f.Name()+" is not allocated in this call (a reused cursor resumes mid-hash and lands in the wrong bucket)")
					}
					if !handsCursor {
						visit(f, depth+1)
					}
				}
			}
			visit(m, 0)
		}
	}
	r.Floor("M7", n, 2)
}

// iteratorSource: the access path of the links list over which fn (or a repository helper it calls on its own receiver)
// creates its links iterator, expressed relative to fn's receiver.
func (c *Ctx) iteratorSource(fn *ssa.Function, depth int) string {
	if len(fn.Params) == 0 {
		return ""
	}
	for _, ci := range core.CallsIn(fn) {
		if call, ok := ci.(*ssa.Call); ok {
			if name, rv := methodCall(call); name == "Iterator" && rv != nil && strings.Contains(c.linksPath(rv), "Links") {
				return c.linksPath(rv)
			}
		}
	}
	if depth >= 2 {
		return ""
	}
	for _, ci := range core.CallsIn(fn) {
		f := ci.Common().StaticCallee()
		if f == nil || len(f.Params) == 0 || len(ci.Common().Args) == 0 || ci.Common().Args[0] != ssa.Value(fn.Params[0]) {
			continue
		}
		if _, isRepo := c.P.PkgOf(f); !isRepo {
			continue
		}
		if src := c.iteratorSource(f, depth+1); src != "" {
			return strings.Replace(src, "param:"+f.Params[0].Name(), "param:"+fn.Params[0].Name(), 1)
		}
	}
	return ""
}

// classifiedBefore: instruction at is dominated by the not-a-value outcome of pred(link, …) in fn; when link is a
// parameter of fn and fn does not classify it, every repository call site of fn must satisfy the same for its argument.
func (c *Ctx) classifiedBefore(fn *ssa.Function, at ssa.Instruction, link ssa.Value, pred *ssa.Function, depth int) bool {
	for _, pc := range core.CallsIn(fn) {
		pcall, ok := pc.(*ssa.Call)
		if !ok || pcall.Call.StaticCallee() != pred || unbox(pcall.Call.Args[0]) != unbox(link) {
			continue
		}
		bv := extractOf(pcall, 0)
		if bv != nil && core.GuardedBy(at.Block(), func(cond ssa.Value) (bool, bool) {
			if cond == bv {
				return false, true
			}
			return false, false
		}) {
			return true
		}
	}
	p, isParam := link.(*ssa.Parameter)
	if !isParam || depth > 1 {
		return false
	}
	idx := -1
	for i, q := range fn.Params {
		if q == p {
			idx = i
		}
	}
	if idx < 0 || len(c.G.In[fn]) == 0 {
		return false
	}
	for _, e := range c.G.In[fn] {
		ci, ok := e.Site.(ssa.CallInstruction)
		if !ok || ci.Common().StaticCallee() != fn || idx >= len(ci.Common().Args) {
			return false
		}
		if !c.classifiedBefore(e.Caller, e.Site, ci.Common().Args[idx], pred, depth+1) {
			return false
		}
	}
	return true
}

// checkLengthWalk implements M8 by applying the walk-shape check (shared with C06 R6.3 / C20 R20.3) to the sharded
// directory's counting walk.
func (c *Ctx) checkLengthWalk() {
	r := c.R
	fetch := c.G.Loaders(map[string]bool{"hamt": true})
	n := 0
	for _, fn := range c.hamtWalkers(fetch) {
		// the counting walk returns an integer
		if fn.Signature.Results().Len() == 0 || !isIntegerType(fn.Signature.Results().At(0).Type()) {
			continue
		}
		n++
		saved := c.R
		tmp := core.NewReport("tmp", "")
		c.R = tmp
		c.checkWalkComplete(fn, fetch)
		c.R = saved
		var bad []string
		for _, o := range tmp.Obls {
			if o.Status != core.Discharged {
				bad = append(bad, o.Detail)
			}
		}
		r.Check(len(bad) == 0, "M8", core.FuncName(fn)+"/count-is-complete-walk", c.P.Pos(fn.Pos()), "the count is produced, and memoised, only by a complete walk of the shard tree", uniqJoin(bad))
	}
	r.Floor("M8", n, 1)
}

// checkKeyMatchExact implements M9.
func (c *Ctx) checkKeyMatchExact() {
	r := c.R
	n := 0
	for _, fn := range c.G.Funcs() {
		rel, ok := c.P.PkgOf(fn)
		if !ok || rel != "hamt" || fn.Synthetic != "" || len(fn.Blocks) == 0 {
			continue
		}
		sig := fn.Signature
		if sig.Results().Len() != 1 || !isBasic(sig.Results().At(0).Type(), types.Bool) {
			continue
		}
		var keyP, padP *ssa.Parameter
		for _, p := range fn.Params {
			if isBasic(p.Type(), types.String) && keyP == nil {
				keyP = p
			}
			if isBasic(p.Type(), types.Int) && padP == nil {
				padP = p
			}
		}
		if keyP == nil || padP == nil {
			continue
		}
		// equality comparisons with the key
		for _, b := range fn.Blocks {
			for _, ins := range b.Instrs {
				bo, ok := ins.(*ssa.BinOp)
				if !ok || bo.Op != token.EQL {
					continue
				}
				var other ssa.Value
				switch {
				case bo.X == ssa.Value(keyP):
					other = bo.Y
				case bo.Y == ssa.Value(keyP):
					other = bo.X
				default:
					continue
				}
				sl, isSlice := other.(*ssa.Slice)
				if !isSlice {
					continue
				}
				n++
				key := core.FuncName(fn) + "/whole-name-after-prefix"
				good := sl.Low == ssa.Value(padP) && sl.High == nil
				r.Check(good, "M9", key, c.P.Pos(bo.Pos()), "the key is compared with name[pad:]", "the key is compared with a slice of the name that does not run from the hash prefix to the end of the name: a different key can match this entry")
			}
		}
		// suffix form: strings.HasSuffix(name, key) is exact only under len(name) == pad + len(key)
		for _, ci := range core.CallsIn(fn) {
			call, ok := ci.(*ssa.Call)
			if !ok || !core.IsCallTo(call, "strings", "HasSuffix") || len(call.Call.Args) != 2 || call.Call.Args[1] != ssa.Value(keyP) {
				continue
			}
			n++
			name := call.Call.Args[0]
			exact := core.GuardedBy(call.Block(), func(cond ssa.Value) (bool, bool) {
				bo, ok := cond.(*ssa.BinOp)
				if !ok || (bo.Op != token.EQL && bo.Op != token.NEQ) {
					return false, false
				}
				isLenName := func(v ssa.Value) bool {
					x, ok := lenOf(v)
					return ok && x == name
				}
				isPadPlusKey := func(v ssa.Value) bool {
					add, ok := v.(*ssa.BinOp)
					if !ok || add.Op != token.ADD {
						return false
					}
					lk := func(v ssa.Value) bool { x, ok := lenOf(v); return ok && x == ssa.Value(keyP) }
					return (add.X == ssa.Value(padP) && lk(add.Y)) || (add.Y == ssa.Value(padP) && lk(add.X))
				}
				if (isLenName(bo.X) && isPadPlusKey(bo.Y)) || (isLenName(bo.Y) && isPadPlusKey(bo.X)) {
					return bo.Op == token.EQL, true
				}
				return false, false
			})
			r.Check(exact, "M9", core.FuncName(fn)+"/suffix-match-exact-length", c.P.Pos(call.Pos()), "the suffix comparison runs under len(name) == pad + len(key)", "the key is compared as a suffix of the name without requiring len(name) == pad + len(key): a key matches every entry whose name ends with it")
		}
	}
	r.Floor("M9", n, 1)
}

// checkIteratorYieldsKey implements M10.
func (c *Ctx) checkIteratorYieldsKey() {
	r := c.R
	n := 0
	for _, fn := range c.G.Funcs() {
		rel, ok := c.P.PkgOf(fn)
		if !ok || !core.ReaderPkgs[rel] || fn.Synthetic != "" || !c.P.HandWritten(fn) || fn.Name() != "Next" || fn.Signature.Recv() == nil {
			continue
		}
		res := fn.Signature.Results()
		if res.Len() < 2 || !nilable(res.At(0).Type()) || !nilable(res.At(1).Type()) {
			continue
		}
		errIdx := core.ErrResultIndex(fn.Signature)
		if errIdx < 0 {
			continue
		}
		n++
		var bad []string
		complete := core.EnumPaths(fn, 2, 60000, func(path []*ssa.BasicBlock) {
			last := path[len(path)-1]
			if len(last.Instrs) == 0 {
				return
			}
			ret, ok := last.Instrs[len(last.Instrs)-1].(*ssa.Return)
			if !ok {
				return
			}
			rr := core.ResolvedResults(ret)
			if !core.IsNilConst(rr[0]) {
				return
			}
			ev := rr[errIdx]
			knownNil := core.IsNilConst(ev)
			for i := 0; i+1 < len(path); i++ {
				if cond, taken, ok := core.BranchTaken(path[i], path[i+1]); ok {
					if x, trueMeansNil, isNil := core.NilCmp(cond); isNil && x == ev && taken == trueMeansNil {
						knownNil = true
					}
				}
			}
			if knownNil {
				bad = append(bad, fmt.Sprintf("return at %s yields a nil key with a nil error", c.P.Pos(ret.Pos())))
			}
		})
		key := core.FuncName(fn) + "/yields-key"
		if !complete {
			r.Undecided("M10", key, c.P.Pos(fn.Pos()), "path enumeration exceeded its bound")
			continue
		}
		r.Check(len(bad) == 0, "M10", key, c.P.Pos(fn.Pos()), "every successful return carries a key", uniqJoin(bad))
	}
	r.Floor("M10", n, 1)
}

// checkFoundIffNonNil implements M11: a name lookup that searches a link list reports exactly what the search found.
// In every LookupByString of a reader-package node type, for each result of a repository search function that is tested
// against nil: on the nil edge every return carries a certainly non-nil error (not-found), on the non-nil edge every
// return carries that very result with a nil error. An inverted test answers not-found for members and hands a nil
// node with no error for everything else.
func (c *Ctx) checkFoundIffNonNil() {
	r := c.R
	r.Rule("M11", "found iff non-nil: in each LookupByString of a directory-like node, the nil edge of the test on the search result leads only to returns with a certainly non-nil error, and the non-nil edge only to returns of that result with a nil error; a freshly made ErrNoSuchField is returned only on the nil edge of a test of a search result (not-found only after the search)")
	n := 0
	for _, fn := range c.G.Funcs() {
		rel, ok := c.P.PkgOf(fn)
		if !ok || !core.ReaderPkgs[rel] || fn.Synthetic != "" || c.P.IsGenerated(fn.Pos()) || fn.Name() != "LookupByString" || fn.Signature.Recv() == nil {
			continue
		}
		errIdx := core.ErrResultIndex(fn.Signature)
		if errIdx != 1 {
			continue
		}
		ord := 0
		for _, b := range fn.Blocks {
			iff := core.BlockIf(b)
			if iff == nil {
				continue
			}
			x, trueMeansNil, ok := core.NilCmp(iff.Cond)
			if !ok || core.IsErrorType(x.Type()) {
				continue
			}
			// x: the (first) result of a repository function handed the key
			var src *ssa.Call
			switch v := x.(type) {
			case *ssa.Call:
				src = v
			case *ssa.Extract:
				src, _ = v.Tuple.(*ssa.Call)
			}
			if src == nil || src.Call.StaticCallee() == nil {
				continue
			}
			if _, isRepo := c.P.PkgOf(src.Call.StaticCallee()); !isRepo {
				continue
			}
			ord++
			n++
			key := fmt.Sprintf("%s/found-iff-non-nil#%d", core.FuncName(fn), ord)
			nilSucc, setSucc := b.Succs[0], b.Succs[1]
			if !trueMeansNil {
				nilSucc, setSucc = setSucc, nilSucc
			}
			var bad []string
			core.EnumPathsFrom(nilSucc, 1, 5000, func(path []*ssa.BasicBlock) {
				last := path[len(path)-1]
				if ret, ok := last.Instrs[len(last.Instrs)-1].(*ssa.Return); ok {
					if !core.ErrKnownNonNil(core.ResolvedResults(ret)[errIdx], nil) {
						bad = append(bad, fmt.Sprintf("return at %s: nothing was found, yet the error is not certainly non-nil", c.P.Pos(ret.Pos())))
					}
				}
			})
			core.EnumPathsFrom(setSucc, 1, 5000, func(path []*ssa.BasicBlock) {
				last := path[len(path)-1]
				if ret, ok := last.Instrs[len(last.Instrs)-1].(*ssa.Return); ok {
					rr := core.ResolvedResults(ret)
					v := rr[0]
					for i := 0; i < 3; i++ {
						switch y := v.(type) {
						case *ssa.MakeInterface:
							v = y.X
						case *ssa.ChangeInterface:
							v = y.X
						}
					}
					if !core.IsNilConst(rr[errIdx]) || v != x {
						bad = append(bad, fmt.Sprintf("return at %s: an entry was found, yet it is not returned with a nil error", c.P.Pos(ret.Pos())))
					}
				}
			})
			r.Check(len(bad) == 0, "M11", key, c.P.Pos(iff.Cond.Pos()), "not-found exactly when the search result is nil", uniqJoin(bad))
		}
		// every return that hands out the result of a repository search function with a nil error lies on the non-nil edge of
		// a test of that result (a deleted or bypassed test answers (nil, nil) for a name that is not there)
		for _, ret := range core.Returns(fn) {
			rr := core.ResolvedResults(ret)
			if !core.IsNilConst(rr[errIdx]) {
				continue
			}
			v := rr[0]
			for i := 0; i < 3; i++ {
				switch y := v.(type) {
				case *ssa.MakeInterface:
					v = y.X
				case *ssa.ChangeInterface:
					v = y.X
				}
			}
			var src *ssa.Call
			switch y := v.(type) {
			case *ssa.Call:
				src = y
			case *ssa.Extract:
				src, _ = y.Tuple.(*ssa.Call)
			}
			if src == nil || src.Call.StaticCallee() == nil || !nilable(v.Type()) {
				continue
			}
			if _, isRepo := c.P.PkgOf(src.Call.StaticCallee()); !isRepo {
				continue
			}
			if core.ErrResultIndex(src.Call.Signature()) >= 0 {
				continue // (value, error) results are judged by the error
			}
			ord++
			n++
			guarded := core.GuardedBy(ret.Block(), func(cond ssa.Value) (bool, bool) {
				x, trueMeansNil, ok := core.NilCmp(cond)
				if !ok || x != v {
					return false, false
				}
				return !trueMeansNil, true
			})
			r.Check(guarded, "M11", fmt.Sprintf("%s/result-returned-when-found#%d", core.FuncName(fn), ord), c.P.Pos(ret.Pos()), "the search result is returned only where it was tested non-nil", "the search result is returned with a nil error without having been tested: a name that is not there answers (nil, nil) instead of not-found")
		}
		// not-found is answered only after the search: every return of a freshly made ErrNoSuchField lies on the nil edge of a
		// test of a repository search result (a key refused before the search is a key the iterator may still yield)
		for _, ret := range core.Returns(fn) {
			rr := core.ResolvedResults(ret)
			mi, ok := rr[errIdx].(*ssa.MakeInterface)
			if !ok {
				continue
			}
			nt, ok := mi.X.Type().(*types.Named)
			if !ok || nt.Obj().Name() != "ErrNoSuchField" {
				continue
			}
			ord++
			n++
			searched := core.GuardedBy(ret.Block(), func(cond ssa.Value) (bool, bool) {
				x, trueMeansNil, ok := core.NilCmp(cond)
				if !ok || core.IsErrorType(x.Type()) {
					return false, false
				}
				var src *ssa.Call
				switch v := x.(type) {
				case *ssa.Call:
					src = v
				case *ssa.Extract:
					src, _ = v.Tuple.(*ssa.Call)
				}
				if src == nil || src.Call.StaticCallee() == nil {
					return false, false
				}
				if _, isRepo := c.P.PkgOf(src.Call.StaticCallee()); !isRepo {
					return false, false
				}
				return trueMeansNil, true
			})
			r.Check(searched, "M11", fmt.Sprintf("%s/not-found-only-after-search#%d", core.FuncName(fn), ord), c.P.Pos(ret.Pos()), "not-found is answered only where the search came back empty", "not-found is answered without searching the links: a key the iterator can yield (any link name, the empty one included) is refused by this entry point while the native Lookup still finds it")
		}
	}
	r.Floor("M11", n, 2)
}

// derivesFromLinkName: v is (on some phi edge / through String()) the value of <link>.Name.Must().
func (c *Ctx) derivesFromLinkName(v ssa.Value, depth int, seen map[ssa.Value]bool) bool {
	if v == nil || depth > 8 || seen[v] {
		return false
	}
	seen[v] = true
	if strings.Contains(c.accessPath(v, 0), "Name.Must()") {
		return true
	}
	switch x := v.(type) {
	case *ssa.Phi:
		for _, e := range x.Edges {
			if c.derivesFromLinkName(e, depth+1, seen) {
				return true
			}
		}
	case *ssa.Call:
		for _, a := range x.Call.Args {
			if c.derivesFromLinkName(a, depth+1, seen) {
				return true
			}
		}
		if x.Call.IsInvoke() {
			return c.derivesFromLinkName(x.Call.Value, depth+1, seen)
		}
		// a repository helper that returns the link's name (linkName(link))
		if h := x.Call.StaticCallee(); h != nil && len(h.Blocks) > 0 {
			if _, isRepo := c.P.PkgOf(h); isRepo {
				for _, ret := range core.Returns(h) {
					for _, rv := range core.ResolvedResults(ret) {
						if c.derivesFromLinkName(rv, depth+1, seen) {
							return true
						}
					}
				}
			}
		}
	case *ssa.Extract:
		return c.derivesFromLinkName(x.Tuple, depth+1, seen)
	case *ssa.UnOp:
		if al, ok := x.X.(*ssa.Alloc); ok && x.Op == token.MUL {
			for _, ref := range *al.Referrers() {
				if st, ok := ref.(*ssa.Store); ok && st.Addr == ssa.Value(al) && c.derivesFromLinkName(st.Val, depth+1, seen) {
					return true
				}
			}
		}
	case *ssa.Convert:
		return c.derivesFromLinkName(x.X, depth+1, seen)
	case *ssa.ChangeType:
		return c.derivesFromLinkName(x.X, depth+1, seen)
	}
	return false
}
