package rules

import (
	"fmt"
	"go/constant"
	"go/token"
	"go/types"
	"strings"

	"golang.org/x/tools/go/ssa"

	"verifchk/internal/core"
)

func init() { Registry["C18"] = c18 }

func isOSCall(ci ssa.CallInstruction, name string) bool { return core.IsCallTo(ci, "os", name) }

// fileModeMethod decodes m.IsDir()/m.IsRegular()/m.Type() on an fs.FileMode value.
func fileModeMethod(v ssa.Value) (string, ssa.Value) {
	call, ok := v.(*ssa.Call)
	if !ok {
		return "", nil
	}
	f := call.Call.StaticCallee()
	if f == nil || f.Signature.Recv() == nil || f.Pkg == nil || f.Pkg.Pkg.Path() != "io/fs" {
		return "", nil
	}
	return f.Name(), call.Call.Args[0]
}

func c18(c *Ctx) {
	r := c.R
	r.Explain = "C18 (importing a filesystem tree): decides on the recursive importer (the exported builder that calls os.ReadDir) that (R18.1) the file mode it dispatches on comes from os.Lstat and os.Stat is never called, so symbolic links are seen as links; (R18.2) the dispatch has a directory, a symlink and a regular-file arm and a remaining arm that returns an error with no link; the symlink arm hands os.Readlink's text to the symlink builder and opens nothing, the regular arm hands the opened file to the file builder; (R18.3) in the directory arm every entry returned by os.ReadDir, on every path that continues the loop, is imported recursively under join(root, e.Name()), wrapped into a link named e.Name() whose target and size are that recursive result, and appended — no filter, no skip; (R18.4) the collected links go to the directory builder that chooses between plain and sharded form. Not decided: equality of a read-back with the filesystem."
	r.Rule("R18.1", "the FileMode driving the dispatch is Mode() of the FileInfo returned by os.Lstat on the root parameter; os.Stat is not called anywhere in the importer")
	r.Rule("R18.6", "the builders the arms hand to can store what they build: codec agreement at every store site (same check as R16.7) — an empty file stored under the dag-pb prototype makes the import of a valid tree fail")
	r.Rule("R18.7", "the link constructor stores the name it is given: the string parameter of the directory-entry constructor reaches AssignString unmodified (no sanitising, case folding or trimming inside the constructor — the importer hands it e.Name())")
	r.Rule("R18.8", "a directory is refused as \"too deep\" only when the name hashes really run out of bits: the test that guards the bit slice of the sharded-directory builder rejects exactly offset+width > 8*len(hash) (an off-by-one refuses a valid directory whose names share all but the last hash byte)")
	r.Rule("R18.2", "the dispatch tests IsDir(), Type()==ModeSymlink and IsRegular(); the path where all are false returns (nil link, non-nil error); symlink arm: os.Readlink(root) → symlink builder, no os.Open/ReadFile; regular arm: os.Open(root) → file builder")
	r.Rule("R18.3", "directory arm: range over os.ReadDir(root)'s entries; every cycle of the loop passes the recursive import of path.Join(root, e.Name()), the link constructor named e.Name() with that result's link and size, and the append to the list that is built")
	r.Rule("R18.5", "the importer and the builders it calls keep no state between imports: no package-level variable of the builder packages is written outside package initialisation (every import writes all of its blocks to the store it was given)")
	r.Rule("R18.4", "the list built from all entries is handed to a directory builder that branches on an estimated size between the plain and the sharded form")

	var imp *ssa.Function
	for _, fn := range c.G.Funcs() {
		rel, ok := c.P.PkgOf(fn)
		if !ok || !core.BuilderPkgs[rel] || fn.Object() == nil || !fn.Object().Exported() {
			continue
		}
		for _, ci := range core.CallsIn(fn) {
			if isOSCall(ci, "Lstat") || isOSCall(ci, "Stat") || isOSCall(ci, "ReadDir") {
				imp = fn
			}
		}
	}
	if imp == nil {
		r.Break("no exported builder inspects the filesystem (os.Lstat/Stat/ReadDir): recursive importer not found")
		return
	}
	r.Floor("R18/importer", 1, 1)
	name := core.FuncName(imp)
	pos := c.P.Pos(imp.Pos())
	root := imp.Params[0]
	L, _ := c.loadCarrying(core.BuilderPkgs, core.StoreSites)

	// ---- R18.1
	var lstat *ssa.Call
	var stats []string
	for _, ci := range core.CallsIn(imp) {
		if isOSCall(ci, "Lstat") {
			lstat, _ = ci.(*ssa.Call)
		}
		if isOSCall(ci, "Stat") {
			stats = append(stats, c.P.Pos(ci.Pos()))
		}
	}
	var mode ssa.Value
	for _, ci := range core.CallsIn(imp) {
		call, ok := ci.(*ssa.Call)
		if !ok || !call.Call.IsInvoke() || call.Call.Method.Name() != "Mode" {
			continue
		}
		if ex, ok := call.Call.Value.(*ssa.Extract); ok && lstat != nil && ex.Tuple == ssa.Value(lstat) {
			mode = call
		}
	}
	var bad []string
	if lstat == nil {
		bad = append(bad, "os.Lstat is not called")
	} else if lstat.Call.Args[0] != ssa.Value(root) {
		bad = append(bad, "os.Lstat is applied to something other than the root parameter")
	}
	if mode == nil {
		bad = append(bad, "the dispatch mode is not Mode() of os.Lstat's result")
	}
	if len(stats) > 0 {
		bad = append(bad, "os.Stat (follows symbolic links) is called at "+strings.Join(stats, ", "))
	}
	r.Check(len(bad) == 0, "R18.1", name+"/lstat", pos, "dispatches on os.Lstat(root).Mode(); os.Stat never called", strings.Join(bad, "; "))
	if mode == nil {
		return
	}

	// ---- R18.2: arms
	arms := map[string]*ssa.BasicBlock{}
	var lastFalse *ssa.BasicBlock
	for _, b := range imp.Blocks {
		iff := core.BlockIf(b)
		if iff == nil {
			continue
		}
		switch {
		case func() bool { m, v := fileModeMethod(iff.Cond); return m == "IsDir" && v == mode }():
			arms["dir"] = b.Succs[0]
		case func() bool { m, v := fileModeMethod(iff.Cond); return m == "IsRegular" && v == mode }():
			arms["regular"] = b.Succs[0]
			lastFalse = b.Succs[1]
		default:
			// m&fs.ModeSymlink != 0
			if bo, ok := iff.Cond.(*ssa.BinOp); ok && bo.Op == token.NEQ {
				if and, ok := bo.X.(*ssa.BinOp); ok && and.Op == token.AND && and.X == mode {
					if k, ok := and.Y.(*ssa.Const); ok && k.Value != nil {
						if kv, ok := constant.Uint64Val(k.Value); ok && kv == 1<<27 {
							if z, ok := core.ConstInt(bo.Y); ok && z == 0 {
								arms["symlink"] = b.Succs[0]
							}
						}
					}
				}
			}
			if bo, ok := iff.Cond.(*ssa.BinOp); ok && bo.Op == token.EQL {
				if m, v := fileModeMethod(bo.X); m == "Type" && v == mode {
					if k, ok := bo.Y.(*ssa.Const); ok && k.Value != nil {
						if kv, ok := constant.Uint64Val(k.Value); ok && kv == 1<<27 { // fs.ModeSymlink
							arms["symlink"] = b.Succs[0]
						}
					}
				}
			}
		}
	}
	for _, a := range []string{"dir", "symlink", "regular"} {
		r.Check(arms[a] != nil, "R18.2", name+"/arm:"+a, pos, "dispatch has a "+a+" arm", "the dispatch has no "+a+" arm")
	}
	// default arm
	errIdx := core.ErrResultIndex(imp.Signature)
	li := linkResultIndex(imp.Signature)
	defOK := false
	if lastFalse != nil {
		defOK = true
		n := 0
		for _, ret := range core.Returns(imp) {
			if lastFalse == ret.Block() || lastFalse.Dominates(ret.Block()) {
				n++
				rr := core.ResolvedResults(ret)
				if core.IsNilConst(rr[errIdx]) || !core.IsNilConst(rr[li]) {
					defOK = false
				}
			}
		}
		if n == 0 {
			defOK = false
		}
	}
	r.Check(defOK, "R18.2", name+"/arm:other", pos, "any other kind of file is rejected with an error and no link", "a file that is neither directory, symlink nor regular is not rejected with an error")
	// symlink arm content (the arm itself, or the unexported helper it delegates to with the root path)
	if b := arms["symlink"]; b != nil {
		var bad2 []string
		found := false
		for _, body := range c.armBodies(imp, b, root) {
			var rl *ssa.Call
			for rb := range body.blocks {
				for _, ins := range rb.Instrs {
					ci, ok := ins.(ssa.CallInstruction)
					if !ok {
						continue
					}
					if isOSCall(ci, "Readlink") {
						rl, _ = ci.(*ssa.Call)
					}
					for _, f := range []string{"Open", "OpenFile", "ReadFile", "Stat"} {
						if isOSCall(ci, f) {
							bad2 = append(bad2, "os."+f+" in the symlink arm (the link would be followed)")
						}
					}
				}
			}
			if rl == nil || rl.Call.Args[0] != body.root {
				continue
			}
			found = true
			if rl.Block() != body.entry {
				bad2 = append(bad2, "the symlink arm is subject to a further condition before os.Readlink")
			}
			target := extractOf(rl, 0)
			passed := false
			for rb := range body.blocks {
				for _, ins := range rb.Instrs {
					if call, ok := ins.(*ssa.Call); ok && call.Call.StaticCallee() != nil && L[call.Call.StaticCallee()] {
						for _, a := range call.Call.Args {
							if a == target {
								passed = true
							}
						}
					}
				}
			}
			if !passed {
				bad2 = append(bad2, "the link text is not handed to a storing builder")
			}
			// inside the symlink builder the text reaches the node's Data member unmodified
			for rb := range body.blocks {
				for _, ins := range rb.Instrs {
					call, ok := ins.(*ssa.Call)
					if !ok || call.Call.StaticCallee() == nil || !L[call.Call.StaticCallee()] {
						continue
					}
					for i, a := range call.Call.Args {
						if a != target {
							continue
						}
						if why := c.textStoredVerbatim(call.Call.StaticCallee(), i); why != "" {
							bad2 = append(bad2, why)
						}
					}
				}
			}
		}
		if !found {
			bad2 = append(bad2, "os.Readlink(root) is not called")
		}
		r.Check(len(bad2) == 0, "R18.2", name+"/symlink-arm", c.P.Pos(firstPos(b)), "stores os.Readlink(root)'s text through the symlink builder and opens nothing", uniqJoin(bad2))
	}
	if b := arms["regular"]; b != nil {
		okOpen := false
		for _, body := range c.armBodies(imp, b, root) {
			for rb := range body.blocks {
				for _, ins := range rb.Instrs {
					ci, ok := ins.(ssa.CallInstruction)
					if !ok || !isOSCall(ci, "Open") || ci.Common().Args[0] != body.root {
						continue
					}
					fp := extractOf(ci.(*ssa.Call), 0)
					// the file value itself, or its reloads when it lives in a cell (a deferred closure captures it)
					vals := []ssa.Value{fp}
					for _, ref := range *fp.Referrers() {
						if st, ok := ref.(*ssa.Store); ok && st.Val == ssa.Value(fp) {
							if al, ok := st.Addr.(*ssa.Alloc); ok {
								for _, r2 := range *al.Referrers() {
									if u, ok := r2.(*ssa.UnOp); ok && u.Op == token.MUL {
										vals = append(vals, u)
									}
								}
							}
						}
					}
					for _, fv := range vals {
						for _, ref := range *fv.Referrers() {
							if mi, ok := ref.(*ssa.MakeInterface); ok {
								for _, r2 := range *mi.Referrers() {
									if call, ok := r2.(*ssa.Call); ok && call.Call.StaticCallee() != nil && L[call.Call.StaticCallee()] {
										okOpen = true
									}
								}
							}
						}
					}
				}
			}
		}
		r.Check(okOpen, "R18.2", name+"/regular-arm", c.P.Pos(firstPos(b)), "opens root and hands the file to the file builder", "the regular-file arm does not hand os.Open(root) to a storing file builder")
	}

	c.checkNoBuilderGlobals("R18.5")
	c.checkStoreCodec("R18.6")
	c.checkEntryNameVerbatim()
	c.checkDepthBoundExact()
	// ---- R18.3
	if b := arms["dir"]; b != nil {
		done := false
		for _, body := range c.armBodies(imp, b, root) {
			for rb := range body.blocks {
				for _, ins := range rb.Instrs {
					if ci, ok := ins.(ssa.CallInstruction); ok && isOSCall(ci, "ReadDir") && !done {
						done = true
						c.checkImportLoop(imp, body, L)
					}
				}
			}
		}
		if !done {
			r.Violate("R18.3", name+"/entries-loop", c.P.Pos(firstPos(b)), "the directory arm does not list root with os.ReadDir")
		}
	}
}

func (c *Ctx) checkImportLoop(imp *ssa.Function, body armBody, L map[*ssa.Function]bool) {
	r := c.R
	name := core.FuncName(imp)
	region := body.blocks
	arm := body.entry
	root := body.root
	fnBody := body.fn
	var rd *ssa.Call
	for rb := range region {
		for _, ins := range rb.Instrs {
			if ci, ok := ins.(ssa.CallInstruction); ok && isOSCall(ci, "ReadDir") {
				rd, _ = ci.(*ssa.Call)
			}
		}
	}
	if rd == nil || rd.Call.Args[0] != root {
		r.Violate("R18.3", name+"/entries-loop", c.P.Pos(firstPos(arm)), "the directory arm does not list root with os.ReadDir")
		return
	}
	entries := extractOf(rd, 0)
	var loop *loopInfo
	for _, li := range rangeLoops(fnBody) {
		if li.kind == "slice" && li.rng == entries {
			l := li
			loop = &l
		}
	}
	if loop == nil {
		r.Violate("R18.3", name+"/entries-loop", c.P.Pos(rd.Pos()), "no range loop over os.ReadDir's entries")
		return
	}
	pos := c.P.Pos(firstPos(loop.header))
	// element e
	var elem ssa.Value
	for b := range loop.body {
		for _, ins := range b.Instrs {
			if u, ok := ins.(*ssa.UnOp); ok && u.Op == token.MUL {
				if ia, ok := u.X.(*ssa.IndexAddr); ok && ia.X == entries {
					elem = u
				}
			}
		}
	}
	isElemName := func(v ssa.Value) bool {
		call, ok := v.(*ssa.Call)
		if !ok || !call.Call.IsInvoke() || call.Call.Method.Name() != "Name" {
			return false
		}
		return call.Call.Value == elem
	}
	var rec, ctor, app *ssa.Call
	for b := range loop.body {
		for _, ins := range b.Instrs {
			call, ok := ins.(*ssa.Call)
			if !ok {
				continue
			}
			if call.Call.StaticCallee() == imp || call.Call.StaticCallee() == fnBody {
				// path.Join(root, e.Name())
				if jc, ok := call.Call.Args[0].(*ssa.Call); ok && (core.IsCallTo(jc, "path", "Join") || core.IsCallTo(jc, "path/filepath", "Join")) {
					va := core.VariadicArgs(jc.Call.Args[0])
					hasRoot, hasName := false, false
					for _, a := range va {
						if a == root {
							hasRoot = true
						}
						if isElemName(a) {
							hasName = true
						}
					}
					if hasRoot && hasName && len(va) == 2 {
						rec = call
					}
				}
			}
			if isEntryCtor(call.Call.StaticCallee()) && rec != nil {
				if isElemName(call.Call.Args[0]) && c.baseOf(call.Call.Args[2], 0) == ssa.Value(rec) && c.baseOf(call.Call.Args[1], 0) == ssa.Value(rec) {
					ctor = call
				}
			}
		}
	}
	// second pass for ctor in case block order hid it
	if rec != nil && ctor == nil {
		for b := range loop.body {
			for _, ins := range b.Instrs {
				if call, ok := ins.(*ssa.Call); ok && isEntryCtor(call.Call.StaticCallee()) {
					if isElemName(call.Call.Args[0]) && c.baseOf(call.Call.Args[2], 0) == ssa.Value(rec) && c.baseOf(call.Call.Args[1], 0) == ssa.Value(rec) {
						ctor = call
					}
				}
			}
		}
	}
	var listPhi *ssa.Phi
	if ctor != nil {
		entryV := extractOf(ctor, 0)
		for b := range loop.body {
			for _, ins := range b.Instrs {
				call, ok := ins.(*ssa.Call)
				if !ok {
					continue
				}
				if bi, ok := call.Call.Value.(*ssa.Builtin); ok && bi.Name() == "append" {
					for _, a := range core.VariadicArgs(call.Call.Args[1]) {
						if a == entryV {
							app = call
							listPhi, _ = call.Call.Args[0].(*ssa.Phi)
						}
					}
				}
			}
		}
	}
	var bad []string
	if rec == nil {
		bad = append(bad, "entries are not imported recursively under path.Join(root, e.Name())")
	}
	if ctor == nil {
		bad = append(bad, "no link named e.Name() is built from the recursive result's link and size")
	}
	if app == nil {
		bad = append(bad, "the link is not appended to the list")
	}
	if rec != nil && ctor != nil && app != nil {
		for what, call := range map[string]*ssa.Call{"the recursive import": rec, "the link construction": ctor, "the append": app} {
			cl := call
			if !everyCyclePasses(loop.header, loop.body, func(ins ssa.Instruction) bool { return ins == ssa.Instruction(cl) }) {
				bad = append(bad, "some entry continues the loop without "+what+" (entries are filtered or skipped)")
			}
		}
	}
	r.Check(len(bad) == 0, "R18.3", name+"/entries-loop", pos, "every os.ReadDir entry is imported under join(root, name), linked under its name with the recursive result and appended", uniqJoin(bad))

	// ---- R18.4
	if listPhi != nil {
		key := name + "/directory-builder"
		var sink *ssa.Call
		for _, ref := range *listPhi.Referrers() {
			if call, ok := ref.(*ssa.Call); ok && !loop.body[call.Block()] && call.Call.StaticCallee() != nil && L[call.Call.StaticCallee()] {
				sink = call
			}
		}
		if sink == nil {
			r.Violate("R18.4", key, pos, "the list of links is not handed to a storing directory builder")
			return
		}
		d := sink.Call.StaticCallee()
		// auto-selecting: a branch on a comparison with a constant threshold that forwards the entries to another storing builder
		auto := false
		for _, ci := range core.CallsIn(d) {
			call, ok := ci.(*ssa.Call)
			if !ok || call.Call.StaticCallee() == nil || !L[call.Call.StaticCallee()] || call.Call.StaticCallee() == d {
				continue
			}
			forwards := false
			for _, a := range call.Call.Args {
				if a == ssa.Value(d.Params[0]) {
					forwards = true
				}
			}
			if !forwards {
				continue
			}
			if core.GuardedBy(call.Block(), func(cond ssa.Value) (bool, bool) {
				bo, ok := cond.(*ssa.BinOp)
				if !ok {
					return false, false
				}
				if _, isC := core.ConstInt(bo.Y); !isC {
					return false, false
				}
				switch bo.Op {
				case token.GTR, token.GEQ:
					return true, true
				}
				return false, false
			}) {
				auto = true
			}
		}
		r.Check(auto, "R18.4", key, c.P.Pos(sink.Pos()), "links go to "+d.Name()+", which switches to the sharded form above a size threshold", d.Name()+" does not choose between plain and sharded form by size")
	}
	_ = fmt.Sprint
	_ = types.Typ
}

// armBody is the code executed by one arm of the importer's dispatch: the blocks the arm dominates in the importer, and the
// whole body of every unexported builder helper the arm calls with the root path (root is then that helper's parameter).
type armBody struct {
	fn     *ssa.Function
	entry  *ssa.BasicBlock
	blocks map[*ssa.BasicBlock]bool
	root   ssa.Value
}

func (c *Ctx) armBodies(imp *ssa.Function, arm *ssa.BasicBlock, root ssa.Value) []armBody {
	out := []armBody{{fn: imp, entry: arm, blocks: dominatedRegion(arm), root: root}}
	for rb := range out[0].blocks {
		for _, ins := range rb.Instrs {
			call, ok := ins.(*ssa.Call)
			if !ok {
				continue
			}
			h := call.Call.StaticCallee()
			if h == nil || h == imp || len(h.Blocks) == 0 {
				continue
			}
			if rel, ok := c.P.PkgOf(h); !ok || !core.BuilderPkgs[rel] || (h.Object() != nil && h.Object().Exported()) {
				continue
			}
			for i, a := range call.Call.Args {
				if a == root && i < len(h.Params) && call.Block() == arm {
					blocks := map[*ssa.BasicBlock]bool{}
					for _, b := range h.Blocks {
						blocks[b] = true
					}
					out = append(out, armBody{fn: h, entry: h.Blocks[0], blocks: blocks, root: h.Params[i]})
				}
			}
		}
	}
	return out
}

// textStoredVerbatim: in storing builder S the string parameter idx is written into the UnixFS Data member as
// []byte(param), with no call in between (no cleaning, trimming or separator translation). Returns "" when that holds.
func (c *Ctx) textStoredVerbatim(S *ssa.Function, idx int) string {
	if idx >= len(S.Params) || len(S.Blocks) == 0 {
		return ""
	}
	p := S.Params[idx]
	isDataSetter := func(f *ssa.Function) bool {
		if f == nil || len(f.Blocks) == 0 {
			return false
		}
		if rel, ok := c.P.PkgOf(f); !ok || rel != "data/builder" {
			return false
		}
		for _, ci := range core.CallsIn(f) {
			if call, ok := ci.(*ssa.Call); ok && core.IsCallTo(call, qpPath, "MapEntry") && len(call.Call.Args) >= 2 {
				if k, isC := call.Call.Args[1].(*ssa.Const); isC && k.Value != nil && k.Value.Kind() == constant.String && constant.StringVal(k.Value) == "Data" {
					return true
				}
			}
		}
		return false
	}
	var rootParam func(fn *ssa.Function, v ssa.Value, d int) (*ssa.Parameter, bool)
	cellParam := func(cell ssa.Value) *ssa.Parameter {
		al, ok := cell.(*ssa.Alloc)
		if !ok {
			return nil
		}
		var src ssa.Value
		n := 0
		for _, ref := range *al.Referrers() {
			if st, ok := ref.(*ssa.Store); ok && st.Addr == ssa.Value(al) {
				n++
				src = st.Val
			}
		}
		if n != 1 {
			return nil
		}
		pp, _ := src.(*ssa.Parameter)
		return pp
	}
	// returns (parameter the value is a verbatim copy of, whether a call transformed it on the way)
	rootParam = func(fn *ssa.Function, v ssa.Value, d int) (*ssa.Parameter, bool) {
		for i := 0; i < 8; i++ {
			switch x := v.(type) {
			case *ssa.Parameter:
				return x, false
			case *ssa.Convert:
				v = x.X
			case *ssa.ChangeType:
				v = x.X
			case *ssa.UnOp:
				if x.Op != token.MUL {
					return nil, false
				}
				if fv, isFV := x.X.(*ssa.FreeVar); isFV && fn.Parent() != nil {
					for _, b := range fn.Parent().Blocks {
						for _, ins := range b.Instrs {
							if mc, ok := ins.(*ssa.MakeClosure); ok && mc.Fn == ssa.Value(fn) {
								for bi, fvv := range fn.FreeVars {
									if fvv == fv && bi < len(mc.Bindings) {
										if pp := cellParam(mc.Bindings[bi]); pp != nil {
											return pp, false
										}
									}
								}
							}
						}
					}
					return nil, false
				}
				if pp := cellParam(x.X); pp != nil {
					return pp, false
				}
				return nil, false
			case *ssa.Call:
				// a transformation: does it take the parameter?
				for _, a := range x.Call.Args {
					if pp, _ := rootParam(fn, a, d+1); pp != nil && d < 3 {
						return pp, true
					}
				}
				return nil, false
			default:
				return nil, false
			}
		}
		return nil, false
	}
	fns := append([]*ssa.Function{S}, S.AnonFuncs...)
	n := 0
	for _, fn := range fns {
		for _, ci := range core.CallsIn(fn) {
			call, ok := ci.(*ssa.Call)
			if !ok || !isDataSetter(call.Call.StaticCallee()) || len(call.Call.Args) < 2 {
				continue
			}
			pp, transformed := rootParam(fn, call.Call.Args[len(call.Call.Args)-1], 0)
			if pp != p {
				continue
			}
			n++
			if transformed {
				return "the symlink builder " + core.FuncName(S) + " transforms the link text before storing it (at " + c.P.Pos(call.Pos()) + "): the stored target differs from what os.Readlink returned"
			}
		}
	}
	if n == 0 {
		return "the symlink builder " + core.FuncName(S) + " does not store its text parameter verbatim into the Data member"
	}
	return ""
}

// checkEntryNameVerbatim implements R18.7.
func (c *Ctx) checkEntryNameVerbatim() {
	r := c.R
	n := 0
	for _, fn := range c.G.Funcs() {
		if !isEntryCtor(fn) || len(fn.Blocks) == 0 {
			continue
		}
		var nameP *ssa.Parameter
		for _, p := range fn.Params {
			if isBasic(p.Type(), types.String) {
				nameP = p
				break
			}
		}
		if nameP == nil {
			continue
		}
		n++
		key := core.FuncName(fn) + "/name-verbatim"
		verbatim, transformed := 0, ""
		var derives func(v ssa.Value, d int) (fromParam bool, viaCall bool)
		derives = func(v ssa.Value, d int) (bool, bool) {
			if d > 6 || v == nil {
				return false, false
			}
			switch x := v.(type) {
			case *ssa.Parameter:
				return x == nameP, false
			case *ssa.Convert:
				return derives(x.X, d+1)
			case *ssa.Phi:
				fp, vc := false, false
				for _, e := range x.Edges {
					a, b := derives(e, d+1)
					fp = fp || a
					vc = vc || b
				}
				return fp, vc
			case *ssa.Call:
				for _, a := range x.Call.Args {
					if fp, _ := derives(a, d+1); fp {
						return true, true
					}
				}
			case *ssa.UnOp:
				// a local cell the parameter was copied / reassigned into
				if al, ok := x.X.(*ssa.Alloc); ok {
					fp, vc := false, false
					for _, ref := range *al.Referrers() {
						if st, ok := ref.(*ssa.Store); ok && st.Addr == ssa.Value(al) {
							a, b := derives(st.Val, d+1)
							fp = fp || a
							vc = vc || b
						}
					}
					return fp, vc
				}
			}
			return false, false
		}
		for _, ci := range core.CallsIn(fn) {
			call, ok := ci.(*ssa.Call)
			if !ok {
				continue
			}
			name, _ := methodCall(call)
			if name != "AssignString" || len(call.Call.Args) == 0 {
				continue
			}
			arg := call.Call.Args[len(call.Call.Args)-1]
			fp, vc := derives(arg, 0)
			if !fp {
				continue
			}
			if vc {
				transformed = c.P.Pos(call.Pos())
			} else {
				verbatim++
			}
		}
		switch {
		case transformed != "":
			r.Violate("R18.7", key, c.P.Pos(fn.Pos()), "the name is passed through a function before it is stored (at "+transformed+"): entries are listed under names that differ from the on-disk ones")
		case verbatim == 0:
			r.Violate("R18.7", key, c.P.Pos(fn.Pos()), "the name parameter never reaches AssignString")
		default:
			r.OK("R18.7", key, c.P.Pos(fn.Pos()), "the name parameter is stored as given")
		}
	}
	r.Floor("R18.7", n, 1)
}

// checkDepthBoundExact implements R18.8.
func (c *Ctx) checkDepthBoundExact() {
	r := c.R
	n := 0
	for _, fn := range c.G.Funcs() {
		rel, ok := c.P.PkgOf(fn)
		if !ok || rel != "data/builder" || fn.Synthetic != "" || core.ErrResultIndex(fn.Signature) < 0 {
			continue
		}
		for _, b := range fn.Blocks {
			iff := core.BlockIf(b)
			if iff == nil {
				continue
			}
			bo, ok := iff.Cond.(*ssa.BinOp)
			if !ok {
				continue
			}
			isBits := func(v ssa.Value) bool {
				m, ok := core.Unconv(v).(*ssa.BinOp)
				if !ok || m.Op != token.MUL {
					return false
				}
				_, l1 := lenOf(m.X)
				_, l2 := lenOf(m.Y)
				k1, c1 := core.ConstInt(m.Y)
				k2, c2 := core.ConstInt(m.X)
				return (l1 && c1 && k1 == 8) || (l2 && c2 && k2 == 8)
			}
			isSum := func(v ssa.Value) bool {
				a, ok := core.Unconv(v).(*ssa.BinOp)
				if !ok || a.Op != token.ADD {
					return false
				}
				_, p1 := a.X.(*ssa.Parameter)
				_, p2 := a.Y.(*ssa.Parameter)
				return p1 && p2
			}
			var op token.Token
			switch {
			case isSum(bo.X) && isBits(bo.Y):
				op = bo.Op
			case isBits(bo.X) && isSum(bo.Y):
				switch bo.Op {
				case token.LSS:
					op = token.GTR
				case token.GTR:
					op = token.LSS
				case token.LEQ:
					op = token.GEQ
				case token.GEQ:
					op = token.LEQ
				default:
					op = bo.Op
				}
			default:
				continue
			}
			n++
			key := core.FuncName(fn) + "/bit-budget-exact"
			// which edge is the rejection?
			rejectOnTrue := false
			if t := b.Succs[0]; len(t.Instrs) > 0 {
				if ret, ok := t.Instrs[len(t.Instrs)-1].(*ssa.Return); ok && !core.IsNilConst(core.ResolvedResults(ret)[core.ErrResultIndex(fn.Signature)]) {
					rejectOnTrue = true
				}
			}
			exact := (rejectOnTrue && op == token.GTR) || (!rejectOnTrue && op == token.LEQ)
			r.Check(exact, "R18.8", key, c.P.Pos(bo.Pos()), "rejects exactly offset+width > 8*len(hash)", fmt.Sprintf("the bit-budget test uses %s on offset+width vs 8*len(hash): a request that exactly exhausts the hash is refused (or an over-long one accepted)", op))
		}
	}
	// by role: a method on a byte-slice type taking (offset, width int) and returning (int, error) is the hash-bit slicer;
	// it must contain the budget test at all
	for _, fn := range c.G.Funcs() {
		rel, ok := c.P.PkgOf(fn)
		if !ok || rel != "data/builder" || fn.Synthetic != "" || fn.Signature.Recv() == nil || len(fn.Blocks) == 0 {
			continue
		}
		sl, isSlice := fn.Signature.Recv().Type().Underlying().(*types.Slice)
		if !isSlice || !isBasic(sl.Elem(), types.Byte) {
			continue
		}
		ps, rs := fn.Signature.Params(), fn.Signature.Results()
		if ps.Len() != 2 || rs.Len() != 2 || !isIntegerType(ps.At(0).Type()) || !isIntegerType(ps.At(1).Type()) || !isIntegerType(rs.At(0).Type()) || !core.IsErrorType(rs.At(1).Type()) {
			continue
		}
		found := false
		for _, o := range r.Obls {
			if o.Rule == "R18.8" && strings.HasPrefix(o.Key, core.FuncName(fn)+"/") {
				found = true
			}
		}
		if !found {
			n++
			r.Violate("R18.8", core.FuncName(fn)+"/bit-budget-tested", c.P.Pos(fn.Pos()), "the hash-bit slicer does not compare offset+width with 8*len(hash) before slicing: past the end of the hash the builder reads out of range (panic) instead of reporting that the directory is too deep")
		}
	}
	r.Floor("R18.8", n, 1)
}
