package rules

import (
	"fmt"
	"go/constant"
	"go/token"
	"go/types"
	"os"
	"sort"
	"strings"

	"golang.org/x/tools/go/ssa"

	"verifchk/internal/core"
)

func init() { Registry["C13"] = c13 }

const bitfieldPath = "github.com/ipfs/go-bitfield"

// panicSite is one may-panic construct.
type panicSite struct {
	fn   *ssa.Function
	ins  ssa.Instruction
	kind string // panic | must | slice | index | assert | depcall | div | qp-entry
	desc string
}

// inC13Scope: hand-written reader-side code fed by network-supplied blocks.
func (c *Ctx) inC13Scope(fn *ssa.Function) bool {
	rel, ok := c.P.PkgOf(fn)
	if !ok || !core.ReaderPkgs[rel] {
		return false
	}
	if fn.Synthetic != "" {
		return false
	}
	pos := fn.Pos()
	if !pos.IsValid() {
		return false
	}
	if c.P.IsGenerated(pos) {
		return false
	}
	f := c.P.FileOf(pos)
	if strings.HasPrefix(f, "data/gen/") || strings.HasPrefix(f, "data/builder/") {
		return false
	}
	return true
}

func isConstNonNeg(v ssa.Value) bool {
	k, ok := core.ConstInt(v)
	return ok && k >= 0
}

// enumerate lists every may-panic construct of fn (nil dereference excluded: not claimed).
func (c *Ctx) enumeratePanicSites(fn *ssa.Function) []panicSite {
	var out []panicSite
	add := func(ins ssa.Instruction, kind, desc string) {
		out = append(out, panicSite{fn, ins, kind, desc})
	}
	for _, b := range fn.Blocks {
		for _, ins := range b.Instrs {
			switch x := ins.(type) {
			case *ssa.Panic:
				add(x, "panic", "explicit panic")
			case *ssa.Slice:
				// constant bounds on arrays are checked at compile time; slices/strings always need a run-time check unless bounds are absent
				if x.Low == nil && x.High == nil && x.Max == nil {
					continue
				}
				if _, isArr := x.X.Type().Underlying().(*types.Pointer); isArr && allConst(x.Low, x.High, x.Max) {
					continue
				}
				add(x, "slice", "slice expression "+sliceDesc(x))
			case *ssa.IndexAddr:
				if c.rangeIndex(x.Index) {
					continue
				}
				if pt, ok := x.X.Type().Underlying().(*types.Pointer); ok {
					if at, ok := pt.Elem().Underlying().(*types.Array); ok {
						if k, ok := core.ConstInt(x.Index); ok && k >= 0 && k < at.Len() {
							continue
						}
					}
				}
				add(x, "index", "index expression")
			case *ssa.Index:
				if at, ok := x.X.Type().Underlying().(*types.Array); ok {
					if k, ok := core.ConstInt(x.Index); ok && k >= 0 && k < at.Len() {
						continue
					}
				}
				add(x, "index", "index expression")
			case *ssa.Lookup:
				if _, isMap := x.X.Type().Underlying().(*types.Map); !isMap {
					add(x, "index", "string index")
				}
			case *ssa.MakeSlice:
				// make([]T, n[, m]) panics for a negative (or absurdly large) run-time size
				if !allConst(x.Len, x.Cap) {
					add(x, "makeslice", "make with a run-time size")
				}
			case *ssa.TypeAssert:
				if !x.CommaOk {
					add(x, "assert", "single-value type assertion to "+core.TypeNameOf(x.AssertedType))
				}
			case *ssa.BinOp:
				if (x.Op == token.QUO || x.Op == token.REM) && isIntegerType(x.Type()) {
					if k, ok := core.ConstInt(x.Y); ok && k != 0 {
						continue
					}
					add(x, "div", "integer division by a non-constant")
				}
			case *ssa.Call:
				cc := x.Common()
				if f := cc.StaticCallee(); f != nil {
					if f.Name() == "Must" && f.Signature.Recv() != nil && strings.Contains(recvTypeName(f), "Maybe") {
						add(x, "must", "Must() on "+recvTypeName(f))
						continue
					}
					if f.Pkg != nil && f.Pkg.Pkg.Path() == bitfieldPath && f.Signature.Recv() != nil {
						switch f.Name() {
						case "SetBytes", "Bit", "OnesBefore", "OnesAfter", "SetBit", "UnsetBit":
							add(x, "depcall", "bitfield."+f.Name()+" (panics when out of range)")
						}
						continue
					}
					if f.Name() == "Lookup" && f.Signature.Recv() != nil && f.Pkg != nil && isIPLDPath(f.Pkg.Pkg.Path()) && f.Signature.Params().Len() == 1 && isBasic(f.Signature.Params().At(0).Type(), types.Int64) {
						add(x, "depcall", "typed list Lookup(idx) (returns a nil element when idx is out of range; the element is then dereferenced)")
						continue
					}
					if f.Pkg != nil && f.Pkg.Pkg.Path() == qpPath && (f.Name() == "MapEntry" || f.Name() == "ListEntry") {
						add(x, "qp-entry", "qp."+f.Name()+" (panics on assembler error by design)")
					}
				}
			}
		}
	}
	return out
}

func isIntegerType(t types.Type) bool {
	b, ok := t.Underlying().(*types.Basic)
	return ok && b.Info()&types.IsInteger != 0
}

func allConst(vs ...ssa.Value) bool {
	for _, v := range vs {
		if v == nil {
			continue
		}
		if _, ok := core.ConstInt(v); !ok {
			return false
		}
	}
	return true
}

func sliceDesc(x *ssa.Slice) string {
	s := "["
	if x.Low != nil {
		s += "lo"
	}
	s += ":"
	if x.High != nil {
		s += "hi"
	}
	return s + "]"
}

func recvTypeName(f *ssa.Function) string {
	if n := core.RecvNamed(f); n != nil {
		return strings.TrimPrefix(n.Obj().Name(), "_")
	}
	return ""
}

// rangeIndex recognises the index variable of a lowered `for i := range x` / `for _, v := range x` loop:
// idx = phi[-1, idx+1] + 1 guarded by idx < len(x).
func (c *Ctx) rangeIndex(v ssa.Value) bool {
	bo, ok := v.(*ssa.BinOp)
	if !ok || bo.Op != token.ADD {
		return false
	}
	phi, ok := bo.X.(*ssa.Phi)
	if !ok {
		return false
	}
	if k, ok := core.ConstInt(bo.Y); !ok || k != 1 {
		return false
	}
	if phi.Comment != "rangeindex" {
		return false
	}
	return true
}

// accessPath gives a structural name to a Maybe/field access so that `x.FieldData()` and `x.Data` compare equal.
func (c *Ctx) accessPath(v ssa.Value, depth int) string {
	if depth > 10 || v == nil {
		return "?"
	}
	switch x := v.(type) {
	case *ssa.Parameter:
		return "param:" + x.Name()
	case *ssa.FreeVar:
		return "free:" + x.Name()
	case *ssa.Call:
		cc := x.Common()
		if f := cc.StaticCallee(); f != nil && f.Signature.Recv() != nil && len(cc.Args) >= 1 {
			name := f.Name()
			if strings.HasPrefix(name, "Field") && len(cc.Args) == 1 {
				name = strings.TrimPrefix(name, "Field")
				return c.accessPath(cc.Args[0], depth+1) + "." + name
			}
			if len(cc.Args) == 1 && (name == "Must" || name == "String" || name == "Bytes" || name == "Int" || name == "Link") {
				return c.accessPath(cc.Args[0], depth+1) + "." + name + "()"
			}
		}
		if cc.IsInvoke() && len(cc.Args) == 0 {
			// a typed-node accessor reached through a (narrow) interface names the same member as the direct call
			if strings.HasPrefix(cc.Method.Name(), "Field") && len(cc.Method.Name()) > 5 {
				return c.accessPath(cc.Value, depth+1) + "." + strings.TrimPrefix(cc.Method.Name(), "Field")
			}
			return c.accessPath(cc.Value, depth+1) + "." + cc.Method.Name() + "()"
		}
		return "val@" + v.Name()
	case *ssa.UnOp:
		if x.Op == token.MUL {
			// reload of a parameter spilled into a cell (a closure captures it): names the parameter
			if al, ok := x.X.(*ssa.Alloc); ok {
				if p, isParam := core.RootOfAddr(x).(*ssa.Parameter); isParam && al.Referrers() != nil {
					return "param:" + p.Name()
				}
			}
			return c.accessPath(x.X, depth+1)
		}
	case *ssa.FieldAddr:
		_, fv, ok := core.FieldAddrOf(x)
		if ok {
			return c.accessPath(x.X, depth+1) + "." + fv.Name()
		}
	case *ssa.Field:
		if st, ok := x.X.Type().Underlying().(*types.Struct); ok {
			return c.accessPath(x.X, depth+1) + "." + st.Field(x.Field).Name()
		}
	case *ssa.Extract:
		return fmt.Sprintf("%s#%d", c.accessPath(x.Tuple, depth+1), x.Index)
	case *ssa.ChangeType:
		return c.accessPath(x.X, depth+1)
	case *ssa.Phi:
		// a phi of identical paths (re-loads on both arms)
		var p string
		for i, e := range x.Edges {
			q := c.accessPath(e, depth+1)
			if i > 0 && q != p {
				return "val@" + v.Name()
			}
			p = q
		}
		return p
	}
	return "val@" + v.Name()
}

// existsGuard reports whether block b is dominated by the true edge of <path>.Exists().
func (c *Ctx) existsGuard(b *ssa.BasicBlock, path string) bool {
	return core.GuardedBy(b, func(cond ssa.Value) (bool, bool) {
		neg := false
		if u, ok := cond.(*ssa.UnOp); ok && u.Op == token.NOT {
			cond, neg = u.X, true
		}
		call, ok := cond.(*ssa.Call)
		if !ok {
			return false, false
		}
		f := call.Call.StaticCallee()
		if f == nil || f.Name() != "Exists" || len(call.Call.Args) != 1 {
			return false, false
		}
		if c.accessPath(call.Call.Args[0], 0) != path {
			return false, false
		}
		return !neg, true
	})
}

func c13(c *Ctx) {
	r := c.R
	r.Explain = "C13 (hostile blocks never panic / unbounded work): enumerates every may-panic construct of the hand-written reader-side code from go/ssa (explicit panic, Must() on a Maybe, non-constant slice/index/string index, single-value type assertion, panicking go-bitfield calls, qp entry helpers, integer division) and discharges each with a recognised guard re-derived from the code on every run: recover scope of qp.BuildMap/BuildList, Exists() dominance, constructor-validated shard data with call-site preconditions, len-bounded comparisons, the consume/advance discipline of the decoders, concrete-return-type summaries for assertions, and a small table of arithmetic facts each with a co-guard that must be present. Loops and recursion are classified for bounded work. An undischarged site is a violation. Not decided: nil-dereference freedom, exponential logical size of de-duplicated DAGs."
	r.Rule("R13.1", "explicit panic and qp.MapEntry/ListEntry occur only in functions that always run under qp.BuildMap/BuildList's recover (closures handed to qp builders, and functions all of whose callers are such); qp.BuildMap/BuildList contain a deferred recover (dependency assertion)")
	r.Rule("R13.2", "Must() on a Maybe is dominated by Exists() on the same access path, or reads a field that a validator established (every nil return of the validator passes Exists() of that field) on a value that is validated at every allocation site / call site")
	r.Rule("R13.3", "non-constant slice/index is dominated by a comparison bounding it by len of the same value, or is a decoder advance rest[n:] under n>=0 with n a protowire.Consume* length, or has a listed call-site precondition whose co-guards are all present")
	r.Rule("R13.4", "panicking go-bitfield calls: SetBytes argument is length-checked against the bitfield; Bit/OnesBefore indices come from hashBits.Next(log2(fanout)) of the shard that owns a bitfield of that fanout; NewBitfield size is capped")
	r.Rule("R13.5", "single-value type assertions: the operand is produced by a callee all of whose non-error returns yield that concrete type (qp.BuildMap/NewBuilder().Build() yield the prototype's node type)")
	r.Rule("R13.7", "a repository function that can return a nil pointer/interface together with a nil error (meaning 'nothing left' / 'not found') has every dereference of that result at its repository call sites dominated by a nil test")
	r.Rule("R13.6", "bounded work: every CFG loop is a range loop, an iterator loop that advances on every iteration, a counter loop or a decoder loop that consumes input; every recursion cycle in the reader packages contains a block load (or is a listed arithmetic recursion with its reason)")

	var sites []panicSite
	nfun := 0
	for _, fn := range c.G.Funcs() {
		if !c.inC13Scope(fn) {
			continue
		}
		nfun++
		sites = append(sites, c.enumeratePanicSites(fn)...)
	}
	r.Analysed["functions_in_scope"] = nfun
	r.Analysed["may_panic_sites"] = len(sites)
	counts := map[string]int{}
	d := newDischarger(c)
	for _, s := range sites {
		counts[s.kind]++
		rule := map[string]string{"panic": "R13.1", "qp-entry": "R13.1", "must": "R13.2", "slice": "R13.3", "index": "R13.3", "div": "R13.3", "makeslice": "R13.3", "depcall": "R13.4", "assert": "R13.5"}[s.kind]
		key := c.siteKey(s)
		pos := c.P.Pos(s.ins.Pos())
		ok, how := d.discharge(s)
		if ok {
			r.OK(rule, key, pos, s.desc+": "+how)
		} else {
			r.Violate(rule, key, pos, s.desc+" may panic on hostile input: "+how)
		}
	}
	for k, v := range counts {
		r.Analysed["sites_"+k] = v
	}
	r.Floor("R13.1", counts["panic"], 2)
	r.Floor("R13.2", counts["must"], 12)
	r.Floor("R13.3", counts["slice"]+counts["index"], 12)
	r.Floor("R13.4", counts["depcall"], 3)
	r.Floor("R13.5", counts["assert"], 3)
	d.dependencyAssertions()
	c.checkBoundedWork()
	c.checkNilResults()
	if f := os.Getenv("VERIF_BCE_FILE"); f != "" {
		c.bceCrossCheck(f, sites)
	}
}

// siteKey: function + kind + ordinal of that kind inside the function (line-free).
func (c *Ctx) siteKey(s panicSite) string {
	k := 0
	for _, t := range c.enumeratePanicSites(s.fn) {
		if t.kind == s.kind {
			k++
			if t.ins == s.ins {
				break
			}
		}
	}
	return fmt.Sprintf("%s/%s#%d", core.FuncName(s.fn), s.kind, k)
}

// ---------------------------------------------------------------------------

type discharger struct {
	c         *Ctx
	protected map[*ssa.Function]bool
	validator map[*ssa.Function]map[string]bool // validator fn -> set of field names established on nil return (param 0)
	// name transformer made by a factory function (closure capturing the pad): set while its pad chain is checked
	trFactory    *ssa.Function
	trFactoryIdx int
	paramBind    map[*ssa.Parameter]ssa.Value
}

func newDischarger(c *Ctx) *discharger {
	d := &discharger{c: c, validator: map[*ssa.Function]map[string]bool{}}
	d.computeProtected()
	return d
}

// qpBuilderArgClosure reports whether the closure value mc is handed to a qp builder (BuildMap/BuildList: own recover; Map/List: runs inside the caller's scope).
func qpConsumer(mc *ssa.MakeClosure) (string, bool) {
	for _, ref := range *mc.Referrers() {
		call, ok := ref.(*ssa.Call)
		if !ok {
			continue
		}
		f := call.Call.StaticCallee()
		if f == nil || f.Pkg == nil || f.Pkg.Pkg.Path() != qpPath {
			continue
		}
		switch f.Name() {
		case "BuildMap", "BuildList":
			return "recover", true
		case "Map", "List":
			return "inherit", true
		}
	}
	return "", false
}

func (d *discharger) computeProtected() {
	c := d.c
	prot := map[*ssa.Function]bool{}
	// closures handed to BuildMap/BuildList
	type inh struct{ cl, parent *ssa.Function }
	var inherits []inh
	for _, fn := range c.G.Funcs() {
		if _, ok := c.P.PkgOf(fn); !ok {
			continue
		}
		for _, b := range fn.Blocks {
			for _, ins := range b.Instrs {
				mc, ok := ins.(*ssa.MakeClosure)
				if !ok {
					continue
				}
				cl, _ := mc.Fn.(*ssa.Function)
				if cl == nil {
					continue
				}
				// every use of the closure must be as a qp builder argument
				allQP := true
				mode := ""
				for _, ref := range *mc.Referrers() {
					if _, isDbg := ref.(*ssa.DebugRef); isDbg {
						continue
					}
					call, ok := ref.(*ssa.Call)
					if !ok {
						allQP = false
						break
					}
					f := call.Call.StaticCallee()
					if f == nil || f.Pkg == nil || f.Pkg.Pkg.Path() != qpPath {
						allQP = false
						break
					}
					switch f.Name() {
					case "BuildMap", "BuildList":
						if mode == "" {
							mode = "recover"
						}
					case "Map", "List":
						mode = "inherit"
					default:
						allQP = false
					}
				}
				if !allQP || mode == "" {
					continue
				}
				if mode == "recover" {
					prot[cl] = true
				} else {
					inherits = append(inherits, inh{cl, fn})
				}
			}
		}
	}
	// fixpoint: a function is protected when all its callers are protected (and it has at least one caller);
	// an inherit-closure is protected when its parent is.
	for changed := true; changed; {
		changed = false
		for _, i := range inherits {
			if !prot[i.cl] && prot[i.parent] {
				prot[i.cl] = true
				changed = true
			}
		}
		for _, fn := range c.G.Funcs() {
			if prot[fn] || fn.Parent() != nil {
				continue
			}
			if fn.Object() != nil && fn.Object().Exported() {
				continue // callable from outside the repository
			}
			ins := c.G.In[fn]
			if len(ins) == 0 {
				continue
			}
			all := true
			for _, e := range ins {
				if e.Kind == "closure" {
					continue
				}
				if !prot[e.Caller] {
					all = false
					break
				}
			}
			if all {
				prot[fn] = true
				changed = true
			}
		}
	}
	d.protected = prot
}

func (d *discharger) dependencyAssertions() {
	c := d.c
	sp := c.P.DepSSAPkg(qpPath)
	if sp == nil {
		c.R.Break("qp package not loaded")
		return
	}
	for _, name := range []string{"BuildMap", "BuildList"} {
		fn := sp.Func(name)
		ok := false
		if fn != nil {
			for _, b := range fn.Blocks {
				for _, ins := range b.Instrs {
					df, isDefer := ins.(*ssa.Defer)
					if !isDefer {
						continue
					}
					if cl := funcOfCallValue(df.Call.Value); cl != nil {
						for _, cb := range cl.Blocks {
							for _, ci := range cb.Instrs {
								if call, ok2 := ci.(*ssa.Call); ok2 {
									if bi, ok3 := call.Call.Value.(*ssa.Builtin); ok3 && bi.Name() == "recover" {
										ok = true
									}
								}
							}
						}
					}
				}
			}
		}
		c.R.Check(ok, "R13.1", "dep:qp."+name+"/deferred-recover", "-", "qp."+name+" recovers panics of its callback (checked in the dependency's SSA)", "qp."+name+" has no deferred recover: decoder panics would escape")
	}
}

func funcOfCallValue(v ssa.Value) *ssa.Function {
	switch x := v.(type) {
	case *ssa.Function:
		return x
	case *ssa.MakeClosure:
		f, _ := x.Fn.(*ssa.Function)
		return f
	}
	return nil
}

func (d *discharger) discharge(s panicSite) (bool, string) {
	switch s.kind {
	case "panic", "qp-entry":
		if d.protected[s.fn] {
			return true, "runs only under qp.BuildMap/BuildList's recover"
		}
		// a panic on a nil *argument* is a programmer error of the caller, not something block content can trigger
		if s.kind == "panic" && s.ins != nil && core.GuardedBy(s.ins.Block(), func(cond ssa.Value) (bool, bool) {
			x, trueMeansNil, ok := core.NilCmp(cond)
			if !ok {
				return false, false
			}
			if _, isParam := x.(*ssa.Parameter); !isParam {
				return false, false
			}
			return trueMeansNil, true
		}) {
			return true, "panics only when the caller passes a nil argument (programmer error, not reachable from block content)"
		}
		return false, "function " + core.FuncName(s.fn) + " is not confined to qp.BuildMap/BuildList's recover scope"
	case "must":
		return d.dischargeMust(s)
	case "slice", "index":
		return d.dischargeBounds(s)
	case "depcall":
		return d.dischargeBitfield(s)
	case "assert":
		return d.dischargeAssert(s)
	case "makeslice":
		return d.dischargeMakeSlice(s)
	case "div":
		return false, "no rule discharges integer division"
	}
	return false, "unknown site kind"
}

// ---------------------------------------------------------------------------
// R13.2
// ---------------------------------------------------------------------------

// validatorSummary: for a function V(x …) error, the set of fields F of parameter 0 such that every path to a
// nil return took the true edge of x.F.Exists().
func (d *discharger) validatorSummary(v *ssa.Function) map[string]bool {
	if s, ok := d.validator[v]; ok {
		return s
	}
	d.validator[v] = nil
	if len(v.Params) == 0 || core.ErrResultIndex(v.Signature) < 0 || v.Signature.Results().Len() != 1 {
		return nil
	}
	c := d.c
	root := "param:" + v.Params[0].Name()
	var inter map[string]bool
	first := true
	complete := core.EnumPaths(v, 2, 20000, func(path []*ssa.BasicBlock) {
		last := path[len(path)-1]
		ret, ok := last.Instrs[len(last.Instrs)-1].(*ssa.Return)
		if !ok {
			return
		}
		// every return that may carry a nil error counts (also `return check(x)` forwarding another validator's verdict)
		if core.ErrKnownNonNil(core.ResolvedResults(ret)[0], core.PathNonNil(path, len(path)-1)) {
			return
		}
		have := map[string]bool{}
		for i := 0; i+1 < len(path); i++ {
			cond, taken, ok := core.BranchTaken(path[i], path[i+1])
			if !ok {
				continue
			}
			neg := false
			if u, ok := cond.(*ssa.UnOp); ok && u.Op == token.NOT {
				cond, neg = u.X, true
			}
			call, ok := cond.(*ssa.Call)
			if !ok {
				continue
			}
			f := call.Call.StaticCallee()
			if f == nil || f.Name() != "Exists" || len(call.Call.Args) != 1 {
				continue
			}
			p := c.accessPath(call.Call.Args[0], 0)
			if strings.HasPrefix(p, root+".") && taken != neg {
				have[strings.TrimPrefix(p, root+".")] = true
			}
		}
		if first {
			inter, first = have, false
		} else {
			for k := range inter {
				if !have[k] {
					delete(inter, k)
				}
			}
		}
	})
	if !complete || first {
		return nil
	}
	d.validator[v] = inter
	return inter
}

// validatedAt reports whether value v is known validated (by some validator establishing field) at block b of fn:
// a call V(v) whose nil-result edge dominates b.
func (d *discharger) validatedAt(fn *ssa.Function, b *ssa.BasicBlock, v ssa.Value, field string, depth int) (bool, string) {
	c := d.c
	if depth > 4 {
		return false, "validation chain too deep"
	}
	// (1) dominated by V(v) == nil
	for _, ci := range core.CallsIn(fn) {
		call, ok := ci.(*ssa.Call)
		if !ok {
			continue
		}
		V := call.Call.StaticCallee()
		if V == nil || len(call.Call.Args) == 0 || call.Call.Args[0] != v {
			continue
		}
		if _, isRepo := c.P.PkgOf(V); !isRepo {
			continue
		}
		sum := d.validatorSummary(V)
		if !sum[field] {
			continue
		}
		if core.GuardedBy(b, func(cond ssa.Value) (bool, bool) {
			x, trueMeansNil, ok := core.NilCmp(cond)
			if !ok || x != ssa.Value(call) {
				return false, false
			}
			return trueMeansNil, true
		}) {
			return true, "validated by " + V.Name() + " (establishes " + field + ".Exists()) before use"
		}
	}
	// (2) v is a load of a struct field whose every allocation site stores a validated value
	if u, ok := v.(*ssa.UnOp); ok && u.Op == token.MUL {
		if base, fv, ok := core.FieldAddrOf(u.X); ok {
			_ = base
			return d.fieldValidated(fv, field, depth+1)
		}
	}
	// (3) v is a parameter: every call site passes a validated value
	if p, ok := v.(*ssa.Parameter); ok && p.Parent() == fn {
		if fn.Object() != nil && fn.Object().Exported() {
			return false, "parameter of an exported function: callers outside the repository are unconstrained"
		}
		idx := -1
		for i, q := range fn.Params {
			if q == p {
				idx = i
			}
		}
		ins := c.G.In[fn]
		if len(ins) == 0 {
			return false, "no call sites found"
		}
		for _, e := range ins {
			call, ok := e.Site.(ssa.CallInstruction)
			if !ok || call.Common().StaticCallee() != fn {
				return false, "called indirectly at " + c.P.Pos(e.Site.Pos())
			}
			arg := call.Common().Args[idx]
			ok2, why := d.validatedAt(e.Caller, e.Site.Block(), arg, field, depth+1)
			if !ok2 {
				return false, fmt.Sprintf("call site %s in %s passes an unvalidated value (%s)", c.P.Pos(e.Site.Pos()), core.FuncName(e.Caller), why)
			}
		}
		return true, fmt.Sprintf("all %d call site(s) pass a validated value", len(ins))
	}
	return false, "value is not validated on this path"
}

// fieldValidated: every store to struct field fv (anywhere in the repository) stores a value validated for `field`.
func (d *discharger) fieldValidated(fv *types.Var, field string, depth int) (bool, string) {
	c := d.c
	n := 0
	for _, fn := range c.G.Funcs() {
		for _, b := range fn.Blocks {
			for _, ins := range b.Instrs {
				st, ok := ins.(*ssa.Store)
				if !ok {
					continue
				}
				_, sf, ok := core.FieldAddrOf(st.Addr)
				if !ok || sf != fv {
					continue
				}
				n++
				ok2, why := d.validatedAt(fn, b, st.Val, field, depth+1)
				if !ok2 {
					return false, fmt.Sprintf("field %s is stored at %s with an unvalidated value (%s)", fv.Name(), c.P.Pos(st.Pos()), why)
				}
			}
		}
	}
	if n == 0 {
		return false, "no store to field " + fv.Name() + " found"
	}
	return true, fmt.Sprintf("field %s is constructor-validated at all %d store(s)", fv.Name(), n)
}

func (d *discharger) dischargeMust(s panicSite) (bool, string) {
	c := d.c
	call := s.ins.(*ssa.Call)
	recv := call.Call.Args[0]
	path := c.accessPath(recv, 0)
	if c.existsGuard(call.Block(), path) {
		return true, "dominated by " + shortPath(path) + ".Exists()"
	}
	// validated data: path = <root>.<Field>; root must be validated for Field
	if acc, ok := recv.(*ssa.Call); ok {
		if f := acc.Call.StaticCallee(); f != nil && strings.HasPrefix(f.Name(), "Field") && len(acc.Call.Args) == 1 {
			field := strings.TrimPrefix(f.Name(), "Field")
			root := acc.Call.Args[0]
			// strip the value load of a pointer-typed param (`*nd`)
			if u, ok := root.(*ssa.UnOp); ok && u.Op == token.MUL {
				if _, isP := u.X.(*ssa.Parameter); isP {
					root = u.X
				} else if _, _, isF := core.FieldAddrOf(u.X); !isF {
					root = u.X
				}
			}
			ok2, why := d.validatedAt(s.fn, call.Block(), root, field, 0)
			if ok2 {
				return true, why
			}
			if ok3, why3 := d.linkPreconditionMust(s.fn, root, field); ok3 {
				return true, why3
			}
			return false, "not dominated by " + shortPath(path) + ".Exists(); " + why
		}
	}
	return false, "not dominated by " + shortPath(path) + ".Exists()"
}

func shortPath(p string) string {
	p = strings.ReplaceAll(p, "param:", "")
	p = strings.ReplaceAll(p, "free:", "")
	return p
}

// ---------------------------------------------------------------------------
// R13.5
// ---------------------------------------------------------------------------

// concreteResult returns the set of concrete types a function may return at result index idx on non-error returns.
func (d *discharger) concreteResult(fn *ssa.Function, idx int, depth int) (map[string]types.Type, bool) {
	if depth > 4 || fn == nil || len(fn.Blocks) == 0 {
		return nil, false
	}
	out := map[string]types.Type{}
	errIdx := core.ErrResultIndex(fn.Signature)
	for _, ret := range core.Returns(fn) {
		if errIdx >= 0 && errIdx != idx && !core.IsNilConst(ret.Results[errIdx]) {
			// error return: value is not used by callers that checked the error — but only if it is a nil interface
			if core.IsNilConst(ret.Results[idx]) {
				continue
			}
		}
		ts, ok := d.concreteOf(ret.Results[idx], depth)
		if !ok {
			return nil, false
		}
		for k, v := range ts {
			out[k] = v
		}
	}
	return out, len(out) > 0
}

func (d *discharger) concreteOf(v ssa.Value, depth int) (map[string]types.Type, bool) {
	out := map[string]types.Type{}
	switch x := v.(type) {
	case *ssa.MakeInterface:
		out[types.TypeString(x.X.Type(), nil)] = x.X.Type()
		return out, true
	case *ssa.Const:
		if x.Value == nil {
			return out, true // nil interface (paired with an error)
		}
	case *ssa.Phi:
		for _, e := range x.Edges {
			ts, ok := d.concreteOf(e, depth+1)
			if !ok {
				return nil, false
			}
			for k, t := range ts {
				out[k] = t
			}
		}
		return out, true
	case *ssa.Extract:
		if call, ok := x.Tuple.(*ssa.Call); ok {
			return d.concreteOfCall(call, x.Index, depth)
		}
	case *ssa.Call:
		return d.concreteOfCall(x, 0, depth)
	case *ssa.ChangeInterface:
		return d.concreteOf(x.X, depth+1)
	}
	if _, isIface := v.Type().Underlying().(*types.Interface); !isIface {
		out[types.TypeString(v.Type(), nil)] = v.Type()
		return out, true
	}
	return nil, false
}

func (d *discharger) concreteOfCall(call *ssa.Call, idx int, depth int) (map[string]types.Type, bool) {
	if depth > 5 {
		return nil, false
	}
	cc := call.Common()
	if f := cc.StaticCallee(); f != nil {
		// qp.BuildMap(proto, …) / qp.BuildList(proto, …): result is proto.NewBuilder().Build()
		if f.Pkg != nil && f.Pkg.Pkg.Path() == qpPath && (f.Name() == "BuildMap" || f.Name() == "BuildList") && idx == 0 {
			pv := cc.Args[0]
			// the prototype handed through a helper's parameter: use the argument of the call being summarised
			for i := 0; i < 3; i++ {
				p, isParam := pv.(*ssa.Parameter)
				if !isParam {
					break
				}
				b, bound := d.paramBind[p]
				if !bound {
					break
				}
				pv = b
			}
			if mi, ok := pv.(*ssa.MakeInterface); ok {
				return d.buildTypeOfPrototype(mi.X.Type(), depth)
			}
			return nil, false
		}
		// summarise the callee for this call site: its parameters denote the arguments given here
		if d.paramBind == nil {
			d.paramBind = map[*ssa.Parameter]ssa.Value{}
		}
		var bound []*ssa.Parameter
		for i, p := range f.Params {
			if i < len(cc.Args) {
				if _, had := d.paramBind[p]; !had {
					d.paramBind[p] = cc.Args[i]
					bound = append(bound, p)
				}
			}
		}
		ts, ok := d.concreteResult(f, idx, depth+1)
		for _, p := range bound {
			delete(d.paramBind, p)
		}
		return ts, ok
	}
	if cc.IsInvoke() && cc.Method.Name() == "Build" {
		// nb.Build() with nb = P.NewBuilder()
		ts, ok := d.concreteOf(cc.Value, depth+1)
		if !ok || len(ts) != 1 {
			return nil, false
		}
		for _, bt := range ts {
			return d.methodResult(bt, "Build", depth)
		}
	}
	return nil, false
}

func (d *discharger) methodResult(t types.Type, name string, depth int) (map[string]types.Type, bool) {
	ms := d.c.P.SSA.MethodSets.MethodSet(t)
	for i := 0; i < ms.Len(); i++ {
		if ms.At(i).Obj().Name() == name {
			fn := d.c.P.SSA.MethodValue(ms.At(i))
			return d.concreteResult(fn, 0, depth+1)
		}
	}
	return nil, false
}

func (d *discharger) buildTypeOfPrototype(pt types.Type, depth int) (map[string]types.Type, bool) {
	nb, ok := d.methodResult(pt, "NewBuilder", depth)
	if !ok || len(nb) != 1 {
		return nil, false
	}
	for _, bt := range nb {
		return d.methodResult(bt, "Build", depth)
	}
	return nil, false
}

func (d *discharger) dischargeAssert(s panicSite) (bool, string) {
	ta := s.ins.(*ssa.TypeAssert)
	ts, ok := d.concreteOf(ta.X, 0)
	if !ok || len(ts) == 0 {
		return false, "cannot determine the concrete type(s) of the operand"
	}
	var names []string
	for k, t := range ts {
		names = append(names, k)
		if it, isIface := ta.AssertedType.Underlying().(*types.Interface); isIface {
			if !types.Implements(t, it) {
				return false, "operand may be " + k + ", which does not implement the asserted interface"
			}
		} else if !types.Identical(t, ta.AssertedType) {
			return false, "operand may be " + k + ", not " + core.TypeNameOf(ta.AssertedType)
		}
	}
	sort.Strings(names)
	return true, "operand is always " + shorten(strings.ReplaceAll(strings.Join(names, "|"), core.Module+"/", ""))
}

// keep constant import used
var _ = constant.MakeBool

// linkPreconditionMust: Must() on <param0>.Name inside a helper (link, …, pad int): every internal call site is dominated by
// the link predicate returning (true, nil) on the same values, and the predicate only returns (true, nil) after Name.Exists().
func (d *discharger) linkPreconditionMust(fn *ssa.Function, root ssa.Value, field string) (bool, string) {
	c := d.c
	p, ok := root.(*ssa.Parameter)
	if !ok || len(fn.Params) == 0 || p != fn.Params[0] || field != "Name" {
		return false, ""
	}
	pred, _ := d.findLinkPredicate()
	if pred == nil {
		return false, ""
	}
	// predicate establishes Name.Exists() on every (true, nil) return
	for _, ret := range core.Returns(pred) {
		if k, ok := ret.Results[0].(*ssa.Const); ok && k.Value != nil && k.Value.String() == "true" && core.IsNilConst(ret.Results[1]) {
			if !c.existsGuard(ret.Block(), "param:"+pred.Params[0].Name()+".Name") {
				return false, ""
			}
		}
	}
	padIdx := -1
	for i, q := range fn.Params {
		if isBasic(q.Type(), types.Int) {
			padIdx = i
		}
	}
	if padIdx < 0 {
		return false, ""
	}
	n := 0
	for _, e := range c.G.In[fn] {
		call, isCall := e.Site.(ssa.CallInstruction)
		if !isCall || call.Common().StaticCallee() != fn {
			return false, ""
		}
		n++
		args := call.Common().Args
		if !d.guardedByPredicate(e.Caller, e.Site.Block(), pred, args[0], args[padIdx]) {
			return false, ""
		}
	}
	return true, fmt.Sprintf("call-site precondition: all %d internal call(s) are dominated by %s(link, pad) == (true, nil), which is only returned after Name.Exists()", n, pred.Name())
}

func isIPLDPath(p string) bool {
	return strings.HasPrefix(p, "github.com/ipld/go-ipld-prime") || strings.HasPrefix(p, "github.com/ipld/go-codec-dagpb")
}

// dischargeMakeSlice: every run-time size of make([]T, n, m) is a non-negative, input-bounded quantity: len()/cap() of a
// value, a constant, a sum of such, or a value dominated by both a lower-bound test (>= 0 / > c) and an upper-bound test
// against a constant.
func (d *discharger) dischargeMakeSlice(s panicSite) (bool, string) {
	ms := s.ins.(*ssa.MakeSlice)
	var sizeOK func(v ssa.Value, depth int) (bool, string)
	sizeOK = func(v ssa.Value, depth int) (bool, string) {
		if depth > 6 {
			return false, "size expression too deep"
		}
		v = core.Unconv(v)
		if k, ok := core.ConstInt(v); ok {
			if k >= 0 {
				return true, ""
			}
			return false, "negative constant size"
		}
		if _, isLen := lenOf(v); isLen {
			return true, ""
		}
		if call, ok := v.(*ssa.Call); ok {
			if b, isB := call.Call.Value.(*ssa.Builtin); isB && (b.Name() == "cap" || b.Name() == "len" || b.Name() == "min") {
				return true, ""
			}
		}
		if bo, ok := v.(*ssa.BinOp); ok && (bo.Op == token.ADD || bo.Op == token.MUL) {
			if ok1, w1 := sizeOK(bo.X, depth+1); !ok1 {
				return false, w1
			}
			return sizeOK(bo.Y, depth+1)
		}
		if phi, ok := v.(*ssa.Phi); ok {
			// the clamp idiom: n := x.Length(); if n < 0 { n = 0 } — a list length with the "not a list" -1 replaced
			hasZero := false
			for _, e := range phi.Edges {
				if k, isK := core.ConstInt(e); isK && k == 0 {
					hasZero = true
				}
			}
			for _, e := range phi.Edges {
				if call, isCall := core.Unconv(e).(*ssa.Call); isCall && hasZero {
					if name, _ := methodCall(call); name == "Length" {
						// taken on the edge where the sign test failed
						if core.GuardedBy(phi.Block().Preds[edgeIndex(phi, e)], func(cond ssa.Value) (bool, bool) {
							x, onT, onF, ok := core.SignTest(cond)
							if !ok || core.Unconv(x) != ssa.Value(call) {
								return false, false
							}
							if onT == "nonneg" {
								return true, true
							}
							if onF == "nonneg" {
								return false, true
							}
							return false, false
						}) || phiEdgeIsFalseOfNegTest(phi, e, call) {
							continue
						}
					}
				}
				if ok1, w1 := sizeOK(e, depth+1); !ok1 {
					return false, w1
				}
			}
			return true, ""
		}
		lower := core.GuardedBy(ms.Block(), func(cond ssa.Value) (bool, bool) {
			x, onT, onF, ok := core.SignTest(cond)
			if !ok || core.Unconv(x) != v {
				return false, false
			}
			if onT == "nonneg" {
				return true, true
			}
			if onF == "nonneg" {
				return false, true
			}
			return false, false
		})
		upper := core.GuardedBy(ms.Block(), func(cond ssa.Value) (bool, bool) {
			bo, ok := cond.(*ssa.BinOp)
			if !ok || core.Unconv(bo.X) != v {
				return false, false
			}
			if _, isK := core.ConstInt(bo.Y); !isK {
				return false, false
			}
			switch bo.Op {
			case token.LEQ, token.LSS:
				return true, true
			case token.GTR, token.GEQ:
				return false, true
			}
			return false, false
		})
		if lower && upper {
			return true, ""
		}
		if !lower {
			return false, "size is not proven non-negative (a hostile declared size wraps to a negative int)"
		}
		return false, "size is not bounded by a constant"
	}
	for _, v := range []ssa.Value{ms.Len, ms.Cap} {
		if v == nil {
			continue
		}
		if ok, why := sizeOK(v, 0); !ok {
			return false, why
		}
	}
	return true, "every run-time size is a length of existing data, a constant, or range-checked on both sides"
}

func edgeIndex(phi *ssa.Phi, e ssa.Value) int {
	for i, x := range phi.Edges {
		if x == e {
			return i
		}
	}
	return 0
}

// phiEdgeIsFalseOfNegTest: the edge carrying value e into phi comes straight from the block that tested `e < 0` and took
// the false branch (if n < 0 { n = 0 } with no else).
func phiEdgeIsFalseOfNegTest(phi *ssa.Phi, e ssa.Value, call *ssa.Call) bool {
	pred := phi.Block().Preds[edgeIndex(phi, e)]
	iff := core.BlockIf(pred)
	if iff == nil || len(pred.Succs) != 2 {
		return false
	}
	x, onT, onF, ok := core.SignTest(iff.Cond)
	if !ok || core.Unconv(x) != ssa.Value(call) {
		return false
	}
	if onT == "neg" && pred.Succs[1] == phi.Block() {
		return true
	}
	if onF == "neg" && pred.Succs[0] == phi.Block() {
		return true
	}
	return false
}
