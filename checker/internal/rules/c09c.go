package rules

import (
	"fmt"
	"go/token"
	"go/types"
	"strings"

	"golang.org/x/tools/go/ssa"

	"verifchk/internal/core"
)

// ---------------------------------------------------------------------------
// Decoders written around a cursor object
//
//	type reader struct{ rest []byte }
//	func (r *reader) advance(n int) error { if n < 0 { return protowire.ParseError(n) }; r.rest = r.rest[n:]; return nil }
//	func (r *reader) varint() (uint64, error) { v, n := protowire.ConsumeVarint(r.rest); return v, r.advance(n) }
//
// are recognised through two summaries: the *advance helper* (sign-tests its length parameter, errors on a negative one,
// otherwise re-slices the buffer field by it) and the *consume forwarder* (one protowire.Consume* on the buffer field,
// the length handed to the advance helper of the same receiver, the helper's error returned).
// ---------------------------------------------------------------------------

type advanceInfo struct {
	fn     *ssa.Function
	lenIdx int        // parameter index of the length
	field  *types.Var // the buffer field that is re-sliced
}

// advanceHelper recognises the advance helper shape for parameter index j of h.
func (c *Ctx) advanceHelper(h *ssa.Function, j int) *advanceInfo {
	if h == nil || len(h.Blocks) == 0 || j <= 0 || j >= len(h.Params) || h.Signature.Recv() == nil {
		return nil
	}
	if rel, ok := c.P.PkgOf(h); !ok || rel != "data" {
		return nil
	}
	errIdx := core.ErrResultIndex(h.Signature)
	if errIdx < 0 {
		return nil
	}
	n := ssa.Value(h.Params[j])
	recv := ssa.Value(h.Params[0])
	var field *types.Var
	nstores := 0
	for _, b := range h.Blocks {
		for _, ins := range b.Instrs {
			st, ok := ins.(*ssa.Store)
			if !ok {
				continue
			}
			_, fv, isField := core.FieldAddrOf(st.Addr)
			if !isField || core.RootOfAddr(st.Addr) != recv {
				continue
			}
			nstores++
			sl, ok := st.Val.(*ssa.Slice)
			if !ok || sl.Low != n || sl.High != nil || sl.Max != nil {
				return nil
			}
			u, ok := sl.X.(*ssa.UnOp)
			if !ok || u.Op != token.MUL {
				return nil
			}
			if _, f2, ok := core.FieldAddrOf(u.X); !ok || f2 != fv || core.RootOfAddr(u.X) != recv {
				return nil
			}
			// under n >= 0
			if !core.GuardedBy(st.Block(), func(cond ssa.Value) (bool, bool) {
				v, onT, onF, ok := core.SignTest(cond)
				if !ok || v != n {
					return false, false
				}
				if onT == "nonneg" {
					return true, true
				}
				if onF == "nonneg" {
					return false, true
				}
				return false, false
			}) {
				return nil
			}
			field = fv
		}
	}
	if nstores != 1 || field == nil {
		return nil
	}
	// every return on the negative edge carries a non-nil error; every other return nil or that store happened
	for _, ret := range core.Returns(h) {
		neg := core.GuardedBy(ret.Block(), func(cond ssa.Value) (bool, bool) {
			v, onT, onF, ok := core.SignTest(cond)
			if !ok || v != n {
				return false, false
			}
			if onT == "neg" {
				return true, true
			}
			if onF == "neg" {
				return false, true
			}
			return false, false
		})
		ev := core.ResolvedResults(ret)[errIdx]
		if neg && core.IsNilConst(ev) {
			return nil
		}
	}
	return &advanceInfo{fn: h, lenIdx: j, field: field}
}

type fwdInfo struct {
	fn    *ssa.Function
	pw    string    // protowire function forwarded
	call  *ssa.Call // the protowire call
	adv   *advanceInfo
	field *types.Var
}

// consumeForwarder recognises h as a forwarder of one protowire.Consume* call on its receiver's buffer field.
func (c *Ctx) consumeForwarder(h *ssa.Function) *fwdInfo {
	if h == nil || len(h.Blocks) == 0 || h.Signature.Recv() == nil || len(h.Params) == 0 {
		return nil
	}
	if c.fwdMemo == nil {
		c.fwdMemo = map[*ssa.Function]*fwdInfo{}
	}
	if v, ok := c.fwdMemo[h]; ok {
		return v
	}
	c.fwdMemo[h] = nil
	if rel, ok := c.P.PkgOf(h); !ok || rel != "data" || !c.P.HandWritten(h) {
		return nil
	}
	errIdx := core.ErrResultIndex(h.Signature)
	if errIdx < 0 {
		return nil
	}
	var pw *ssa.Call
	for _, ci := range core.CallsIn(h) {
		if call, ok := ci.(*ssa.Call); ok && strings.HasPrefix(pwName(call), "Consume") {
			if pw != nil {
				return nil
			}
			pw = call
		}
	}
	if pw == nil {
		return nil
	}
	recv := ssa.Value(h.Params[0])
	buf := pw.Call.Args[len(pw.Call.Args)-1]
	u, ok := buf.(*ssa.UnOp)
	if !ok || u.Op != token.MUL {
		return nil
	}
	_, bf, ok := core.FieldAddrOf(u.X)
	if !ok || core.RootOfAddr(u.X) != recv {
		return nil
	}
	var n ssa.Value
	if tup, ok := pw.Type().(*types.Tuple); ok {
		n = extractOf(pw, tup.Len()-1)
	} else {
		n = pw
	}
	if n == nil {
		return nil
	}
	// n's only consumer: the advance helper on the same receiver, in the same block
	var advCall *ssa.Call
	for _, ref := range *n.Referrers() {
		switch x := ref.(type) {
		case *ssa.DebugRef:
		case *ssa.Call:
			if advCall != nil {
				return nil
			}
			advCall = x
		default:
			return nil
		}
	}
	if advCall == nil || advCall.Block() != pw.Block() || len(advCall.Call.Args) < 2 || advCall.Call.Args[0] != recv {
		return nil
	}
	j := -1
	for i, a := range advCall.Call.Args {
		if a == n {
			j = i
		}
	}
	adv := c.advanceHelper(advCall.Call.StaticCallee(), j)
	if adv == nil || adv.field != bf {
		return nil
	}
	// the helper's error is what h returns as its error on every return
	for _, ret := range core.Returns(h) {
		if core.ResolvedResults(ret)[errIdx] != ssa.Value(advCall) {
			return nil
		}
	}
	fi := &fwdInfo{fn: h, pw: pwName(pw), call: pw, adv: adv, field: bf}
	c.fwdMemo[h] = fi
	return fi
}

// forwarderOfCall: the call goes to a consume forwarder.
func (c *Ctx) forwarderOfCall(call *ssa.Call) *fwdInfo {
	if call == nil {
		return nil
	}
	return c.consumeForwarder(call.Call.StaticCallee())
}

// cursorDoneMethod: h is `func (r *T) done() bool { return len(r.F) == 0 }` (or != 0); returns the field and whether true
// means exhausted.
func (c *Ctx) cursorDoneMethod(h *ssa.Function) (*types.Var, bool, bool) {
	if h == nil || len(h.Blocks) != 1 || h.Signature.Recv() == nil || len(h.Params) != 1 {
		return nil, false, false
	}
	if h.Signature.Results().Len() != 1 || !isBasic(h.Signature.Results().At(0).Type(), types.Bool) {
		return nil, false, false
	}
	rets := core.Returns(h)
	if len(rets) != 1 {
		return nil, false, false
	}
	bo, ok := rets[0].Results[0].(*ssa.BinOp)
	if !ok || (bo.Op != token.EQL && bo.Op != token.NEQ) {
		return nil, false, false
	}
	k, isK := core.ConstInt(bo.Y)
	if !isK || k != 0 {
		return nil, false, false
	}
	x, isLen := lenOf(bo.X)
	if !isLen {
		return nil, false, false
	}
	u, ok := x.(*ssa.UnOp)
	if !ok || u.Op != token.MUL {
		return nil, false, false
	}
	_, fv, ok := core.FieldAddrOf(u.X)
	if !ok || core.RootOfAddr(u.X) != ssa.Value(h.Params[0]) {
		return nil, false, false
	}
	return fv, bo.Op == token.EQL, true
}

// checkCallbackErrors implements R9.10: the decoders run inside quip callbacks that have no error result; a failure of a
// consume helper called there reaches the caller only as a panic that quip turns back into an error. For every call of a
// repository function with an error result made in an error-less function of package data: every path on which the error
// is non-nil (or untested) ends in panic, and no path on which it was tested nil panics with it.
func (c *Ctx) checkCallbackErrors() {
	r := c.R
	r.Rule("R9.10", "decode callbacks report failures: in an error-less function of package data, the error of every repository call leads to panic on every path where it is non-nil or untested, and is not raised on a path where it was tested nil (an inverted test makes every conformant input fail and every malformed one pass)")
	n := 0
	for _, fn := range c.G.Funcs() {
		rel, ok := c.P.PkgOf(fn)
		if !ok || rel != "data" || !c.P.HandWritten(fn) || fn.Synthetic != "" || core.ErrResultIndex(fn.Signature) >= 0 {
			continue
		}
		ord := 0
		for _, ci := range core.CallsIn(fn) {
			h := ci.Common().StaticCallee()
			if h == nil {
				continue
			}
			if _, isRepo := c.P.PkgOf(h); !isRepo {
				continue
			}
			e, has := core.ErrResultOfCall(ci)
			if !has {
				continue
			}
			ord++
			n++
			key := fmt.Sprintf("%s/callback-error:%s#%d", core.FuncName(fn), h.Name(), ord)
			pos := c.P.Pos(ci.Pos())
			if e == nil {
				r.Violate("R9.10", key, pos, "the error of "+h.Name()+" is discarded in a callback that cannot return it")
				continue
			}
			var bad []string
			complete := core.EnumPathsFrom(ci.Block(), 2, 20000, func(path []*ssa.BasicBlock) {
				state := "untested"
				for i := 0; i+1 < len(path); i++ {
					if cond, taken, isBr := core.BranchTaken(path[i], path[i+1]); isBr {
						if x, trueMeansNil, isNil := core.NilCmp(cond); isNil && x == e {
							if taken == trueMeansNil {
								state = "nil"
							} else {
								state = "nonnil"
							}
						}
					}
				}
				last := path[len(path)-1]
				p, isPanic := last.Instrs[len(last.Instrs)-1].(*ssa.Panic)
				switch {
				case state != "nil" && !isPanic:
					bad = append(bad, "a path on which the error may be non-nil ends without panic: the failure is dropped and the partly assembled value is used")
				case state == "nil" && isPanic:
					x := p.X
					if mi, ok := x.(*ssa.MakeInterface); ok {
						x = mi.X
					}
					if x == e {
						bad = append(bad, "panics with the error on the path where it was tested nil (the test is inverted)")
					}
				}
			})
			if !complete {
				r.Undecided("R9.10", key, pos, "path enumeration exceeded its bound")
				continue
			}
			r.Check(len(bad) == 0, "R9.10", key, pos, "the helper's error is raised exactly when it is non-nil", uniqJoin(bad))
		}
	}
	r.Floor("R9.10", n, 1)
}

// checkDecoderLoopRuns implements R9.11: a decoder's loop runs while input remains. For every decoder loop whose header
// tests len(buffer) against 0, the loop body (where the tag is consumed) is on the edge where the length is not zero.
// An inverted test makes the decoder skip every field of a non-empty message and accept it as an empty one.
func (c *Ctx) checkDecoderLoopRuns(decs []*decoder) {
	r := c.R
	r.Rule("R9.11", "a decoder loop runs while input remains: when the loop header compares len(buffer) with 0, the tag-consuming body lies on the edge where the length is non-zero")
	n := 0
	for _, d := range decs {
		if d.header == nil || d.tag == nil {
			continue
		}
		iff := core.BlockIf(d.header)
		if iff == nil || len(d.header.Succs) != 2 {
			continue
		}
		emptyWhen, ok := c.emptyOutcome(iff.Cond)
		if !ok {
			continue
		}
		n++
		key := "data." + d.fn.Name() + "/loop-runs-while-input"
		bodyIdx := -1
		for i, s := range d.header.Succs {
			if s == d.tag.Block() || s.Dominates(d.tag.Block()) {
				bodyIdx = i
			}
		}
		// the body is on the outcome that means "not empty": Succs[0] is the true outcome
		good := (bodyIdx == 0 && !emptyWhen) || (bodyIdx == 1 && emptyWhen)
		r.Check(good, "R9.11", key, c.P.Pos(iff.Cond.Pos()), "the loop body runs while len(buffer) != 0", "the loop body runs when the buffer is empty and is skipped when it is not: every field of a non-empty message is ignored")
	}
	r.Floor("R9.11", n, 1)
}

// checkPackedRunConsumed implements R9.12: the helper that decodes a packed run succeeds exactly when nothing is left over:
// in a function of package data that consumes varints in a counted loop from a []byte parameter, every nil-error return is
// dominated by the edge on which len(rest) is zero.
func (c *Ctx) checkPackedRunConsumed() {
	r := c.R
	r.Rule("R9.12", "a packed run is consumed completely: the counted varint-consuming helper returns a nil error only on the edge where the remaining buffer is empty (len == 0), so trailing or truncated bytes are rejected and a complete run is accepted")
	n := 0
	for _, fn := range c.P.RepoFuncs {
		rel, ok := c.P.PkgOf(fn)
		if !ok || rel != "data" || !c.P.HandWritten(fn) || len(fn.Blocks) == 0 {
			continue
		}
		errIdx := core.ErrResultIndex(fn.Signature)
		if errIdx != 0 || fn.Signature.Results().Len() != 1 {
			continue
		}
		// a counted loop (integer counter phi compared with a bound) that consumes varints, no tag consumption
		consumes, hasTag, counted := false, false, false
		for _, ci := range core.CallsIn(fn) {
			if call, ok := ci.(*ssa.Call); ok {
				if pwName(call) == "ConsumeVarint" && core.InCycle(call.Block()) {
					consumes = true
				}
				if pwName(call) == "ConsumeTag" {
					hasTag = true
				}
				if fw := c.forwarderOfCall(call); fw != nil {
					if fw.pw == "ConsumeVarint" && core.InCycle(call.Block()) {
						consumes = true
					}
					if fw.pw == "ConsumeTag" {
						hasTag = true
					}
				}
			}
		}
		for _, b := range fn.Blocks {
			if iff := core.BlockIf(b); iff != nil {
				if bo, ok := iff.Cond.(*ssa.BinOp); ok && bo.Op == token.LSS {
					if phi, ok := core.Unconv(bo.X).(*ssa.Phi); ok && phi.Block() == b && isCounterFromNonNeg(phi) {
						counted = true
					}
				}
			}
		}
		if !consumes || hasTag || !counted {
			continue
		}
		n++
		key := "data." + fn.Name() + "/run-consumed"
		var bad []string
		for _, ret := range core.Returns(fn) {
			if !core.IsNilConst(core.ResolvedResults(ret)[0]) {
				continue
			}
			empty := core.GuardedBy(ret.Block(), func(cond ssa.Value) (bool, bool) {
				emptyWhen, ok := c.emptyOutcome(cond)
				if !ok {
					return false, false
				}
				return emptyWhen, true
			})
			if !empty {
				bad = append(bad, fmt.Sprintf("the nil return at %s is not confined to an empty remainder", c.P.Pos(ret.Pos())))
			}
		}
		r.Check(len(bad) == 0, "R9.12", key, c.P.Pos(fn.Pos()), "succeeds exactly when the run is consumed to the last byte", uniqJoin(bad))
	}
	r.Floor("R9.12", n, 1)
}

// emptyOutcome decodes a condition that decides whether a decoder's input is exhausted: len(buf) compared with 0, or the
// cursor object's done() method (possibly negated). It returns the truth value of the condition that means "empty".
func (c *Ctx) emptyOutcome(cond ssa.Value) (emptyWhen bool, ok bool) {
	neg := false
	if u, isNot := cond.(*ssa.UnOp); isNot && u.Op == token.NOT {
		cond, neg = u.X, true
	}
	switch x := cond.(type) {
	case *ssa.BinOp:
		if _, isLen := lenOf(x.X); !isLen {
			return false, false
		}
		k, isK := core.ConstInt(x.Y)
		if !isK || k != 0 {
			return false, false
		}
		switch x.Op {
		case token.NEQ, token.GTR:
			return neg, true // (len != 0) is true when input remains: empty when false
		case token.EQL, token.LEQ:
			return !neg, true
		}
	case *ssa.Call:
		if _, trueMeansExhausted, isDone := c.cursorDoneMethod(x.Call.StaticCallee()); isDone {
			return trueMeansExhausted != neg, true
		}
	}
	return false, false
}
