package rules

import (
	"fmt"
	"go/types"
	"strings"

	"golang.org/x/tools/go/ssa"

	"verifchk/internal/core"
)

func init() { Registry["C16"] = c16 }

func isLinkType(t types.Type) bool {
	n, ok := types.Unalias(t).(*types.Named)
	if !ok || n.Obj().Pkg() == nil {
		return false
	}
	return n.Obj().Name() == "Link" && strings.HasPrefix(n.Obj().Pkg().Path(), "github.com/ipld/go-ipld-prime")
}

// linkResultIndex: index of the first result of type datamodel.Link, or -1.
func linkResultIndex(sig *types.Signature) int {
	for i := 0; i < sig.Results().Len(); i++ {
		if isLinkType(sig.Results().At(i).Type()) {
			return i
		}
	}
	return -1
}

func storeSiteKind(call ssa.CallInstruction) string {
	for _, s := range core.StoreSites(call.Parent()) {
		if s.Call == call {
			return s.What
		}
	}
	return ""
}

func c16(c *Ctx) {
	r := c.R
	r.Explain = "C16 (children before parents; clean failure): decides (R16.1) that every link a builder embeds into a block it stores is, by data dependence, the result of a completed LinkSystem.Store of the same build or a link taken from a caller-supplied entry — with R16.4 (no ComputeLink, no goroutine, no deferred store in the builder packages; LinkSystem.Store encodes, writes and then commits, asserted in the dependency) this fixes the commit order for every write prefix; (R16.2) that every error surfaced by a call that may reach a store is propagated on every path; (R16.3) that no function of the builder packages returns a non-nil link together with a possibly non-nil error. Not decided: what the store contains after a crash inside the storage layer itself."
	r.Rule("R16.1", "link provenance: the link argument of every directory-entry/link construction in the builder packages derives (through phis, struct fields all of whose stores qualify, and range elements) from result 0 of a Store-reaching builder call or LinkSystem.Store, from an accessor of a caller-supplied entry/node, or from a parameter (checked at the callers)")
	r.Rule("R16.2", "C12's propagation rule on the store side: for each call site in the builder packages whose callees reach LinkSystem.Store and that returns an error, the error reaches the enclosing function's error result on every path (quick builder: its error-less API panics, listed)")
	r.Rule("R16.3", "every return of a builder function with (Link, …, error) results has a nil link, or a nil error, or is dominated by err == nil for the error it returns, or forwards the results of a repository callee that itself satisfies the rule (forwarding LinkSystem.Store raw is a violation: it returns (link, commitErr))")
	r.Rule("R16.5", "builder calls share no mutable state: no package-level variable of the builder packages is written outside package initialisation (a link remembered from an earlier build was committed to that build's store, not this one)")
	r.Rule("R16.6", "blocks reach the caller's storage only through (*LinkSystem).Store: a storage write opener (or committer) is called in the builder packages only inside a function that is itself a write opener (the byte-counting wrapper that forwards to the original); a raw write/commit elsewhere bypasses the encode → write → commit order by which a parent is committed after its children")
	r.Rule("R16.7", "codec agreement at every store site of the builder packages: a node made by basicnode.NewBytes is stored under a link prototype whose codec is raw (0x55), a node built with the dag-pb builder under one whose codec is dag-pb (0x70) — the wrong prototype makes the encoder reject the node (a valid tree is refused) or yields a block whose CID lies about its content")
	r.Rule("R16.4", "no LinkSystem.ComputeLink, no go statement, no deferred call that reaches a store in the builder packages; (*LinkSystem).Store calls the storage committer after the encoder (dependency assertion)")

	bp := core.BuilderPkgs
	L, _ := c.loadCarrying(bp, core.StoreSites)
	r.Analysed["store_carrying_functions"] = len(L)

	// ---- R16.3
	n163 := 0
	ok163 := map[*ssa.Function]bool{}
	var linkFns []*ssa.Function
	for _, fn := range c.G.Funcs() {
		rel, ok := c.P.PkgOf(fn)
		if !ok || !bp[rel] || fn.Synthetic != "" {
			continue
		}
		if linkResultIndex(fn.Signature) >= 0 && core.ErrResultIndex(fn.Signature) >= 0 {
			linkFns = append(linkFns, fn)
		}
	}
	// iterate to a fixpoint because forwarding depends on callees
	problems := map[*ssa.Function][]string{}
	for _, fn := range linkFns {
		ok163[fn] = true
	}
	for changed := true; changed; {
		changed = false
		for _, fn := range linkFns {
			ps := c.linkErrReturns(fn, ok163)
			problems[fn] = ps
			if len(ps) > 0 && ok163[fn] {
				ok163[fn] = false
				changed = true
			}
		}
	}
	for _, fn := range linkFns {
		n163++
		key := core.FuncName(fn) + "/no-link-with-error"
		r.Check(len(problems[fn]) == 0, "R16.3", key, c.P.Pos(fn.Pos()), "no return pairs a non-nil link with a possibly non-nil error", uniqJoin(problems[fn]))
	}
	r.Floor("R16.3", n163, 7)

	// ---- R16.2
	n162 := 0
	for _, fn := range c.G.Funcs() {
		rel, ok := c.P.PkgOf(fn)
		if !ok || !bp[rel] || fn.Synthetic != "" {
			continue
		}
		for _, call := range core.CallsIn(fn) {
			is, why := c.carrier(fn, call, L, storeSiteKind)
			if !is {
				continue
			}
			n162++
			key := callKey(c.P, fn, call)
			pos := c.P.Pos(call.Pos())
			probs, noErr, complete := core.CheckErrPropagated(fn, call)
			if !complete {
				r.Undecided("R16.2", key, pos, "path enumeration exceeded its bound")
				continue
			}
			if noErr {
				if rel == "data/builder/quick" && c.errLeadsToPanic(fn, call) {
					r.ExemptOb("R16.2", key, pos, "quick builder API has no error result; the store error leads to panic on every path")
				} else {
					r.Violate("R16.2", key, pos, core.FuncName(fn)+" has no error result and does not panic on the store error ("+why+")")
				}
				continue
			}
			if len(probs) > 0 {
				var ss []string
				for _, p := range probs {
					ss = append(ss, fmt.Sprintf("%s [return at %s]", p.What, c.P.Pos(p.Pos)))
				}
				r.Violate("R16.2", key, pos, "store error ("+why+") not propagated: "+uniqJoin(ss))
			} else {
				r.OK("R16.2", key, pos, "store error ("+why+") reaches the caller on every path")
			}
		}
	}
	r.Floor("R16.2", n162, 12)
	// positive control of the deferred-overwrite clause of the propagation rule (no instance on today's tree)
	{
		fires, keeps := false, true
		for _, fn := range c.G.Funcs() {
			if rel, ok := c.P.PkgOf(fn); !ok || rel != core.Rel(core.ControlPkg) {
				continue
			}
			switch fn.Name() {
			case "CtlC16DeferClobber":
				fires = len(core.ClobberingDefers(fn, core.ErrResultIndex(fn.Signature))) > 0
			case "CtlC16DeferKeeps":
				keeps = len(core.ClobberingDefers(fn, core.ErrResultIndex(fn.Signature))) == 0
			}
		}
		r.Control("R16.2/CtlC16DeferClobber", fires && keeps)
	}

	// ---- R16.1
	n161 := 0
	for _, fn := range c.G.Funcs() {
		rel, ok := c.P.PkgOf(fn)
		if !ok || !bp[rel] {
			continue
		}
		for _, call := range core.CallsIn(fn) {
			var linkArg ssa.Value
			what := ""
			cc := call.Common()
			if f := cc.StaticCallee(); f != nil {
				if _, isRepo := c.P.PkgOf(f); isRepo && f.Signature.Recv() == nil {
					for i := 0; i < f.Signature.Params().Len(); i++ {
						if isLinkType(f.Signature.Params().At(i).Type()) && linkResultIndex(f.Signature) < 0 {
							linkArg, what = cc.Args[i], f.Name()
						}
					}
				}
			}
			if cc.IsInvoke() && cc.Method.Name() == "AssignLink" {
				linkArg, what = cc.Args[0], "AssignLink"
			}
			if linkArg == nil {
				continue
			}
			n161++
			key := callKey(c.P, fn, call) + "/link-arg"
			ok2, why := c.linkProvenance(fn, linkArg, L, map[ssa.Value]bool{}, 0)
			r.Check(ok2, "R16.1", key, c.P.Pos(call.Pos()), "link embedded via "+what+": "+why, "link embedded via "+what+" does not come from a completed store or a caller-supplied entry: "+why)
		}
	}
	// returned links: every non-nil link a builder returns stems from a store of this very call (or a callee's)
	for _, fn := range linkFns {
		li := linkResultIndex(fn.Signature)
		k := 0
		for _, ret := range core.Returns(fn) {
			rr := core.ResolvedResults(ret)
			if core.IsNilConst(rr[li]) {
				continue
			}
			k++
			n161++
			key := fmt.Sprintf("%s/returned-link#%d", core.FuncName(fn), k)
			ok2, why := c.linkProvenance(fn, rr[li], L, map[ssa.Value]bool{}, 0)
			r.Check(ok2, "R16.1", key, c.P.Pos(ret.Pos()), "returned link: "+why, "the returned link does not come from a store performed by this call: "+why)
		}
	}
	r.Floor("R16.1", n161, 12)
	c.checkNoBuilderGlobals("R16.5")

	c.checkNoRawWrites()
	c.checkStoreCodec("R16.7")
	// ---- R16.4
	nbad := 0
	nfun := 0
	for _, fn := range c.G.Funcs() {
		rel, ok := c.P.PkgOf(fn)
		if !ok || !(bp[rel] || rel == core.Rel(core.ControlPkg)) {
			continue
		}
		isCtl := rel == core.Rel(core.ControlPkg)
		if !isCtl {
			nfun++
		}
		for _, b := range fn.Blocks {
			for _, ins := range b.Instrs {
				bad := ""
				switch x := ins.(type) {
				case *ssa.Go:
					bad = "go statement"
				case *ssa.Defer:
					for _, e := range c.G.Out[fn] {
						if e.Site == ssa.Instruction(x) && (L[e.Callee] || len(core.StoreSites(e.Callee)) > 0) {
							bad = "deferred call that reaches a store"
						}
					}
					if core.IsLinkSystemMethod(x.Call.StaticCallee(), map[string]bool{"Store": true, "MustStore": true}) {
						bad = "deferred LinkSystem.Store"
					}
				case *ssa.Call:
					if core.IsLinkSystemMethod(x.Call.StaticCallee(), map[string]bool{"ComputeLink": true, "MustComputeLink": true}) {
						bad = "LinkSystem.ComputeLink (a link without a committed block)"
					}
				}
				if bad == "" {
					continue
				}
				if isCtl {
					if strings.HasPrefix(fn.Name(), "CtlC16") {
						r.Controls["R16.4/"+fn.Name()] = true
					}
					continue
				}
				nbad++
				r.Violate("R16.4", fmt.Sprintf("%s/%s", core.FuncName(fn), strings.Fields(bad)[0]), c.P.Pos(ins.Pos()), bad+" in a builder package breaks the store-order argument")
			}
		}
	}
	for _, name := range []string{"CtlC16Go", "CtlC16ComputeLink"} {
		if !r.Controls["R16.4/"+name] {
			r.Control("R16.4/"+name, false)
		}
	}
	if nbad == 0 {
		r.OK("R16.4", "data/builder/*", "-", fmt.Sprintf("%d builder functions: no ComputeLink, go statement or deferred store", nfun))
	}
	c.assertStoreOrder()
}

// errLeadsToPanic: from the call, every path on which the error is non-nil ends in panic.
func (c *Ctx) errLeadsToPanic(fn *ssa.Function, call ssa.CallInstruction) bool {
	e, has := core.ErrResultOfCall(call)
	if !has || e == nil {
		return false
	}
	// the error handed to a repository helper that panics on it (`return b.must(build(…))`)
	for _, ref := range *e.Referrers() {
		hc, isCall := ref.(*ssa.Call)
		if !isCall {
			continue
		}
		h := hc.Call.StaticCallee()
		if h == nil || len(h.Blocks) == 0 {
			continue
		}
		if _, isRepo := c.P.PkgOf(h); !isRepo {
			continue
		}
		for i, a := range hc.Call.Args {
			if a != e || i >= len(h.Params) || !c.paramLeadsToPanic(h, h.Params[i]) {
				continue
			}
			all := true
			core.EnumPathsFrom(call.Block(), 2, 20000, func(path []*ssa.BasicBlock) {
				found := false
				for _, b := range path {
					if b == hc.Block() {
						found = true
					}
				}
				if !found {
					all = false
				}
			})
			if all {
				return true
			}
		}
	}
	ok := true
	tested := false
	core.EnumPathsFrom(call.Block(), 2, 20000, func(path []*ssa.BasicBlock) {
		state := "untested"
		for i := 0; i+1 < len(path); i++ {
			if cond, taken, isBr := core.BranchTaken(path[i], path[i+1]); isBr {
				if x, trueMeansNil, isNil := core.NilCmp(cond); isNil && x == e {
					tested = true
					if taken == trueMeansNil {
						state = "nil"
					} else {
						state = "nonnil"
					}
				}
			}
		}
		last := path[len(path)-1]
		_, isPanic := last.Instrs[len(last.Instrs)-1].(*ssa.Panic)
		if state == "nonnil" && !isPanic {
			ok = false
		}
		if state == "untested" && !isPanic {
			ok = false
		}
	})
	return ok && tested
}

// linkErrReturns lists the returns of fn that may pair a non-nil link with a non-nil error.
func (c *Ctx) linkErrReturns(fn *ssa.Function, okFns map[*ssa.Function]bool) []string {
	li, ei := linkResultIndex(fn.Signature), core.ErrResultIndex(fn.Signature)
	var out []string
	for _, ret := range core.Returns(fn) {
		rr := core.ResolvedResults(ret)
		l, e := rr[li], rr[ei]
		if core.IsNilConst(l) || core.IsNilConst(e) {
			continue
		}
		if c.guardedErrNil(ret.Block(), e) {
			continue
		}
		// forwarding both results of one call
		le, lok := l.(*ssa.Extract)
		ee, eok := e.(*ssa.Extract)
		if lok && eok && le.Tuple == ee.Tuple {
			if call, ok := le.Tuple.(*ssa.Call); ok {
				callee := call.Call.StaticCallee()
				if callee != nil {
					if _, isRepo := c.P.PkgOf(callee); isRepo {
						if okFns[callee] && le.Index == linkResultIndex(callee.Signature) && ee.Index == core.ErrResultIndex(callee.Signature) {
							continue
						}
						out = append(out, fmt.Sprintf("return at %s forwards %s, which may return a link together with an error", c.P.Pos(ret.Pos()), callee.Name()))
						continue
					}
				}
				// external: guarded by err == nil?
				if c.guardedErrNil(ret.Block(), e) {
					continue
				}
				out = append(out, fmt.Sprintf("return at %s forwards the raw results of %s (LinkSystem.Store returns the link even when the commit failed)", c.P.Pos(ret.Pos()), shorten(core.CalleeName(call))))
				continue
			}
		}
		if c.guardedErrNil(ret.Block(), e) {
			continue
		}
		out = append(out, fmt.Sprintf("return at %s returns a link with an error that is not known to be nil", c.P.Pos(ret.Pos())))
	}
	return out
}

func (c *Ctx) guardedErrNil(b *ssa.BasicBlock, e ssa.Value) bool {
	return core.GuardedBy(b, func(cond ssa.Value) (bool, bool) {
		x, trueMeansNil, ok := core.NilCmp(cond)
		if !ok || x != e {
			return false, false
		}
		return trueMeansNil, true
	})
}

// linkProvenance decides whether link value v is the product of a completed store or comes from a caller-supplied entry.
func (c *Ctx) linkProvenance(fn *ssa.Function, v ssa.Value, L map[*ssa.Function]bool, seen map[ssa.Value]bool, depth int) (bool, string) {
	if depth > 12 {
		return false, "provenance too deep"
	}
	if seen[v] {
		return true, "cycle"
	}
	seen[v] = true
	switch x := v.(type) {
	case *ssa.Const:
		if x.Value == nil {
			return true, "nil link"
		}
	case *ssa.Parameter:
		return true, "parameter " + x.Name() + " (caller-supplied; call sites are checked on their own)"
	case *ssa.FreeVar:
		return true, "captured variable " + x.Name()
	case *ssa.Phi:
		for _, e := range x.Edges {
			if ok, why := c.linkProvenance(fn, e, L, seen, depth+1); !ok {
				return false, why
			}
		}
		return true, "all incoming values qualify"
	case *ssa.ChangeInterface:
		return c.linkProvenance(fn, x.X, L, seen, depth+1)
	case *ssa.Extract:
		call, ok := x.Tuple.(*ssa.Call)
		if !ok {
			break
		}
		return c.linkFromCall(fn, call, x.Index, L)
	case *ssa.Call:
		return c.linkFromCall(fn, x, 0, L)
	case *ssa.UnOp:
		// load of a struct field / slice element / captured cell
		switch a := x.X.(type) {
		case *ssa.FieldAddr:
			_, fv, _ := core.FieldAddrOf(a)
			return c.fieldLinkProvenance(fv, L, seen, depth+1)
		case *ssa.IndexAddr:
			return c.linkProvenance(fn, a.X, L, seen, depth+1)
		case *ssa.Alloc:
			for _, ref := range *a.Referrers() {
				if st, ok := ref.(*ssa.Store); ok && st.Addr == ssa.Value(a) {
					if ok2, why := c.linkProvenance(fn, st.Val, L, seen, depth+1); !ok2 {
						return false, why
					}
				}
			}
			return true, "local variable assigned only qualifying links"
		}
	case *ssa.Field:
		if st, ok := x.X.Type().Underlying().(*types.Struct); ok {
			return c.fieldLinkProvenance(st.Field(x.Field), L, seen, depth+1)
		}
	case *ssa.MakeInterface:
		return false, fmt.Sprintf("link value constructed locally (%s) rather than returned by a store", core.TypeNameOf(x.X.Type()))
	}
	return false, fmt.Sprintf("unrecognised link source %T", v)
}

func (c *Ctx) linkFromCall(fn *ssa.Function, call *ssa.Call, idx int, L map[*ssa.Function]bool) (bool, string) {
	cc := call.Common()
	if f := cc.StaticCallee(); f != nil {
		if core.IsLinkSystemMethod(f, map[string]bool{"Store": true, "MustStore": true}) && idx == 0 {
			return true, "result of LinkSystem.Store"
		}
		if _, isRepo := c.P.PkgOf(f); isRepo {
			if L[f] && idx == linkResultIndex(f.Signature) {
				return true, "result of store-reaching builder " + f.Name()
			}
			if linkResultIndex(f.Signature) == idx && f.Signature.Recv() != nil && f.Name() == "Link" {
				return true, "Link() of a previously built node"
			}
			return false, "result of " + f.Name() + ", which does not store a block"
		}
		// accessor of an existing dag-pb link / node: e.Hash.Link(), FieldHash().Link()
		if f.Name() == "Link" && f.Signature.Recv() != nil {
			return true, "link read from an existing entry (" + shorten(recvTypeName(f)) + ".Link())"
		}
		return false, "result of external " + shorten(f.String())
	}
	if cc.IsInvoke() && cc.Method.Name() == "Link" {
		return true, "Link() of a caller-supplied node"
	}
	return false, "result of a dynamic call"
}

// fieldLinkProvenance: every store to the link-typed struct field qualifies.
func (c *Ctx) fieldLinkProvenance(fv *types.Var, L map[*ssa.Function]bool, seen map[ssa.Value]bool, depth int) (bool, string) {
	n := 0
	for _, fn := range c.G.Funcs() {
		if _, ok := c.P.PkgOf(fn); !ok {
			continue
		}
		for _, b := range fn.Blocks {
			for _, ins := range b.Instrs {
				st, ok := ins.(*ssa.Store)
				if !ok {
					continue
				}
				_, sf, ok := core.FieldAddrOf(st.Addr)
				if !ok || sf != fv {
					continue
				}
				n++
				if ok2, why := c.linkProvenance(fn, st.Val, L, seen, depth+1); !ok2 {
					return false, fmt.Sprintf("field %s is assigned at %s: %s", fv.Name(), c.P.Pos(st.Pos()), why)
				}
			}
		}
	}
	if n == 0 {
		return false, "field " + fv.Name() + " is never assigned"
	}
	return true, fmt.Sprintf("field %s is assigned only results of completed stores (%d store(s))", fv.Name(), n)
}

// assertStoreOrder: in (*linking.LinkSystem).Store the call of the committer comes after the call of the encoder and
// after the StorageWriteOpener call, on every path that reaches the committer.
func (c *Ctx) assertStoreOrder() {
	sp := c.P.DepSSAPkg("github.com/ipld/go-ipld-prime/linking")
	key := "dep:linking.(*LinkSystem).Store/encode-then-commit"
	if sp == nil {
		c.R.Break("linking package not loaded")
		return
	}
	var store *ssa.Function
	if t := sp.Type("LinkSystem"); t != nil {
		ms := c.P.SSA.MethodSets.MethodSet(types.NewPointer(t.Type()))
		for i := 0; i < ms.Len(); i++ {
			if ms.At(i).Obj().Name() == "Store" {
				store = c.P.SSA.MethodValue(ms.At(i))
			}
		}
	}
	if store == nil {
		c.R.Break("(*LinkSystem).Store not found")
		return
	}
	// classify dynamic calls by the static type of the called value
	var enc, commit, open []*ssa.Call
	for _, ci := range core.CallsIn(store) {
		call, ok := ci.(*ssa.Call)
		if !ok || call.Call.IsInvoke() || call.Call.StaticCallee() != nil {
			continue
		}
		tn := types.TypeString(call.Call.Value.Type(), nil)
		switch {
		case strings.HasSuffix(tn, "codec.Encoder"):
			enc = append(enc, call)
		case strings.HasSuffix(tn, "BlockWriteCommitter"):
			commit = append(commit, call)
		case strings.HasSuffix(tn, "BlockWriteOpener"):
			open = append(open, call)
		}
	}
	ok := len(enc) > 0 && len(commit) > 0 && len(open) > 0
	if ok {
		for _, cm := range commit {
			for _, e := range enc {
				if !dominatesInstr(e, cm) {
					ok = false
				}
			}
			for _, o := range open {
				if !dominatesInstr(o, cm) {
					ok = false
				}
			}
		}
	}
	c.R.Check(ok, "R16.4", key, c.P.Pos(store.Pos()), "LinkSystem.Store opens the writer, encodes, and only then commits under the computed link; it returns (link, commitErr)", "cannot confirm open → encode → commit order inside LinkSystem.Store")
}

func dominatesInstr(a, b ssa.Instruction) bool {
	if a.Block() == b.Block() {
		for _, ins := range a.Block().Instrs {
			if ins == a {
				return true
			}
			if ins == b {
				return false
			}
		}
	}
	return a.Block().Dominates(b.Block())
}

// checkNoBuilderGlobals: no store / map update / element store to a package-level variable of the builder packages
// outside init (used by C16 R16.5 and C18 R18.5).
func (c *Ctx) checkNoBuilderGlobals(rule string) {
	r := c.R
	n, nfun := 0, 0
	for _, fn := range c.G.Funcs() {
		rel, ok := c.P.PkgOf(fn)
		if !ok || !core.BuilderPkgs[rel] {
			continue
		}
		if fn.Name() == "init" || strings.HasPrefix(fn.Name(), "init#") || (fn.Parent() != nil && fn.Parent().Name() == "init") {
			continue
		}
		nfun++
		for _, b := range fn.Blocks {
			for _, ins := range b.Instrs {
				var gl *ssa.Global
				switch x := ins.(type) {
				case *ssa.Store:
					if g, ok := core.RootOfAddr(x.Addr).(*ssa.Global); ok {
						gl = g
					}
				case *ssa.MapUpdate:
					if u, ok := x.Map.(*ssa.UnOp); ok {
						if g, ok := core.RootOfAddr(u.X).(*ssa.Global); ok {
							gl = g
						}
					}
				case *ssa.Call:
					// sync.Once / Mutex on a package-level variable guards package-level state
					if f := x.Call.StaticCallee(); f != nil && f.Pkg != nil && f.Pkg.Pkg.Path() == "sync" && len(x.Call.Args) > 0 {
						if g, ok := core.RootOfAddr(x.Call.Args[0]).(*ssa.Global); ok {
							gl = g
						}
					}
				}
				if gl == nil {
					continue
				}
				n++
				r.Violate(rule, fmt.Sprintf("%s/global-state:%s", core.FuncName(fn), gl.Name()), c.P.Pos(ins.Pos()), "package-level variable "+gl.Name()+" is modified during a build: results of one build (e.g. a stored link) leak into the next, whose store never received that block")
			}
		}
	}
	seenIns := map[ssa.Instruction]bool{}
	for _, m := range c.G.GlobalMutations(core.BuilderPkgs) {
		if seenIns[m.Ins] {
			continue
		}
		seenIns[m.Ins] = true
		if m.What == "store" || m.What == "map update" {
			continue // reported by the direct scan above
		}
		n++
		r.Violate(rule, fmt.Sprintf("%s/global-state:%s", core.FuncName(m.Fn), m.Global.Name()), c.P.Pos(m.Ins.Pos()), "package-level variable "+m.Global.Name()+" is modified during a build ("+m.What+"): results of one build leak into the next, whose store never received that block")
	}
	if n == 0 {
		r.OK(rule, "data/builder/*/no-global-state", "-", fmt.Sprintf("%d builder functions: no package-level variable is written outside init", nfun))
	}
}

// paramLeadsToPanic: in h, every path on which error parameter p is non-nil (or untested) ends in panic.
func (c *Ctx) paramLeadsToPanic(h *ssa.Function, p *ssa.Parameter) bool {
	ok, tested := true, false
	core.EnumPaths(h, 2, 20000, func(path []*ssa.BasicBlock) {
		state := "untested"
		for i := 0; i+1 < len(path); i++ {
			if cond, taken, isBr := core.BranchTaken(path[i], path[i+1]); isBr {
				if x, trueMeansNil, isNil := core.NilCmp(cond); isNil && x == ssa.Value(p) {
					tested = true
					if taken == trueMeansNil {
						state = "nil"
					} else {
						state = "nonnil"
					}
				}
			}
		}
		last := path[len(path)-1]
		_, isPanic := last.Instrs[len(last.Instrs)-1].(*ssa.Panic)
		if state != "nil" && !isPanic {
			ok = false
		}
	})
	return ok && tested
}

// checkNoRawWrites implements R16.6.
func (c *Ctx) checkNoRawWrites() {
	r := c.R
	isOpenerShaped := func(fn *ssa.Function) bool {
		sig := fn.Signature
		if sig.Params().Len() != 1 || sig.Results().Len() != 3 {
			return false
		}
		return strings.HasSuffix(types.TypeString(sig.Params().At(0).Type(), nil), "linking.LinkContext") &&
			strings.HasSuffix(types.TypeString(sig.Results().At(1).Type(), nil), "linking.BlockWriteCommitter")
	}
	rawKind := func(cc *ssa.CallCommon) string {
		if cc.IsInvoke() || cc.StaticCallee() != nil {
			return ""
		}
		if _, isB := cc.Value.(*ssa.Builtin); isB {
			return ""
		}
		ts := types.TypeString(cc.Value.Type(), nil)
		switch {
		case strings.HasSuffix(ts, "linking.BlockWriteOpener"):
			return "storage write opener"
		case strings.HasSuffix(ts, "linking.BlockWriteCommitter"):
			return "block committer"
		}
		return ""
	}
	n, nbad := 0, 0
	ctl := false
	for _, fn := range c.G.Funcs() {
		rel, ok := c.P.PkgOf(fn)
		isCtl := rel == core.Rel(core.ControlPkg)
		if !ok || !(core.BuilderPkgs[rel] || isCtl) {
			continue
		}
		ord := 0
		for _, ci := range core.CallsIn(fn) {
			kind := rawKind(ci.Common())
			if kind == "" {
				continue
			}
			if isCtl {
				ctl = true
				continue
			}
			n++
			ord++
			key := fmt.Sprintf("%s/raw-write#%d", core.FuncName(fn), ord)
			if isOpenerShaped(fn) {
				r.OK("R16.6", key, c.P.Pos(ci.Pos()), "the "+kind+" is called inside a write opener that forwards to it (byte-counting wrapper)")
				continue
			}
			// a committer wrapper: a closure returned as the committer of an opener-shaped parent
			if fn.Parent() != nil && isOpenerShaped(fn.Parent()) {
				r.OK("R16.6", key, c.P.Pos(ci.Pos()), "the "+kind+" is called inside the committer returned by a forwarding write opener")
				continue
			}
			nbad++
			r.Violate("R16.6", key, c.P.Pos(ci.Pos()), "a "+kind+" is called directly in "+core.FuncName(fn)+": the block is written to the caller's storage outside (*LinkSystem).Store, so the order in which blocks become visible is no longer children-before-parent")
		}
	}
	r.Control("R16.6/CtlC16RawWrite", ctl)
	if nbad == 0 {
		r.OK("R16.6", "data/builder/*/no-raw-write", "-", fmt.Sprintf("%d direct opener/committer call(s) in the builder packages, none outside a forwarding write opener", n))
	}
}

// protoCodec reads the Codec constant of a package-level LinkPrototype passed (boxed or not) as v.
func (c *Ctx) protoCodec(v ssa.Value) (int64, string, bool) {
	if mi, ok := v.(*ssa.MakeInterface); ok {
		v = mi.X
	}
	u, ok := v.(*ssa.UnOp)
	if !ok {
		return 0, "", false
	}
	gl, ok := u.X.(*ssa.Global)
	if !ok || gl.Pkg == nil {
		return 0, "", false
	}
	initFn := gl.Pkg.Func("init")
	if initFn == nil {
		return 0, "", false
	}
	for _, b := range initFn.Blocks {
		for _, ins := range b.Instrs {
			st, ok := ins.(*ssa.Store)
			if !ok || core.RootOfAddr(st.Addr) != ssa.Value(gl) {
				continue
			}
			if _, fv, ok := core.FieldAddrOf(st.Addr); ok && fv.Name() == "Codec" {
				if k, ok := core.ConstInt(st.Val); ok {
					return k, gl.Name(), true
				}
			}
		}
	}
	return 0, "", false
}

// nodeFlavour classifies a node value by the constructor it comes from: "bytes" (basicnode.NewBytes), "dagpb" (Build() of
// a dag-pb node builder, directly or as the result of a repository function all of whose returns are such), or "".
func (c *Ctx) nodeFlavour(v ssa.Value, depth int) string {
	if v == nil || depth > 4 {
		return ""
	}
	switch x := v.(type) {
	case *ssa.MakeInterface:
		return c.nodeFlavour(x.X, depth+1)
	case *ssa.ChangeInterface:
		return c.nodeFlavour(x.X, depth+1)
	case *ssa.Extract:
		if call, ok := x.Tuple.(*ssa.Call); ok {
			return c.callFlavour(call, x.Index, depth+1)
		}
	case *ssa.Call:
		return c.callFlavour(x, 0, depth+1)
	case *ssa.Phi:
		fl := ""
		for _, e := range x.Edges {
			if core.IsNilConst(e) {
				continue
			}
			f := c.nodeFlavour(e, depth+1)
			if f == "" || (fl != "" && f != fl) {
				return ""
			}
			fl = f
		}
		return fl
	}
	return ""
}

func (c *Ctx) callFlavour(call *ssa.Call, idx int, depth int) string {
	cc := call.Common()
	if f := cc.StaticCallee(); f != nil {
		if f.Name() == "NewBytes" && f.Pkg != nil && (strings.HasSuffix(f.Pkg.Pkg.Path(), "node/basic") || strings.HasSuffix(f.Pkg.Pkg.Path(), "node/basicnode")) {
			return "bytes"
		}
		if _, isRepo := c.P.PkgOf(f); isRepo && len(f.Blocks) > 0 {
			fl := ""
			for _, ret := range core.Returns(f) {
				rr := core.ResolvedResults(ret)
				if idx >= len(rr) || core.IsNilConst(rr[idx]) {
					continue
				}
				g := c.nodeFlavour(rr[idx], depth+1)
				if g == "" || (fl != "" && g != fl) {
					return ""
				}
				fl = g
			}
			return fl
		}
	}
	name, recv := methodCall(call)
	if name == "Build" && recv != nil {
		// the builder: X.NewBuilder() with X a dag-pb type slab member / prototype
		if bc, ok := recv.(*ssa.Call); ok {
			if n2, r2 := methodCall(bc); n2 == "NewBuilder" && r2 != nil && strings.Contains(types.TypeString(r2.Type(), nil), "go-codec-dagpb") {
				return "dagpb"
			}
		}
	}
	return ""
}

// checkStoreCodec implements R16.7 / R18.6.
func (c *Ctx) checkStoreCodec(rule string) {
	r := c.R
	n := 0
	for _, fn := range c.G.Funcs() {
		rel, ok := c.P.PkgOf(fn)
		if !ok || !core.BuilderPkgs[rel] {
			continue
		}
		ord := 0
		for _, ci := range core.CallsIn(fn) {
			call, ok := ci.(*ssa.Call)
			if !ok {
				continue
			}
			var codec int64
			var pname string
			found := false
			for _, a := range call.Call.Args {
				if k, nm, ok := c.protoCodec(a); ok {
					codec, pname, found = k, nm, true
				}
			}
			if !found {
				continue
			}
			flavour := ""
			for _, a := range call.Call.Args {
				if f := c.nodeFlavour(a, 0); f != "" {
					flavour = f
				}
			}
			if flavour == "" {
				continue
			}
			n++
			ord++
			key := fmt.Sprintf("%s/store-codec#%d", core.FuncName(fn), ord)
			want := map[string]int64{"bytes": 0x55, "dagpb": 0x70}[flavour]
			r.Check(codec == want, rule, key, c.P.Pos(call.Pos()), fmt.Sprintf("a %s node is stored under %s (codec %#x)", flavour, pname, codec), fmt.Sprintf("a %s node is stored under %s, whose codec is %#x, not %#x: the encoder rejects the node or the CID misstates the block's format", flavour, pname, codec, want))
		}
	}
	r.Floor(rule, n, 3)
}
