package rules

import (
	"fmt"
	"go/constant"
	"go/token"
	"go/types"
	"strings"

	"golang.org/x/tools/go/ssa"

	"verifchk/internal/core"
)

func init() { Registry["C12"] = c12 }

// nativeNoErrorAPI: typed accessors that mirror go-codec-dagpb's generated API and therefore have no error channel.
// Keyed by package-relative function name; one reason each. Everything else without an error result is a violation.
var nativeNoErrorAPI = map[string]string{
	"(*hamt._UnixFSHAMTShard).Lookup": "native typed accessor mirroring dagpb.PBLinks.Lookup: returns a nil Link when the entry cannot be produced",
	"(*iter.UnixFSDir__Itr).Next":     "native typed iterator mirroring dagpb.PBLinks__Itr.Next: returns (nil, nil) when the entry cannot be produced",
}

// loadCarrying computes L: repository functions with an error result from which a fetch site is reachable.
func (c *Ctx) loadCarrying(pkgs map[string]bool, sites func(*ssa.Function) []core.FetchSite) (map[*ssa.Function]bool, map[*ssa.Function]bool) {
	fet := map[*ssa.Function]bool{}
	for _, f := range c.G.Funcs() {
		rel, ok := c.P.PkgOf(f)
		if !ok || !pkgs[rel] {
			continue
		}
		if len(sites(f)) > 0 {
			fet[f] = true
		}
	}
	reach := c.G.ReachersOf(fet)
	L := map[*ssa.Function]bool{}
	for f := range reach {
		if core.HasErrResult(f) {
			L[f] = true
		}
	}
	return L, reach
}

// carrier reports whether the call may surface a storage error through its error result, and why.
func (c *Ctx) carrier(fn *ssa.Function, call ssa.CallInstruction, L map[*ssa.Function]bool, isSite func(ssa.CallInstruction) string) (bool, string) {
	if w := isSite(call); w != "" {
		return true, w
	}
	if core.ErrResultIndex(call.Common().Signature()) < 0 {
		return false, ""
	}
	for _, e := range c.G.Out[fn] {
		if e.Site == call.(ssa.Instruction) && L[e.Callee] {
			return true, e.Kind + " -> " + core.FuncName(e.Callee)
		}
	}
	return false, ""
}

func fetchSiteKind(call ssa.CallInstruction) string {
	for _, s := range core.FetchSites(call.Parent()) {
		if s.Call == call {
			return s.What
		}
	}
	return ""
}

func callKey(p *core.Program, fn *ssa.Function, call ssa.CallInstruction) string {
	// line-free identity: enclosing function + callee name + ordinal among calls to that callee in the function
	name := core.CalleeName(call)
	if name == "" {
		name = "dynamic " + types.TypeString(call.Common().Value.Type(), nil)
	}
	name = strings.ReplaceAll(name, core.Module+"/", "")
	k := 0
	for _, ci := range core.CallsIn(fn) {
		if core.CalleeName(ci) == core.CalleeName(call) {
			k++
			if ci == call {
				break
			}
		}
	}
	return fmt.Sprintf("%s/call:%s#%d", core.FuncName(fn), shorten(name), k)
}

func shorten(s string) string {
	s = strings.ReplaceAll(s, "github.com/ipld/go-ipld-prime/", "ipld/")
	s = strings.ReplaceAll(s, "github.com/ipld/go-codec-dagpb", "dagpb")
	return s
}

func c12(c *Ctx) {
	r := c.R
	r.Explain = "C12 (unavailable blocks surface as errors): decides, for every call site in the reader packages whose callee may reach a block load (closed-world call graph, including readers handed to io.Copy/io.ReadAll and interface dispatch over repository types), that on every CFG path the load error reaches the enclosing function's error result unchanged or wrapped — never dropped, never replaced by nil/EOF/not-found (R12.1/R12.2); functions without an error channel must be interface-imposed (datamodel.Node methods) or in a two-entry table of native typed accessors; and that sharded-directory iterators advance or report done on every path and clear an exhausted child cursor regardless of the error (R12.3). Not decided: that the bytes delivered before a missing span are exactly right."
	r.Rule("R12.1", "for each call site in RP whose callees (closed-world graph) include a function with an error result that reaches a block load, path-sensitive check from the call to every exit: tested non-nil ⇒ the return carries that error or a wrapper of it; never tested ⇒ the return carries it, or a non-nil error chosen by a test on another result of the same call; enclosing functions without error result must be datamodel.Node methods or listed native accessors")
	r.Rule("R12.2", "(decided together with R12.1) on the non-nil branch the returned error is that value or wraps it — a nil, io.EOF or not-found in its place is reported")
	r.Rule("R12.4", "nothing is remembered about a failed load: a write to the state of a shared node (field store, map update through the receiver) that follows a load-carrying call in the same function is dominated by the nil outcome of that call's error — a verdict memoised after a failure would turn the unavailable block into not-found / empty on the next call")
	r.Rule("R12.5", "a failed Read delivers nothing of its own: no Read method of the file readers returns a non-zero constant byte count (the count comes from the bytes actually copied or from the inner reader)")
	r.Rule("R12.6", "a missing block is reported when the read reaches it, not earlier: sizing the children of a node opens none whose size is recorded (same obligation as R5.4) — otherwise the error of a later block replaces the bytes that precede it")
	r.Rule("R12.3", "iterator Next/next methods with a wrapped cursor: every path to a return advances a wrapped cursor (calls its Next) or has seen Done(); after advancing a nilable child cursor every path tests its Done() and clears it on the true edge before returning, whatever the error")
	L, reach := c.loadCarrying(core.ReaderPkgs, core.FetchSites)
	r.Analysed["load_carrying_functions"] = len(L)
	r.Analysed["functions_reaching_a_load"] = len(reach)
	c.checkNoMemoAfterFailure(L)
	c.checkReadCountOnFailure()
	c.checkNoEarlyOpen()
	c.checkNoInvertedErrorTest("R12.7")
	var nodeIface *types.Interface
	if pk := c.P.All["github.com/ipld/go-ipld-prime/datamodel"]; pk != nil {
		if o := pk.Types.Scope().Lookup("Node"); o != nil {
			nodeIface, _ = o.Type().Underlying().(*types.Interface)
		}
	}
	if nodeIface == nil {
		r.Break("datamodel.Node interface not found")
		return
	}
	nsites, nexempt := 0, 0
	swallowers := map[*ssa.Function]bool{}
	for _, fn := range c.G.Funcs() {
		rel, ok := c.P.PkgOf(fn)
		if !ok || !core.ReaderPkgs[rel] || fn.Synthetic != "" || c.P.IsGenerated(fn.Pos()) {
			continue
		}
		for _, call := range core.CallsIn(fn) {
			is, why := c.carrier(fn, call, L, fetchSiteKind)
			if !is {
				continue
			}
			nsites++
			key := callKey(c.P, fn, call)
			pos := c.P.Pos(call.Pos())
			problems, noErr, complete := core.CheckErrPropagated(fn, call)
			if !complete {
				r.Undecided("R12.1", key, pos, "path enumeration exceeded its bound")
				continue
			}
			if noErr {
				name := core.FuncName(fn)
				if fn.Signature.Recv() != nil && core.ImplementsMethodOf(fn, nodeIface) {
					nexempt++
					swallowers[fn] = true
					r.ExemptOb("R12.1", key, pos, "enclosing method "+name+" has the error-less signature imposed by datamodel.Node; carries "+why)
				} else if reason, ok := nativeNoErrorAPI[name]; ok {
					nexempt++
					swallowers[fn] = true
					r.ExemptOb("R12.1", key, pos, reason+"; carries "+why)
				} else {
					r.Violate("R12.1", key, pos, fmt.Sprintf("%s has no error result, so the storage error carried by this call (%s) cannot be reported", name, why))
				}
				continue
			}
			if len(problems) > 0 {
				var ss []string
				for _, p := range problems {
					ss = append(ss, fmt.Sprintf("%s [return at %s]", p.What, c.P.Pos(p.Pos)))
				}
				r.Violate("R12.1", key, pos, "storage error ("+why+") not propagated: "+uniqJoin(ss))
			} else {
				r.OK("R12.1", key, pos, "error ("+why+") reaches the caller on every path")
			}
		}
	}
	r.Floor("R12.1", nsites, 25)
	r.Floor("R12.1/exempt", nexempt, 4)
	// R12.8: the exempted error-less accessors swallow load errors by signature; an operation that can report errors must
	// not obtain its answer through one of them
	r.Rule("R12.8", "no function with an error result in the reader packages calls one of the error-less accessors exempted under R12.1 (native Lookup / Next, Length, IsNull …): a load error would come back as nil / zero and be reported as not-found, empty or end of data")
	n8 := 0
	for _, fn := range c.G.Funcs() {
		rel, ok := c.P.PkgOf(fn)
		if !ok || !core.ReaderPkgs[rel] || fn.Synthetic != "" || c.P.IsGenerated(fn.Pos()) || core.ErrResultIndex(fn.Signature) < 0 {
			continue
		}
		n8++
		var bad []string
		for _, call := range core.CallsIn(fn) {
			for _, e := range c.G.Out[fn] {
				if e.Site == call && e.Callee != nil && swallowers[e.Callee] {
					bad = append(bad, fmt.Sprintf("call of %s at %s", core.FuncName(e.Callee), c.P.Pos(call.Pos())))
				}
			}
		}
		if len(bad) > 0 {
			r.Violate("R12.8", core.FuncName(fn)+"/no-error-less-detour", c.P.Pos(fn.Pos()), "an error-reporting operation obtains its result through an accessor that cannot report a load error: "+uniqJoin(bad))
		}
	}
	r.OK("R12.8", "reader-packages/no-error-less-detour", "-", fmt.Sprintf("%d error-returning functions call none of the %d error-less load-carrying accessors", n8, len(swallowers)))
	c.checkIterProgress()
}

// cursorField: a receiver field whose type has Next and Done methods.
func hasNextDone(t types.Type) bool {
	ms := types.NewMethodSet(t)
	hasN, hasD := false, false
	for i := 0; i < ms.Len(); i++ {
		switch ms.At(i).Obj().Name() {
		case "Next":
			hasN = true
		case "Done":
			hasD = true
		}
	}
	return hasN && hasD
}

func (c *Ctx) checkIterProgress() {
	r := c.R
	n := 0
	nchild := 0
	// subjects: Next/next methods of types with a wrapped cursor, plus the same-receiver helper methods they delegate the
	// step to (helpers that themselves advance a wrapped cursor)
	cursorFieldsOf := func(recvN *types.Named) map[*types.Var]bool {
		cursors := map[*types.Var]bool{}
		if recvN == nil {
			return cursors
		}
		st, ok := recvN.Underlying().(*types.Struct)
		if !ok {
			return cursors
		}
		for i := 0; i < st.NumFields(); i++ {
			if hasNextDone(st.Field(i).Type()) {
				cursors[st.Field(i)] = true
			}
		}
		return cursors
	}
	advancesCursorDirectly := func(fn *ssa.Function, cursors map[*types.Var]bool) bool {
		if len(fn.Params) == 0 {
			return false
		}
		for _, ci := range core.CallsIn(fn) {
			call, ok := ci.(*ssa.Call)
			if !ok {
				continue
			}
			cc := call.Common()
			var rv ssa.Value
			name := ""
			if cc.IsInvoke() {
				rv, name = cc.Value, cc.Method.Name()
			} else if f := cc.StaticCallee(); f != nil && f.Signature.Recv() != nil && len(cc.Args) > 0 {
				rv, name = cc.Args[0], f.Name()
			}
			if name != "Next" || rv == nil {
				continue
			}
			if u, ok := rv.(*ssa.UnOp); ok && u.Op == token.MUL {
				if _, fv, ok := core.FieldAddrOf(u.X); ok && core.RootOfAddr(u.X) == ssa.Value(fn.Params[0]) && cursors[fv] {
					return true
				}
			}
		}
		return false
	}
	var subjects []*ssa.Function
	isSubject := map[*ssa.Function]bool{}
	for _, fn := range c.G.Funcs() {
		rel, ok := c.P.PkgOf(fn)
		if !ok || !(rel == "hamt" || rel == "iter" || rel == "directory" || rel == "") || fn.Synthetic != "" || c.P.IsGenerated(fn.Pos()) {
			continue
		}
		if fn.Signature.Recv() == nil || (fn.Name() != "Next" && fn.Name() != "next") || len(fn.Params) == 0 {
			continue
		}
		if len(cursorFieldsOf(core.RecvNamed(fn))) == 0 {
			continue
		}
		subjects = append(subjects, fn)
		isSubject[fn] = true
	}
	for i := 0; i < len(subjects); i++ {
		fn := subjects[i]
		cursors := cursorFieldsOf(core.RecvNamed(fn))
		for _, ci := range core.CallsIn(fn) {
			h := ci.Common().StaticCallee()
			if h == nil || isSubject[h] || core.RecvNamed(h) != core.RecvNamed(fn) || len(ci.Common().Args) == 0 || ci.Common().Args[0] != ssa.Value(fn.Params[0]) || len(h.Blocks) == 0 {
				continue
			}
			if advancesCursorDirectly(h, cursors) {
				subjects = append(subjects, h)
				isSubject[h] = true
			}
		}
	}
	for _, fn := range subjects {
		recvN := core.RecvNamed(fn)
		cursors := cursorFieldsOf(recvN)
		n++
		recv := fn.Params[0]
		key := core.FuncName(fn) + "/advance-or-done"
		pos := c.P.Pos(fn.Pos())
		// classify calls
		isCursorLoad := func(v ssa.Value) *types.Var {
			u, ok := v.(*ssa.UnOp)
			if !ok || u.Op != token.MUL {
				return nil
			}
			_, fv, ok := core.FieldAddrOf(u.X)
			if !ok || core.RootOfAddr(u.X) != ssa.Value(recv) || !cursors[fv] {
				return nil
			}
			return fv
		}
		callOn := func(call *ssa.Call) (*types.Var, string) {
			cc := call.Common()
			var rv ssa.Value
			name := ""
			if cc.IsInvoke() {
				rv, name = cc.Value, cc.Method.Name()
			} else if f := cc.StaticCallee(); f != nil && f.Signature.Recv() != nil && len(cc.Args) > 0 {
				rv, name = cc.Args[0], f.Name()
			} else {
				return nil, ""
			}
			return isCursorLoad(rv), name
		}
		var bad []string
		complete := core.EnumPaths(fn, 2, 60000, func(path []*ssa.BasicBlock) {
			advanced := false
			doneVals := map[ssa.Value]bool{}
			for i, b := range path {
				for _, ins := range b.Instrs {
					switch x := ins.(type) {
					case *ssa.Call:
						if fv, name := callOn(x); fv != nil {
							if name == "Next" {
								advanced = true
							} else if name == "Done" {
								doneVals[x] = true
							}
						} else if f := x.Call.StaticCallee(); f != nil && core.RecvNamed(f) == recvN && isSubject[f] && len(x.Call.Args) > 0 && x.Call.Args[0] == ssa.Value(recv) {
							advanced = true // delegates to the sibling method, which is checked on its own
						} else if f != nil && len(f.Blocks) > 0 {
							// a helper handed the wrapped cursor that advances it on every path
							if _, isRepo := c.P.PkgOf(f); isRepo {
								for ai, a := range x.Call.Args {
									if isCursorLoad(a) != nil && ai < len(f.Params) && helperAdvancesParam(f, ai) {
										advanced = true
									}
								}
							}
						}
					case *ssa.Return:
						if !advanced {
							bad = append(bad, fmt.Sprintf("return at %s reached without advancing a wrapped cursor and without Done() holding", c.P.Pos(x.Pos())))
						}
					}
				}
				if i+1 < len(path) {
					if cond, taken, ok := core.BranchTaken(b, path[i+1]); ok {
						if doneVals[cond] && taken {
							advanced = true // exhausted: nothing left to advance
						}
						if u, ok := cond.(*ssa.UnOp); ok && u.Op == token.NOT && doneVals[u.X] && !taken {
							advanced = true
						}
					}
				}
			}
		})
		if !complete {
			r.Undecided("R12.3", key, pos, "path enumeration exceeded its bound")
		} else {
			r.Check(len(bad) == 0, "R12.3", key, pos, "every path advances a wrapped cursor or has seen Done()", uniqJoin(bad))
		}
		// child cursor: nilable pointer field to the receiver's own type
		for fv := range cursors {
			pt, ok := fv.Type().Underlying().(*types.Pointer)
			if !ok {
				continue
			}
			if nn, ok := types.Unalias(pt.Elem()).(*types.Named); !ok || nn != recvN {
				continue
			}
			// only functions that advance this child
			advances := false
			for _, ci := range core.CallsIn(fn) {
				if call, ok := ci.(*ssa.Call); ok {
					if f, name := callOn(call); f == fv && name == "Next" {
						advances = true
					}
				}
			}
			if !advances {
				continue
			}
			nchild++
			key := core.FuncName(fn) + "/clears-child:" + fv.Name()
			var bad2 []string
			for _, ci := range core.CallsIn(fn) {
				call, ok := ci.(*ssa.Call)
				if !ok {
					continue
				}
				if f, name := callOn(call); f != fv || name != "Next" {
					continue
				}
				complete := core.EnumPathsFrom(call.Block(), 2, 60000, func(path []*ssa.BasicBlock) {
					started := false
					tested, mustClear, cleared := false, false, false
					doneVals := map[ssa.Value]bool{}
					for i, b := range path {
						for _, ins := range b.Instrs {
							if i == 0 && !started {
								if ins == ssa.Instruction(call) {
									started = true
								}
								continue
							}
							switch x := ins.(type) {
							case *ssa.Call:
								if f, name := callOn(x); f == fv && name == "Done" {
									doneVals[x] = true
								}
							case *ssa.Store:
								if _, sf, ok := core.FieldAddrOf(x.Addr); ok && sf == fv && core.RootOfAddr(x.Addr) == ssa.Value(recv) && core.IsNilConst(x.Val) {
									cleared = true
								}
							case *ssa.Return:
								if !tested {
									bad2 = append(bad2, fmt.Sprintf("return at %s reached without testing %s.Done() after advancing it", c.P.Pos(x.Pos()), fv.Name()))
								} else if mustClear && !cleared {
									bad2 = append(bad2, fmt.Sprintf("return at %s reached with an exhausted %s left in place", c.P.Pos(x.Pos()), fv.Name()))
								}
							}
						}
						if i+1 < len(path) {
							if cond, taken, ok := core.BranchTaken(b, path[i+1]); ok && doneVals[cond] {
								tested = true
								if taken {
									mustClear = true
								}
							}
						}
					}
				})
				if !complete {
					r.Undecided("R12.3", key, pos, "path enumeration exceeded its bound")
				}
			}
			r.Check(len(bad2) == 0, "R12.3", key, pos, "an exhausted child cursor is cleared before every return, error or not", uniqJoin(bad2))
		}
	}
	r.Floor("R12.3", n, 5)
	r.Floor("R12.3/child", nchild, 1)
}

// checkNoMemoAfterFailure implements R12.4.
func (c *Ctx) checkNoMemoAfterFailure(L map[*ssa.Function]bool) {
	r := c.R
	shared := c.sharedTypes()
	n := 0
	for _, fn := range c.G.Funcs() {
		rel, ok := c.P.PkgOf(fn)
		if !ok || !core.ReaderPkgs[rel] || fn.Synthetic != "" || !c.P.HandWritten(fn) || len(fn.Params) == 0 {
			continue
		}
		owner, _ := structOf(fn.Params[0].Type())
		if owner == nil || !shared[owner] || fn.Signature.Recv() == nil {
			continue
		}
		recv := ssa.Value(fn.Params[0])
		// writes to the receiver's state
		var writes []ssa.Instruction
		for _, b := range fn.Blocks {
			for _, ins := range b.Instrs {
				switch x := ins.(type) {
				case *ssa.Store:
					if _, isFA := x.Addr.(*ssa.FieldAddr); isFA && core.RootOfAddr(x.Addr) == recv {
						writes = append(writes, ins)
					}
				case *ssa.MapUpdate:
					if u, ok := x.Map.(*ssa.UnOp); ok && core.RootOfAddr(u.X) == recv {
						writes = append(writes, ins)
					}
				case *ssa.Call:
					// a setter method of the same object (cache/memo helpers)
					if h := x.Call.StaticCallee(); h != nil && h != fn && len(x.Call.Args) > 0 && x.Call.Args[0] == recv && core.RecvNamed(h) == core.RecvNamed(fn) && c.G.WritesThroughParam(h, 0) {
						if _, isLoad := L[h]; !isLoad {
							writes = append(writes, ins)
						}
					}
				}
			}
		}
		if len(writes) == 0 {
			continue
		}
		ord := 0
		for _, ci := range core.CallsIn(fn) {
			is, _ := c.carrier(fn, ci, L, fetchSiteKind)
			if !is {
				continue
			}
			ev, has := core.ErrResultOfCall(ci)
			if !has || ev == nil {
				continue
			}
			wset := map[ssa.Instruction]bool{}
			for _, w := range writes {
				wset[w] = true
			}
			badAt := map[ssa.Instruction]bool{}
			seenW := map[ssa.Instruction]bool{}
			callIns := ci.(ssa.Instruction)
			complete := core.EnumPathsFrom(callIns.Block(), 2, 60000, func(path []*ssa.BasicBlock) {
				state := "untested"
				started := false
				for i, b := range path {
					for _, ins := range b.Instrs {
						if ins == callIns {
							started = true
							state = "untested"
							continue
						}
						if !started {
							continue
						}
						if wset[ins] {
							seenW[ins] = true
							if state != "nil" {
								badAt[ins] = true
							}
						}
					}
					if i+1 < len(path) && started {
						if cond, taken, ok := core.BranchTaken(b, path[i+1]); ok {
							if x, trueMeansNil, ok := core.NilCmp(cond); ok && x == ev {
								if taken == trueMeansNil {
									state = "nil"
								} else {
									state = "nonnil"
								}
							}
						}
					}
				}
			})
			for _, w := range writes {
				if !seenW[w] {
					continue
				}
				n++
				ord++
				key := fmt.Sprintf("%s/state-after-load#%d", core.FuncName(fn), ord)
				if !complete {
					r.Undecided("R12.4", key, c.P.Pos(w.Pos()), "path enumeration exceeded its bound")
					continue
				}
				r.Check(!badAt[w], "R12.4", key, c.P.Pos(w.Pos()), "the node's state is written only after the load is known to have succeeded", "the node's state is written on a path where the load at "+c.P.Pos(ci.Pos())+" may have failed: a failure would be remembered as a verdict (not-found, empty, length) and the next call would not report it")
			}
		}
	}
	r.Floor("R12.4", n, 1)
}

func instrIndex(ins ssa.Instruction) int {
	for i, x := range ins.Block().Instrs {
		if x == ins {
			return i
		}
	}
	return -1
}

// checkReadCountOnFailure implements R12.5.
func (c *Ctx) checkReadCountOnFailure() {
	r := c.R
	n := 0
	for _, fn := range c.G.Funcs() {
		rel, ok := c.P.PkgOf(fn)
		if !ok || rel != "file" || fn.Synthetic != "" || !readSig(fn) {
			continue
		}
		n++
		var bad []string
		for _, ret := range core.Returns(fn) {
			rr := core.ResolvedResults(ret)
			if k, isK := core.ConstInt(rr[0]); isK && k != 0 {
				bad = append(bad, fmt.Sprintf("return at %s reports the constant count %d", c.P.Pos(ret.Pos()), k))
			}
		}
		r.Check(len(bad) == 0, "R12.5", core.FuncName(fn)+"/count-is-real", c.P.Pos(fn.Pos()), "byte counts are never constants other than 0", uniqJoin(bad))
	}
	r.Floor("R12.5", n, 3)
}

// checkNoEarlyOpen implements R12.6 by re-running R5.4's size-query obligations.
func (c *Ctx) checkNoEarlyOpen() {
	r := c.R
	fetch := c.G.Fetchers(core.ReaderPkgs)
	reach := c.G.ReachersOf(fetch)
	saved := c.R
	tmp := core.NewReport("tmp", "")
	c.R = tmp
	c.checkSkipBeforeOpen(reach, fetch)
	c.R = saved
	n := 0
	for _, o := range tmp.Obls {
		if !strings.HasSuffix(o.Key, "/declared-size-paths") {
			continue
		}
		n++
		r.Check(o.Status == core.Discharged, "R12.6", strings.Replace(o.Key, "/declared-size-paths", "/no-early-open", 1), o.Pos, "children with a recorded size are not opened while sizes are computed", "a child can be opened (and its load error returned) before the read reaches it: "+o.Detail)
	}
	r.Floor("R12.6", n, 1)
}

// helperAdvancesParam: every path of h from entry to a return passes a call of Next on h's i-th parameter.
func helperAdvancesParam(h *ssa.Function, i int) bool {
	if h == nil || len(h.Blocks) == 0 || i >= len(h.Params) {
		return false
	}
	p := ssa.Value(h.Params[i])
	ok, nret := true, 0
	complete := core.EnumPaths(h, 1, 20000, func(path []*ssa.BasicBlock) {
		adv := false
		for _, b := range path {
			for _, ins := range b.Instrs {
				switch x := ins.(type) {
				case *ssa.Call:
					if name, rv := methodCall(x); name == "Next" && rv == p {
						adv = true
					}
				case *ssa.Return:
					nret++
					if !adv {
						ok = false
					}
				}
			}
		}
	})
	return complete && ok && nret > 0
}

// checkNoInvertedErrorTest implements R12.7: an error that was just tested nil is not what a function reports. In every
// hand-written repository function: a return whose error slot is the very error value that a dominating branch found
// nil, while every other result is a zero constant (the function answers "nothing, and no error"); or a store of such a
// known-nil error into a captured error variable (`retErr = err` inside `if err == nil`). Both are what an inverted
// `err != nil` test leaves behind; the non-nil error then falls through and the call's other results are used.
func (c *Ctx) checkNoInvertedErrorTest(rule string) {
	r := c.R
	r.Rule(rule, "no inverted error test: no return forwards an error on the edge where a dominating test found it nil while all its other results are zero values, and no known-nil error is stored into a captured error variable; instances counted are the returns and stores that forward a tested error at all")
	n, nbad := 0, 0
	knownNil := func(b *ssa.BasicBlock, e ssa.Value) bool {
		return core.GuardedBy(b, func(cond ssa.Value) (bool, bool) {
			x, trueMeansNil, ok := core.NilCmp(cond)
			if !ok || x != e {
				return false, false
			}
			return trueMeansNil, true
		})
	}
	tested := func(fn *ssa.Function, e ssa.Value) bool {
		for _, b := range fn.Blocks {
			if iff := core.BlockIf(b); iff != nil {
				if x, _, ok := core.NilCmp(iff.Cond); ok && x == e {
					return true
				}
			}
		}
		return false
	}
	isZero := func(v ssa.Value) bool {
		k, ok := v.(*ssa.Const)
		if !ok {
			return false
		}
		if k.Value == nil {
			return true
		}
		switch k.Value.Kind() {
		case constant.Int:
			z, _ := constant.Int64Val(k.Value)
			return z == 0
		case constant.Bool:
			return !constant.BoolVal(k.Value)
		case constant.String:
			return constant.StringVal(k.Value) == ""
		}
		return false
	}
	for _, fn := range c.P.RepoFuncs {
		rel, ok := c.P.PkgOf(fn)
		if !ok || rel == core.Rel(core.ControlPkg) || !c.P.HandWritten(fn) || fn.Synthetic != "" || len(fn.Blocks) == 0 {
			continue
		}
		if !(core.ReaderPkgs[rel] || core.BuilderPkgs[rel] || rel == "data") {
			continue
		}
		errIdx := core.ErrResultIndex(fn.Signature)
		ord := 0
		for _, b := range fn.Blocks {
			for _, ins := range b.Instrs {
				switch x := ins.(type) {
				case *ssa.Return:
					if errIdx < 0 {
						// a function without error result (native accessors): all-zero results on the edge where the error of a
						// repository call was found NIL, while that call's value result is what the other edge returns
						if len(x.Results) == 0 {
							continue
						}
						allZero := true
						for _, rv := range x.Results {
							if !isZero(rv) {
								allZero = false
							}
						}
						if !allZero {
							continue
						}
						var tuple ssa.Value
						if !core.GuardedBy(b, func(cond ssa.Value) (bool, bool) {
							y, trueMeansNil, ok := core.NilCmp(cond)
							if !ok || !core.IsErrorType(y.Type()) {
								return false, false
							}
							if ex, isEx := y.(*ssa.Extract); isEx {
								tuple = ex.Tuple
							}
							return trueMeansNil, true
						}) || tuple == nil {
							continue
						}
						inverted := false
						for _, other := range core.Returns(fn) {
							if other == x {
								continue
							}
							for _, rv := range other.Results {
								if ex, ok := core.Unconv(rv).(*ssa.Extract); ok && ex.Tuple == tuple {
									inverted = true
								}
							}
						}
						if inverted {
							n++
							ord++
							nbad++
							r.Violate(rule, fmt.Sprintf("%s/success-returned-as-nothing#%d", core.FuncName(fn), ord), c.P.Pos(x.Pos()), "on the edge where the call succeeded the function returns nothing, and the call's value is returned on the edge where it failed: the test on the error is inverted")
						}
						continue
					}
					e := x.Results[errIdx]
					if core.IsNilConst(e) {
						// a nil error on the edge where an error was found non-nil: the failure is reported as success (the other
						// results, if any, are zero values or whatever the failed call left behind)
						allZero := true
						// an error compared with a sentinel (err == io.EOF, errors.Is) on that path is an outcome the function handles
						handled := core.GuardedBy(b, func(cond ssa.Value) (bool, bool) {
							if bo, ok := cond.(*ssa.BinOp); ok && (bo.Op == token.EQL || bo.Op == token.NEQ) && core.IsErrorType(bo.X.Type()) && !core.IsNilConst(bo.X) && !core.IsNilConst(bo.Y) {
								return bo.Op == token.EQL, true
							}
							if call, ok := cond.(*ssa.Call); ok && (core.IsCallTo(call, "errors", "Is") || core.IsCallTo(call, "errors", "As")) {
								return true, true
							}
							return false, false
						})
						if allZero && !handled && core.GuardedBy(b, func(cond ssa.Value) (bool, bool) {
							y, trueMeansNil, ok := core.NilCmp(cond)
							if !ok || !core.IsErrorType(y.Type()) {
								return false, false
							}
							return !trueMeansNil, true
						}) {
							n++
							ord++
							nbad++
							r.Violate(rule, fmt.Sprintf("%s/failure-returned-as-nothing#%d", core.FuncName(fn), ord), c.P.Pos(x.Pos()), "on the edge where an error was found non-nil the function returns a nil error: the failure is swallowed and the caller is told all went well")
						}
						continue
					}
					if _, isK := e.(*ssa.Const); isK || !core.IsErrorType(e.Type()) || !tested(fn, e) {
						continue
					}
					n++
					if !knownNil(b, e) {
						continue
					}
					allZero := true
					for i, rv := range x.Results {
						if i != errIdx && !isZero(rv) {
							allZero = false
						}
					}
					if allZero {
						ord++
						nbad++
						r.Violate(rule, fmt.Sprintf("%s/known-nil-error-returned#%d", core.FuncName(fn), ord), c.P.Pos(x.Pos()), "the return forwards an error on the edge where it was found nil, with no result: the test on the error is inverted — a failure falls through and the call's other results are used, a success ends with (nothing, nil)")
					}
				case *ssa.Store:
					if !core.IsErrorType(x.Val.Type()) {
						continue
					}
					if _, isK := x.Val.(*ssa.Const); isK {
						continue
					}
					// a captured / outer error variable: free variable of a closure, or a local cell
					if _, isFV := x.Addr.(*ssa.FreeVar); !isFV {
						continue
					}
					if !tested(fn, x.Val) {
						continue
					}
					n++
					if knownNil(b, x.Val) {
						ord++
						nbad++
						r.Violate(rule, fmt.Sprintf("%s/known-nil-error-recorded#%d", core.FuncName(fn), ord), c.P.Pos(x.Pos()), "an error that the dominating test found nil is recorded as the outcome: the test on the error is inverted")
					}
				}
			}
		}
	}
	if nbad == 0 {
		r.OK(rule, "repository/*/no-inverted-error-test", "-", fmt.Sprintf("%d returns/stores forward a tested error; none on the edge where it was found nil", n))
	}
	r.Floor(rule, n, 20)
}
