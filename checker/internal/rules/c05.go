package rules

import (
	"fmt"
	"go/constant"
	"go/token"
	"go/types"
	"sort"
	"strings"

	"golang.org/x/tools/go/ssa"

	"verifchk/internal/core"
)

func init() { Registry["C05"] = c05 }

// consumerNames: operations that by their meaning need block content (reading bytes, advancing an iteration,
// resolving a name, counting entries, materialising a deferred child). Everything else must not fetch.
var consumerNames = map[string]string{
	"Read": "reads bytes", "Seek": "positions inside content (may need child sizes)", "Next": "advances an iteration", "next": "advances an iteration",
	"LookupByString": "resolves a name", "LookupByNode": "resolves a name", "LookupBySegment": "resolves a name", "Lookup": "resolves a name", "lookup": "resolves a name",
	"Length": "counts entries", "length": "counts entries / bytes", "lengthFromLinks": "sums child sizes", "AsBytes": "materialises the whole content", "IsNull": "materialises a deferred child",
	"resolve": "materialises a deferred child", "loadChild": "loads the child shard on the hash path", "makeReader": "opens the children a read needs", "linkSize": "size query (fetches only without declared sizes)",
}

// reifierRegistry decodes the function that stores into LinkSystem.KnownReifiers: key -> registered function.
func (c *Ctx) reifierRegistry() (map[string]*ssa.Function, *ssa.Function) {
	out := map[string]*ssa.Function{}
	var reg *ssa.Function
	for _, fn := range c.G.Funcs() {
		rel, ok := c.P.PkgOf(fn)
		if !ok || rel != "" {
			continue
		}
		for _, b := range fn.Blocks {
			for _, ins := range b.Instrs {
				mu, ok := ins.(*ssa.MapUpdate)
				if !ok {
					continue
				}
				u, ok := mu.Map.(*ssa.UnOp)
				if !ok {
					continue
				}
				fa, ok := u.X.(*ssa.FieldAddr)
				if !ok {
					continue
				}
				_, fv, _ := core.FieldAddrOf(fa)
				if fv == nil || fv.Name() != "KnownReifiers" {
					continue
				}
				k, ok := mu.Key.(*ssa.Const)
				if !ok || k.Value == nil || k.Value.Kind() != constant.String {
					continue
				}
				var f *ssa.Function
				switch v := mu.Value.(type) {
				case *ssa.Function:
					f = v
				case *ssa.ChangeType:
					f, _ = v.X.(*ssa.Function)
				case *ssa.MakeClosure:
					f, _ = v.Fn.(*ssa.Function)
				}
				out[constant.StringVal(k.Value)] = f
				reg = fn
			}
		}
	}
	return out, reg
}

// tableByMembers returns the dispatch tables (global -> entries) of the root package.
func (c *Ctx) rootTables() map[string][]core.TableEntry {
	out := map[string][]core.TableEntry{}
	for gl, ents := range c.G.Tables {
		if gl.Pkg != nil && core.Rel(gl.Pkg.Pkg.Path()) == "" {
			out[gl.Name()] = ents
		}
	}
	// an array of structs with one function-typed field per reifier: one table per field
	for k, ents := range c.G.FieldTables {
		gl := k.Global
		if gl.Pkg == nil || core.Rel(gl.Pkg.Pkg.Path()) != "" {
			continue
		}
		name := fmt.Sprintf("%s[].#%d", gl.Name(), k.Field)
		if pt, ok := gl.Type().Underlying().(*types.Pointer); ok {
			if at, ok := pt.Elem().Underlying().(*types.Array); ok {
				if st, ok := at.Elem().Underlying().(*types.Struct); ok && k.Field < st.NumFields() {
					name = gl.Name() + "[]." + st.Field(k.Field).Name()
				}
			}
		}
		out[name] = ents
	}
	return out
}

// lazyAndPreloadTables classifies the two reifier tables by the registry: the table reachable from the "unixfs" reifier is
// the lazy one, the table reachable from "unixfs-preload" the preload one.
func (c *Ctx) lazyAndPreloadTables() (lazy, preload []core.TableEntry, lazyName, preloadName string, ok bool) {
	reg, _ := c.reifierRegistry()
	fl, fp := reg["unixfs"], reg["unixfs-preload"]
	if fl == nil || fp == nil {
		return nil, nil, "", "", false
	}
	tables := c.rootTables()
	member := func(f *ssa.Function, ents []core.TableEntry) bool {
		out := map[*ssa.Function]bool{}
		for _, e := range c.G.Out[f] {
			out[e.Callee] = true
		}
		n := 0
		for _, e := range ents {
			if e.Fn != nil && out[e.Fn] {
				n++
			}
		}
		return n == len(ents) && n > 0
	}
	var names []string
	for n := range tables {
		names = append(names, n)
	}
	sort.Strings(names)
	for _, n := range names {
		ents := tables[n]
		l, p := member(fl, ents), member(fp, ents)
		if l && !p {
			lazy, lazyName = ents, n
		}
		if p && !l {
			preload, preloadName = ents, n
		}
	}
	// when both tables share all members except a few, membership by "all entries are callees" may match both; disambiguate:
	if lazy == nil || preload == nil {
		for _, n := range names {
			ents := tables[n]
			if member(fl, ents) && lazy == nil && n != preloadName {
				lazy, lazyName = ents, n
			}
		}
		for _, n := range names {
			ents := tables[n]
			if member(fp, ents) && preload == nil && n != lazyName {
				preload, preloadName = ents, n
			}
		}
	}
	return lazy, preload, lazyName, preloadName, lazy != nil && preload != nil
}

func c05(c *Ctx) {
	r := c.R
	r.Explain = "C05 (lazy access fetches only what is needed): decides with the closed-world call graph that (R5.1) the reader packages contain exactly the inventoried block-load sites; (R5.2) no function outside the consuming operations (read, seek, iterate, look up, count, materialise) can reach a load site — in particular reifying through the lazy table, constructing nodes, opening a reader (AsLargeBytes) and creating iterators load nothing; (R5.3) a name lookup performs at most one load per level (the load is outside any loop) and the loaded link is selected by hash bits; (R5.4) the stream builder opens/positions children only after the skip-by-declared-size test, and the size query has load-free success paths for raw leaves (Tsize) and dag-pb children (BlockSizes); (R5.5) the \"unixfs\" reifier is the lazy one. Not decided: the exact block set for a given byte range or name (depends on runtime sizes, io.MultiReader and go-ipld-prime)."
	r.Rule("R5.1", "inventory of block-load sites ((*LinkSystem).Load/Fill/LoadRaw/…, StorageReadOpener calls) in the reader packages, each with a call-graph path from an API entry")
	r.Rule("R5.2", "every method and exported function of the reader packages whose name is not a consuming operation, every member of the lazy reifier table and the \"unixfs\" reifier itself cannot reach a block-load site in the closed-world call graph")
	r.Rule("R5.3", "in the lookup path, each call of a loader lies outside every CFG cycle and the link it loads derives from the bucket chosen by hashBits.Next")
	r.Rule("R5.4", "in the stream builder every load-reaching call other than the size query is dominated by the not-skipped edge of the comparison of the read position with the child's end; the size query has a load-free success path via Tsize and one via BlockSizes")
	r.Rule("R5.6", "positioning never consumes content: no Seek method of the file readers can reach a Read method (or an io.Copy/CopyN/ReadAll/ReadFull drain) in the closed-world call graph — a seek may query sizes but must not read through chunks; and no Read method can reach such a drain: a read fetches what it delivers into the caller's buffer, it never catches up by discarding")
	r.Rule("R5.7", "single descent: the name-lookup operations and the shard loaders cannot reach a walker (a function that issues loads inside a loop); a lookup loads one shard per level and never a subtree")
	r.Rule("R5.8", "one descent per lookup: a function that hands a freshly allocated hash cursor to the descent does so at most once on any path (a retry under another spelling of the name walks — and loads — a second hash path)")
	r.Rule("R5.5", "KnownReifiers[\"unixfs\"] is a function that dispatches through a table all of whose members are load-free, distinct from the table used by \"unixfs-preload\"")

	fetch := c.G.Fetchers(core.ReaderPkgs)
	reach := c.G.ReachersOf(fetch)
	// ---- R5.1
	nsites := 0
	perPkg := map[string]int{}
	for _, f := range core.SortedFuncs(fetch) {
		rel, _ := c.P.PkgOf(f)
		for i, s := range core.FetchSites(f) {
			nsites++
			perPkg[rel]++
			r.OK("R5.1", fmt.Sprintf("%s/load-site#%d", core.FuncName(f), i+1), c.P.Pos(s.Call.Pos()), "block load via "+s.What)
		}
	}
	r.Floor("R5.1", nsites, 2)
	r.Floor("R5.1/file", perPkg["file"], 1)
	r.Floor("R5.1/hamt", perPkg["hamt"], 1)

	lazy, preload, lazyName, preloadName, okT := c.lazyAndPreloadTables()
	if !okT {
		r.Break("cannot identify the lazy and preload reifier tables from the KnownReifiers registry")
		return
	}
	r.Extra["lazy_table"], r.Extra["preload_table"] = lazyName, preloadName
	lazySet := map[*ssa.Function]bool{}
	for _, e := range lazy {
		lazySet[e.Fn] = true
	}
	preloadSide := map[*ssa.Function]bool{}
	for _, e := range preload {
		if !lazySet[e.Fn] {
			preloadSide[e.Fn] = true
			for _, oe := range c.G.Out[e.Fn] {
				if oe.Kind == "static" {
					preloadSide[oe.Callee] = true
				}
			}
		}
	}
	reg, regFn := c.reifierRegistry()
	if f := reg["unixfs-preload"]; f != nil {
		preloadSide[f] = true
	}
	// the unspecialised dispatcher contains both branches: it is analysed through its specialisations (callers passing constants)
	dispatchers := map[*ssa.Function]bool{}
	for _, f := range c.G.Funcs() {
		if rel, ok := c.P.PkgOf(f); ok && rel == "" {
			for _, ci := range core.CallsIn(f) {
				if lk := funcValueLookupTable(ci.Common().Value); lk != "" {
					dispatchers[f] = true
				}
			}
		}
	}

	// ---- R5.2
	n52 := 0
	for _, fn := range c.G.Funcs() {
		rel, ok := c.P.PkgOf(fn)
		if !ok || !core.ReaderPkgs[rel] || fn.Parent() != nil {
			continue
		}
		if c.P.IsGenerated(fn.Pos()) && fn.Synthetic == "" {
			continue
		}
		if rn := core.RecvNamed(fn); rn != nil && c.P.IsGenerated(rn.Obj().Pos()) {
			continue // methods (and promoted wrappers) of generated schema types
		}
		isAPI := false
		if fn.Signature.Recv() != nil {
			// methods with an exported name can be reached through an interface; unexported helper methods are
			// only reachable from the functions that call them, which are classified themselves
			isAPI = token.IsExported(fn.Name())
		} else if fn.Object() != nil && fn.Object().Exported() {
			isAPI = true
		}
		if lazySet[fn] || fn == reg["unixfs"] {
			isAPI = true
		}
		// constructors of deferred/lazy objects are non-consuming by role even when unexported
		if strings.HasPrefix(fn.Name(), "new") && rel == "file" {
			isAPI = true
		}
		if !isAPI {
			continue
		}
		if why, isConsumer := consumerNames[fn.Name()]; isConsumer {
			_ = why
			continue
		}
		if preloadSide[fn] || dispatchers[fn] && !lazySet[fn] && fn != reg["unixfs"] {
			continue
		}
		if isVisitFunc(fn) {
			continue
		}
		n52++
		key := core.FuncName(fn) + "/fetch-free"
		if reach[fn] {
			path := c.G.PathTo(fn, fetch)
			r.Violate("R5.2", key, c.P.Pos(fn.Pos()), "non-consuming operation can reach a block load: "+core.PathString(path))
		} else {
			r.OK("R5.2", key, c.P.Pos(fn.Pos()), "no path to a block-load site")
		}
	}
	r.Floor("R5.2", n52, 80)
	// named must-haves (by role)
	for _, must := range []struct{ rel, name string }{{"file", "NewUnixFSFile"}, {"hamt", "NewUnixFSHAMTShard"}, {"hamt", "AttemptHAMTShardFromNode"}} {
		if f := c.P.FindFunc(must.rel, must.name); f == nil {
			r.Notes = append(r.Notes, "constructor "+must.rel+"."+must.name+" not present (renamed?)")
		}
	}

	// ---- R5.3
	n53 := 0
	loaders53 := c.G.Loaders(core.ReaderPkgs) // fetchers and their thin wrappers; a wrapper's own forwarding call is not a subject
	for _, fn := range c.G.Funcs() {
		rel, ok := c.P.PkgOf(fn)
		if !ok || rel != "hamt" || fn.Synthetic != "" {
			continue
		}
		if !c.onLookupPath(fn) {
			continue
		}
		k := 0
		for _, ci := range core.CallsIn(fn) {
			callee := ci.Common().StaticCallee()
			if callee == nil || !loaders53[callee] || loaders53[fn] {
				continue
			}
			n53++
			k++
			key := fmt.Sprintf("%s/load-call#%d", core.FuncName(fn), k)
			var bad []string
			if core.InCycle(ci.Block()) {
				bad = append(bad, "the load is inside a loop (more than one shard per level may be fetched)")
			}
			if !c.derivesFromHashBits(ci.Common().Args) {
				bad = append(bad, "the loaded link is not selected by hashBits.Next")
			}
			r.Check(len(bad) == 0, "R5.3", key, c.P.Pos(ci.Pos()), "one load per level, outside any loop, of the bucket chosen by the hash bits", strings.Join(bad, "; "))
		}
	}
	r.Floor("R5.3", n53, 1)

	c.checkSeekNeverReads()
	c.checkSingleDescentCall()
	c.checkSingleDescent(fetch)
	c.checkSkipBeforeOpen(reach, fetch)

	// ---- R5.5
	fl := reg["unixfs"]
	key := "registry:unixfs"
	pos := "-"
	if regFn != nil {
		pos = c.P.Pos(regFn.Pos())
	}
	if fl == nil {
		r.Violate("R5.5", key, pos, "no function registered under \"unixfs\"")
	} else {
		var bad []string
		if reach[fl] {
			bad = append(bad, "the \"unixfs\" reifier can reach a block load: "+core.PathString(c.G.PathTo(fl, fetch)))
		}
		for _, e := range lazy {
			if reach[e.Fn] {
				bad = append(bad, fmt.Sprintf("lazy table entry %v -> %s can reach a block load", e.Key, core.FuncName(e.Fn)))
			}
		}
		if fl == reg["unixfs-preload"] {
			bad = append(bad, "\"unixfs\" and \"unixfs-preload\" are the same function")
		}
		r.Check(len(bad) == 0, "R5.5", key, pos, fmt.Sprintf("\"unixfs\" -> %s dispatching through %s (%d load-free entries)", core.FuncName(fl), lazyName, len(lazy)), strings.Join(bad, "; "))
	}
	// the registration works on a LinkSystem whose KnownReifiers map is still nil, and keeps what others registered: the
	// map is created exactly on the nil edge of a test of that field
	if regFn != nil {
		var bad []string
		made := 0
		for _, b := range regFn.Blocks {
			for _, ins := range b.Instrs {
				st, ok := ins.(*ssa.Store)
				if !ok {
					continue
				}
				if _, isMake := st.Val.(*ssa.MakeMap); !isMake {
					continue
				}
				_, fv, _ := core.FieldAddrOf(st.Addr)
				if fv == nil || fv.Name() != "KnownReifiers" {
					continue
				}
				made++
				onNil := core.GuardedBy(b, func(cond ssa.Value) (bool, bool) {
					x, trueMeansNil, ok := core.NilCmp(cond)
					if !ok {
						return false, false
					}
					u, isLoad := x.(*ssa.UnOp)
					if !isLoad {
						return false, false
					}
					if _, f2, _ := core.FieldAddrOf(u.X); f2 != fv {
						return false, false
					}
					return trueMeansNil, true
				})
				if !onNil {
					bad = append(bad, fmt.Sprintf("the map created at %s is not created on the nil edge of a test of KnownReifiers: a LinkSystem without the map panics on registration, one with a map loses its other reifiers", c.P.Pos(st.Pos())))
				}
			}
		}
		if made == 0 {
			bad = append(bad, "KnownReifiers is written without being created when nil")
		}
		r.Check(len(bad) == 0, "R5.5", "registry:map-created-when-nil", c.P.Pos(regFn.Pos()), "the KnownReifiers map is created exactly when it is nil", strings.Join(bad, "; "))
	}
}

// funcValueLookupTable: the called value is looked up in a package-level table.
func funcValueLookupTable(v ssa.Value) string {
	seen := map[ssa.Value]bool{}
	var rec func(v ssa.Value) string
	rec = func(v ssa.Value) string {
		if v == nil || seen[v] {
			return ""
		}
		seen[v] = true
		switch x := v.(type) {
		case *ssa.Phi:
			for _, e := range x.Edges {
				if s := rec(e); s != "" {
					return s
				}
			}
		case *ssa.Extract:
			return rec(x.Tuple)
		case *ssa.Lookup:
			if gls, ok := core.TableGlobals(x.X, nil); ok && len(gls) > 0 {
				return gls[0].Name()
			}
		}
		return ""
	}
	return rec(v)
}

// isVisitFunc: a traversal visit function (has a traversal.Progress parameter): consuming by role.
func isVisitFunc(fn *ssa.Function) bool {
	for i := 0; i < fn.Signature.Params().Len(); i++ {
		if n, ok := types.Unalias(fn.Signature.Params().At(i).Type()).(*types.Named); ok && n.Obj().Name() == "Progress" && n.Obj().Pkg() != nil && strings.HasSuffix(n.Obj().Pkg().Path(), "/traversal") {
			return true
		}
	}
	return false
}

// derivesFromHashBits: some argument is (transitively) computed from the result of a bit-reader method Next(int) (int, error).
func (c *Ctx) derivesFromHashBits(args []ssa.Value) bool {
	seen := map[ssa.Value]bool{}
	var rec func(v ssa.Value, d int) bool
	rec = func(v ssa.Value, d int) bool {
		if v == nil || seen[v] || d > 14 {
			return false
		}
		seen[v] = true
		switch x := v.(type) {
		case *ssa.Parameter:
			// handed through an unexported helper: every call site must pass a value that derives from the hash bits
			fn := x.Parent()
			if fn == nil || (fn.Object() != nil && fn.Object().Exported()) {
				return false
			}
			pi := -1
			for i, q := range fn.Params {
				if q == x {
					pi = i
				}
			}
			n := 0
			for _, e := range c.G.In[fn] {
				cs, ok := e.Site.(ssa.CallInstruction)
				if e.Caller.Synthetic != "" && len(c.G.In[e.Caller]) == 0 {
					continue
				}
				if !ok || cs.Common().StaticCallee() != fn || pi < 0 || pi >= len(cs.Common().Args) {
					return false
				}
				n++
				if !rec(cs.Common().Args[pi], d+1) {
					return false
				}
			}
			return n > 0
		case *ssa.Call:
			if f := x.Call.StaticCallee(); f != nil && f.Name() == "Next" && f.Signature.Params().Len() == 1 && f.Signature.Results().Len() == 2 && isBasic(f.Signature.Results().At(0).Type(), types.Int) {
				return true
			}
			for _, a := range x.Call.Args {
				if rec(a, d+1) {
					return true
				}
			}
			if x.Call.IsInvoke() {
				return rec(x.Call.Value, d+1)
			}
		case *ssa.Extract:
			return rec(x.Tuple, d+1)
		case *ssa.Phi:
			for _, e := range x.Edges {
				if rec(e, d+1) {
					return true
				}
			}
		case *ssa.UnOp:
			return rec(x.X, d+1)
		case *ssa.Convert:
			return rec(x.X, d+1)
		case *ssa.ChangeType:
			return rec(x.X, d+1)
		case *ssa.BinOp:
			return rec(x.X, d+1) || rec(x.Y, d+1)
		}
		return false
	}
	for _, a := range args[1:] {
		if rec(a, 0) {
			return true
		}
	}
	return false
}

// checkSkipBeforeOpen implements R5.4.
func (c *Ctx) checkSkipBeforeOpen(reach, fetch map[*ssa.Function]bool) {
	r := c.R
	n := 0
	for _, fn := range c.G.Funcs() {
		rel, ok := c.P.PkgOf(fn)
		if !ok || rel != "file" || fn.Synthetic != "" {
			continue
		}
		isBuilder := false
		for _, ci := range core.CallsIn(fn) {
			if core.IsCallTo(ci, "io", "MultiReader") {
				isBuilder = true
			}
		}
		if !isBuilder {
			continue
		}
		n++
		key := core.FuncName(fn) + "/skip-before-open"
		pos := c.P.Pos(fn.Pos())
		// position fields of the receiver type
		var posFields []*types.Var
		for _, rt := range findReaderTypes(c, map[string]bool{"file": true}) {
			if rt.named == core.RecvNamed(fn) {
				posFields = rt.pos
			}
		}
		if len(posFields) == 0 {
			r.Undecided("R5.4", key, pos, "stream builder's receiver has no position field")
			continue
		}
		// the skip test: comparison (position load) >=/> (expr using a result of call Q) inside a loop
		var skipIf *ssa.If
		var sizeQuery *ssa.Call
		for _, b := range fn.Blocks {
			iff := core.BlockIf(b)
			if iff == nil || !core.InCycle(b) {
				continue
			}
			bo, ok := iff.Cond.(*ssa.BinOp)
			if !ok || (bo.Op != token.GEQ && bo.Op != token.GTR) {
				continue
			}
			u, ok := bo.X.(*ssa.UnOp)
			if !ok || c.fieldOfAddr(fn, u.X) == nil || !containsVar(posFields, c.fieldOfAddr(fn, u.X)) {
				continue
			}
			if q := callFeeding(bo.Y, 0); q != nil {
				skipIf, sizeQuery = iff, q
			}
		}
		if skipIf == nil {
			r.Violate("R5.4", key, pos, "no test of the read position against the child's end (position >= start+size) found in the children loop: children before the offset are not skipped by declared size")
			continue
		}
		notSkipped := skipIf.Block().Succs[1]
		var bad []string
		nchecked := 0
		for _, ci := range core.CallsIn(fn) {
			if !core.InCycle(ci.Block()) || ci == ssa.CallInstruction(sizeQuery) {
				continue
			}
			reaches := false
			for _, e := range c.G.Out[fn] {
				if e.Site == ci.(ssa.Instruction) && reach[e.Callee] {
					reaches = true
				}
			}
			if !reaches {
				continue
			}
			nchecked++
			if !core.EdgeDominates(skipIf.Block(), notSkipped, ci.Block()) {
				bad = append(bad, fmt.Sprintf("load-reaching call %s at %s runs for children that the skip test would skip", shorten(core.CalleeName(ci)), c.P.Pos(ci.Pos())))
			}
			// laziness of the remaining children: a child may be opened while the stream is assembled only when it is the
			// one that contains the offset (its start lies strictly before the read position)
			startsBefore := core.GuardedBy(ci.Block(), func(cond ssa.Value) (bool, bool) {
				bo, ok := cond.(*ssa.BinOp)
				if !ok {
					return false, false
				}
				isPos := func(v ssa.Value) bool {
					u, ok := v.(*ssa.UnOp)
					return ok && c.fieldOfAddr(fn, u.X) != nil && containsVar(posFields, c.fieldOfAddr(fn, u.X))
				}
				switch {
				case (bo.Op == token.LSS || bo.Op == token.LEQ) && isPos(bo.Y): // start < position, start <= position
					return true, true
				case (bo.Op == token.GTR || bo.Op == token.GEQ) && isPos(bo.X): // position > start, position >= start
					return true, true
				}
				return false, false
			})
			if !startsBefore {
				startsBefore = c.helperDefersChildren(fn, ci, skipIf, posFields, reach)
			}
			if !startsBefore {
				bad = append(bad, fmt.Sprintf("load-reaching call %s at %s opens a child although it does not contain the read position (children after the first must stay deferred until they are read)", shorten(core.CalleeName(ci)), c.P.Pos(ci.Pos())))
			}
		}
		// the skip branch must continue the loop without opening anything
		r.Check(len(bad) == 0, "R5.4", key, pos, fmt.Sprintf("children before the offset are skipped using %s's result; %d other load-reaching call(s) run only for children that are not skipped", calleeShort(sizeQuery), nchecked), strings.Join(bad, "; "))
		// size query: load-free success paths
		if q := sizeQuery.Call.StaticCallee(); q != nil {
			c.checkSizeQuery(q, reach)
		} else {
			r.Undecided("R5.4", key+"/size-query", pos, "size query is not a static call")
		}
	}
	r.Floor("R5.4", n, 1)
}

func calleeShort(call *ssa.Call) string {
	if f := call.Call.StaticCallee(); f != nil {
		return f.Name()
	}
	return "size query"
}

func containsVar(vs []*types.Var, v *types.Var) bool {
	for _, x := range vs {
		if x == v {
			return true
		}
	}
	return false
}

// callFeeding finds a call whose (extracted) result is an operand of v.
func callFeeding(v ssa.Value, d int) *ssa.Call {
	if d > 6 {
		return nil
	}
	switch x := v.(type) {
	case *ssa.Field:
		// a member of a struct result: child.size with child := q(…)
		return callFeeding(x.X, d+1)
	case *ssa.UnOp:
		// the same through a local cell: child := q(…) held in an addressable local, child.size read from it
		if x.Op == token.MUL {
			addr := x.X
			if fa, ok := addr.(*ssa.FieldAddr); ok {
				addr = fa.X
			}
			if al, ok := addr.(*ssa.Alloc); ok {
				var src ssa.Value
				n := 0
				for _, ref := range *al.Referrers() {
					if st, ok := ref.(*ssa.Store); ok && st.Addr == ssa.Value(al) {
						n++
						src = st.Val
					}
				}
				if n == 1 {
					return callFeeding(src, d+1)
				}
			}
		}
	case *ssa.Extract:
		if c, ok := x.Tuple.(*ssa.Call); ok {
			return c
		}
	case *ssa.Call:
		if x.Call.StaticCallee() != nil {
			return x
		}
	case *ssa.BinOp:
		if c := callFeeding(x.X, d+1); c != nil {
			return c
		}
		return callFeeding(x.Y, d+1)
	case *ssa.Convert:
		return callFeeding(x.X, d+1)
	case *ssa.Phi:
		for _, e := range x.Edges {
			if c := callFeeding(e, d+1); c != nil {
				return c
			}
		}
	}
	return nil
}

// checkSizeQuery: ∃ load-free success path that reads "Tsize" and ∃ one that reads BlockSizes.
func (c *Ctx) checkSizeQuery(q *ssa.Function, reach map[*ssa.Function]bool) {
	key := core.FuncName(q) + "/declared-size-paths"
	pos := c.P.Pos(q.Pos())
	loadReaching := map[ssa.Instruction]bool{}
	for _, e := range c.G.Out[q] {
		if reach[e.Callee] && e.Site != nil {
			loadReaching[e.Site] = true
		}
	}
	errIdx := core.ErrResultIndex(q.Signature)
	viaTsize, viaBlockSizes := false, false
	npaths := 0
	complete := core.EnumPaths(q, 2, 200000, func(path []*ssa.BasicBlock) {
		npaths++
		loads := false
		tsize, bsizes := false, false
		var lastErrFromLoad bool
		// a path answers from recorded sizes only if the look-ups it went through succeeded: every branch on an error
		// value along it took the nil edge (an inverted test would make the recorded-size code unreachable in practice)
		errBranchFailed := false
		for pi := 0; pi+1 < len(path); pi++ {
			if cond, taken, ok := core.BranchTaken(path[pi], path[pi+1]); ok {
				if x, trueMeansNil, isNil := core.NilCmp(cond); isNil && core.IsErrorType(x.Type()) && taken != trueMeansNil {
					errBranchFailed = true
				}
			}
		}
		for _, b := range path {
			for _, ins := range b.Instrs {
				if loadReaching[ins] {
					loads = true
				}
				switch x := ins.(type) {
				case *ssa.Call:
					for _, a := range x.Call.Args {
						if k, ok := a.(*ssa.Const); ok && k.Value != nil && k.Value.Kind() == constant.String && constant.StringVal(k.Value) == "Tsize" {
							tsize = true
						}
					}
					// a repository helper that cannot reach a load and consults Tsize / BlockSizes
					if h := x.Call.StaticCallee(); h != nil && !loadReaching[ins] {
						if _, isRepo := c.P.PkgOf(h); isRepo {
							t2, b2 := c.mentionsDeclaredSizes(h, reach, 0)
							tsize = tsize || t2
							bsizes = bsizes || b2
						}
					}
					if strings.Contains(c.accessPath(x, 0), "BlockSizes") {
						bsizes = true
					}
					for _, a := range x.Call.Args {
						if strings.Contains(c.accessPath(a, 0), "BlockSizes") {
							bsizes = true
						}
					}
				case *ssa.FieldAddr:
					if _, fv, ok := core.FieldAddrOf(x); ok && fv.Name() == "BlockSizes" {
						bsizes = true
					}
				case *ssa.Return:
					if errIdx >= 0 {
						e := x.Results[errIdx]
						if !core.IsNilConst(e) {
							// a possibly-nil error of a non-loading call still counts as success path
							if ex, ok := e.(*ssa.Extract); ok {
								if call, ok := ex.Tuple.(*ssa.Call); ok && !loadReaching[call] {
									lastErrFromLoad = false
								} else {
									lastErrFromLoad = true
								}
							} else {
								lastErrFromLoad = true
							}
							if lastErrFromLoad {
								return
							}
							// must not be an unconditional error: accept only Extracts of non-loading calls
						}
					}
					if !loads && !errBranchFailed {
						if tsize {
							viaTsize = true
						}
						if bsizes {
							viaBlockSizes = true
						}
					}
				}
			}
		}
	})
	if !complete {
		c.R.Undecided("R5.4", key, pos, "path enumeration exceeded its bound")
		return
	}
	var bad []string
	if !viaTsize {
		bad = append(bad, "no load-free success path through the link's Tsize (raw leaves would be opened to learn their size)")
	}
	if !viaBlockSizes {
		bad = append(bad, "no load-free success path through the node's BlockSizes (dag-pb children would be opened to learn their size)")
	}
	// whether the child is opened must not depend on the value of a recorded size (0 is a size like any other)
	if why := c.recordedSizeDecidesOpen(q, loadReaching); why != "" {
		bad = append(bad, why)
	}
	c.R.Check(len(bad) == 0, "R5.4", key, pos, fmt.Sprintf("%d paths: load-free size answers exist via Tsize and via BlockSizes; opening the child is only the fallback", npaths), strings.Join(bad, "; "))
}

// recordedSizeDecidesOpen: taints the integers read from the node's BlockSizes (AsInt/Int on an element of BlockSizes, also
// when read inside a helper of the same package that returns it) and reports a conditional on a tainted value one of
// whose arms contains a load-reaching call.
func (c *Ctx) recordedSizeDecidesOpen(q *ssa.Function, loadReaching map[ssa.Instruction]bool) string {
	tainted := map[ssa.Value]bool{}
	var helperReturnsSize func(h *ssa.Function, depth int) map[int]bool
	var taintIn func(fn *ssa.Function, depth int) map[ssa.Value]bool
	memo := map[*ssa.Function]map[int]bool{}
	taintIn = func(fn *ssa.Function, depth int) map[ssa.Value]bool {
		t := map[ssa.Value]bool{}
		for changed, rounds := true, 0; changed && rounds < 8; rounds++ {
			changed = false
			mark := func(v ssa.Value) {
				if !t[v] {
					t[v] = true
					changed = true
				}
			}
			for _, b := range fn.Blocks {
				for _, ins := range b.Instrs {
					switch x := ins.(type) {
					case *ssa.Call:
						name, recv := methodCall(x)
						if (name == "AsInt" || name == "Int") && recv != nil && derivesFromBlockSizes(recv, 0) {
							mark(x)
						}
						if h := x.Call.StaticCallee(); h != nil && depth < 2 && h != fn && len(h.Blocks) > 0 {
							if rel, ok := c.P.PkgOf(h); ok && rel == "file" {
								for idx := range helperReturnsSize(h, depth+1) {
									if h.Signature.Results().Len() == 1 {
										mark(x)
									} else if ev := extractOf(x, idx); ev != nil {
										mark(ev)
									}
								}
							}
						}
					case *ssa.Extract:
						if t[x.Tuple] && x.Index == 0 {
							mark(x)
						}
					case *ssa.Convert:
						if t[x.X] {
							mark(x)
						}
					case *ssa.BinOp:
						if (t[x.X] || t[x.Y]) && x.Op != token.EQL && x.Op != token.NEQ && x.Op != token.LSS && x.Op != token.GTR && x.Op != token.LEQ && x.Op != token.GEQ {
							mark(x)
						}
					case *ssa.Phi:
						for _, e := range x.Edges {
							if t[e] {
								mark(x)
							}
						}
					}
				}
			}
		}
		return t
	}
	helperReturnsSize = func(h *ssa.Function, depth int) map[int]bool {
		if m, ok := memo[h]; ok {
			return m
		}
		memo[h] = map[int]bool{}
		t := taintIn(h, depth)
		out := map[int]bool{}
		for _, ret := range core.Returns(h) {
			for i, rv := range core.ResolvedResults(ret) {
				if t[rv] {
					out[i] = true
				}
			}
		}
		memo[h] = out
		return out
	}
	tainted = taintIn(q, 0)
	// counts: Length() of the BlockSizes list
	counts := map[ssa.Value]bool{}
	for _, b := range q.Blocks {
		for _, ins := range b.Instrs {
			if call, ok := ins.(*ssa.Call); ok {
				if name, recv := methodCall(call); name == "Length" && recv != nil && derivesFromBlockSizes(recv, 0) {
					counts[call] = true
				}
			}
		}
	}
	reachesLoad := func(from *ssa.BasicBlock) ssa.Instruction {
		seen := map[*ssa.BasicBlock]bool{}
		stack := []*ssa.BasicBlock{from}
		for len(stack) > 0 {
			x := stack[len(stack)-1]
			stack = stack[:len(stack)-1]
			if seen[x] {
				continue
			}
			seen[x] = true
			for _, ins := range x.Instrs {
				if loadReaching[ins] {
					return ins
				}
			}
			stack = append(stack, x.Succs...)
		}
		return nil
	}
	returnsWithoutLoad := func(from *ssa.BasicBlock) bool {
		seen := map[*ssa.BasicBlock]bool{}
		stack := []*ssa.BasicBlock{from}
		for len(stack) > 0 {
			x := stack[len(stack)-1]
			stack = stack[:len(stack)-1]
			if seen[x] {
				continue
			}
			seen[x] = true
			loads := false
			for _, ins := range x.Instrs {
				if loadReaching[ins] {
					loads = true
				}
			}
			if loads {
				continue
			}
			if len(x.Succs) == 0 && len(x.Instrs) > 0 {
				if _, isRet := x.Instrs[len(x.Instrs)-1].(*ssa.Return); isRet {
					return true
				}
			}
			stack = append(stack, x.Succs...)
		}
		return false
	}
	linear := func(v ssa.Value) (ssa.Value, int64) {
		k := int64(0)
		for i := 0; i < 6; i++ {
			v = core.Unconv(v)
			bo, ok := v.(*ssa.BinOp)
			if !ok || (bo.Op != token.ADD && bo.Op != token.SUB) {
				return v, k
			}
			if cst, isC := core.ConstInt(bo.Y); isC {
				if bo.Op == token.ADD {
					k += cst
				} else {
					k -= cst
				}
				v = bo.X
				continue
			}
			if cst, isC := core.ConstInt(bo.X); isC && bo.Op == token.ADD {
				k += cst
				v = bo.Y
				continue
			}
			return v, k
		}
		return v, k
	}
	for _, b := range q.Blocks {
		iff := core.BlockIf(b)
		if iff == nil {
			continue
		}
		bo, ok := iff.Cond.(*ssa.BinOp)
		if !ok {
			continue
		}
		lb, lk := linear(bo.X)
		rb, rk := linear(bo.Y)
		if counts[lb] || counts[rb] {
			// a bounds test of the link position against the number of recorded sizes must be exactly position < count
			op := bo.Op
			pb, pk, ck := lb, lk, rk
			if counts[lb] {
				// count OP position  ==>  position OP' count
				pb, pk, ck = rb, rk, lk
				switch op {
				case token.LSS:
					op = token.GTR
				case token.GTR:
					op = token.LSS
				case token.LEQ:
					op = token.GEQ
				case token.GEQ:
					op = token.LEQ
				}
			}
			_, isParam := pb.(*ssa.Parameter)
			exact := false
			switch op {
			case token.LSS, token.GEQ:
				exact = ck-pk == 0
			case token.LEQ, token.GTR:
				exact = ck-pk == -1
			}
			if !isParam || !exact {
				if reachesLoad(b.Succs[0]) != nil || reachesLoad(b.Succs[1]) != nil {
					return fmt.Sprintf("the bounds test at %s of the link position against the number of recorded block sizes is not equivalent to position < count: a recorded size at the boundary is ignored and the child opened instead", c.P.Pos(bo.Pos()))
				}
			}
			continue
		}
		if !(tainted[bo.X] || tainted[bo.Y]) {
			continue
		}
		for i, succ := range b.Succs {
			other := b.Succs[1-i]
			if li := reachesLoad(succ); li != nil && returnsWithoutLoad(other) {
				return fmt.Sprintf("the comparison at %s on the value of the recorded block size decides whether the child is opened at %s (a recorded size — zero included — must answer the query without loading)", c.P.Pos(bo.Pos()), c.P.Pos(li.Pos()))
			}
		}
	}
	return ""
}

// checkSeekNeverReads implements R5.6.
func (c *Ctx) checkSeekNeverReads() {
	r := c.R
	n := 0
	for _, fn := range c.G.Funcs() {
		rel, ok := c.P.PkgOf(fn)
		if !ok || rel != "file" || fn.Synthetic != "" || !(seekSig(fn) || readSig(fn)) {
			continue
		}
		isRead := readSig(fn)
		n++
		key := core.FuncName(fn) + "/seek-never-reads"
		if isRead {
			key = core.FuncName(fn) + "/read-never-drains"
		}
		// BFS over G; a hit is a repository Read method or a call of an io drain helper
		seen := map[*ssa.Function]bool{fn: true}
		pred := map[*ssa.Function]*ssa.Function{}
		queue := []*ssa.Function{fn}
		var hit *ssa.Function
		what := ""
		for len(queue) > 0 && hit == nil {
			f := queue[0]
			queue = queue[1:]
			if f != fn && readSig(f) && !isRead {
				hit, what = f, "reaches "+core.FuncName(f)
				break
			}
			for _, ci := range core.CallsIn(f) {
				for _, nm := range []string{"Copy", "CopyN", "CopyBuffer", "ReadAll", "ReadFull", "ReadAtLeast"} {
					if core.IsCallTo(ci, "io", nm) {
						hit, what = f, "calls io."+nm+" in "+core.FuncName(f)
					}
				}
			}
			if hit != nil {
				break
			}
			for _, e := range c.G.Out[f] {
				if !seen[e.Callee] {
					seen[e.Callee] = true
					pred[e.Callee] = f
					queue = append(queue, e.Callee)
				}
			}
		}
		if hit == nil {
			r.OK("R5.6", key, c.P.Pos(fn.Pos()), fmt.Sprintf("%d reachable functions: none reads content", len(seen)))
			continue
		}
		var path []*ssa.Function
		for f := hit; f != nil; f = pred[f] {
			path = append([]*ssa.Function{f}, path...)
			if f == fn {
				break
			}
		}
		if isRead {
			r.Violate("R5.6", key, c.P.Pos(fn.Pos()), "a read pulls content it does not deliver ("+what+"): "+core.PathString(path)+" — chunks between an earlier position and the requested one are fetched and discarded")
			continue
		}
		r.Violate("R5.6", key, c.P.Pos(fn.Pos()), "a seek consumes content ("+what+"): "+core.PathString(path)+" — blocks outside the requested range are fetched")
	}
	r.Floor("R5.6", n, 6)
}

// checkSingleDescent implements R5.7.
func (c *Ctx) checkSingleDescent(fetch map[*ssa.Function]bool) {
	r := c.R
	loaders := c.G.Loaders(map[string]bool{"hamt": true})
	// walkers: functions of package hamt in which a loader is called inside a CFG cycle, or that recurse around a loader call
	walkers := map[*ssa.Function]bool{}
	for _, fn := range c.G.Funcs() {
		rel, ok := c.P.PkgOf(fn)
		if !ok || rel != "hamt" {
			continue
		}
		for _, ci := range core.CallsIn(fn) {
			if loaders[ci.Common().StaticCallee()] && core.InCycle(ci.Block()) {
				walkers[fn] = true
			}
		}
	}
	n := 0
	for _, fn := range c.G.Funcs() {
		rel, ok := c.P.PkgOf(fn)
		if !ok || rel != "hamt" || fn.Synthetic != "" {
			continue
		}
		isLookup := c.onLookupPath(fn)
		if !isLookup && !loaders[fn] {
			continue
		}
		n++
		key := core.FuncName(fn) + "/single-descent"
		path := c.G.PathTo(fn, walkers)
		if walkers[fn] {
			path = []*ssa.Function{fn}
		}
		r.Check(path == nil, "R5.7", key, c.P.Pos(fn.Pos()), "cannot reach a function that loads shards in a loop", "a lookup/loader can reach a subtree walk: "+core.PathString(path)+" — looking up one name would fetch a whole subtree")
	}
	r.Floor("R5.7", n, 5)
}

// mentionsDeclaredSizes: the (load-free) helper reads the link's "Tsize" / the node's BlockSizes.
func (c *Ctx) mentionsDeclaredSizes(h *ssa.Function, reach map[*ssa.Function]bool, depth int) (tsize, bsizes bool) {
	if depth > 2 || reach[h] {
		return false, false
	}
	for _, b := range h.Blocks {
		for _, ins := range b.Instrs {
			switch x := ins.(type) {
			case *ssa.Call:
				for _, a := range x.Call.Args {
					if k, ok := a.(*ssa.Const); ok && k.Value != nil && k.Value.Kind() == constant.String && constant.StringVal(k.Value) == "Tsize" {
						tsize = true
					}
					if strings.Contains(c.accessPath(a, 0), "BlockSizes") {
						bsizes = true
					}
				}
				if strings.Contains(c.accessPath(x, 0), "BlockSizes") {
					bsizes = true
				}
				if g := x.Call.StaticCallee(); g != nil {
					if _, isRepo := c.P.PkgOf(g); isRepo && !c.P.IsGenerated(g.Pos()) {
						t2, b2 := c.mentionsDeclaredSizes(g, reach, depth+1)
						tsize, bsizes = tsize || t2, bsizes || b2
					}
				}
			case *ssa.FieldAddr:
				if _, fv, ok := core.FieldAddrOf(x); ok && fv.Name() == "BlockSizes" {
					bsizes = true
				}
			}
		}
	}
	return
}

// onLookupPath: fn is one of the name-lookup entry points (LookupByString/ByNode/BySegment, native Lookup) of a node type
// of package hamt, or an unexported function of that package reached from them by static calls (the descent).
func (c *Ctx) onLookupPath(fn *ssa.Function) bool {
	if c.lookupPath == nil {
		c.lookupPath = map[*ssa.Function]bool{}
		var queue []*ssa.Function
		for _, f := range c.G.Funcs() {
			rel, ok := c.P.PkgOf(f)
			if !ok || rel != "hamt" || f.Signature.Recv() == nil {
				continue
			}
			switch f.Name() {
			case "LookupByString", "LookupByNode", "LookupBySegment", "Lookup":
				c.lookupPath[f] = true
				queue = append(queue, f)
			}
		}
		for len(queue) > 0 {
			f := queue[0]
			queue = queue[1:]
			for _, e := range c.G.Out[f] {
				if e.Kind != "static" || c.lookupPath[e.Callee] {
					continue
				}
				if rel, ok := c.P.PkgOf(e.Callee); !ok || rel != "hamt" {
					continue
				}
				// the descent: functions that take the key string or the hash cursor; stop at loaders (they are checked as loaders)
				takesKey := false
				for _, p := range e.Callee.Params {
					if isBasic(p.Type(), types.String) || c.statefulCursorPtr(p.Type()) {
						takesKey = true
					}
				}
				if !takesKey {
					continue
				}
				c.lookupPath[e.Callee] = true
				queue = append(queue, e.Callee)
			}
		}
	}
	return c.lookupPath[fn]
}

// helperDefersChildren: the load-reaching call ci of the stream builder goes to a repository helper which itself opens or
// positions the child only under `start < position`, where start is a parameter bound at ci to the running start offset
// that the builder's skip test uses, and position is the reader's position field.
func (c *Ctx) helperDefersChildren(fn *ssa.Function, ci ssa.CallInstruction, skipIf *ssa.If, posFields []*types.Var, reach map[*ssa.Function]bool) bool {
	h := ci.Common().StaticCallee()
	if h == nil || len(h.Blocks) == 0 {
		return false
	}
	if rel, ok := c.P.PkgOf(h); !ok || rel != "file" {
		return false
	}
	// operands of the skip comparison's right-hand side (start + size)
	starts := map[ssa.Value]bool{}
	if bo, ok := skipIf.Cond.(*ssa.BinOp); ok {
		var collect func(v ssa.Value, d int)
		collect = func(v ssa.Value, d int) {
			if d > 3 {
				return
			}
			starts[v] = true
			if b, ok := v.(*ssa.BinOp); ok && b.Op == token.ADD {
				collect(b.X, d+1)
				collect(b.Y, d+1)
			}
		}
		collect(bo.Y, 0)
	}
	n := 0
	for _, hc := range core.CallsIn(h) {
		reaches := false
		for _, e := range c.G.Out[h] {
			if e.Site == hc.(ssa.Instruction) && reach[e.Callee] {
				reaches = true
			}
		}
		if !reaches {
			continue
		}
		n++
		ok := core.GuardedBy(hc.Block(), func(cond ssa.Value) (bool, bool) {
			bo, isB := cond.(*ssa.BinOp)
			if !isB {
				return false, false
			}
			isPos := func(v ssa.Value) bool {
				u, ok := v.(*ssa.UnOp)
				return ok && c.fieldOfAddr(h, u.X) != nil && containsVar(posFields, c.fieldOfAddr(h, u.X))
			}
			isStart := func(v ssa.Value) bool {
				p, ok := v.(*ssa.Parameter)
				if !ok {
					return false
				}
				idx := -1
				for i, q := range h.Params {
					if q == p {
						idx = i
					}
				}
				return idx >= 0 && idx < len(ci.Common().Args) && starts[ci.Common().Args[idx]]
			}
			switch {
			case bo.Op == token.LSS && isPos(bo.Y) && isStart(bo.X):
				return true, true
			case bo.Op == token.GTR && isPos(bo.X) && isStart(bo.Y):
				return true, true
			}
			// the difference form: the helper receives skip = position - start and acts only when skip > 0
			isSkip := func(v ssa.Value) bool {
				p, ok := v.(*ssa.Parameter)
				if !ok {
					return false
				}
				for i, q := range h.Params {
					if q != p || i >= len(ci.Common().Args) {
						continue
					}
					sub, ok := core.Unconv(ci.Common().Args[i]).(*ssa.BinOp)
					if !ok || sub.Op != token.SUB || !starts[sub.Y] {
						continue
					}
					u, ok := sub.X.(*ssa.UnOp)
					if ok && c.fieldOfAddr(fn, u.X) != nil && containsVar(posFields, c.fieldOfAddr(fn, u.X)) {
						return true
					}
				}
				return false
			}
			if k, isK := core.ConstInt(bo.Y); isK && k == 0 && bo.Op == token.GTR && isSkip(bo.X) {
				return true, true
			}
			if k, isK := core.ConstInt(bo.X); isK && k == 0 && bo.Op == token.LSS && isSkip(bo.Y) {
				return true, true
			}
			return false, false
		})
		if !ok {
			return false
		}
	}
	return n > 0
}

// derivesFromBlockSizes: v is (an element looked up in) the BlockSizes member of a decoded UnixFS node.
func derivesFromBlockSizes(v ssa.Value, depth int) bool {
	if v == nil || depth > 10 {
		return false
	}
	switch x := v.(type) {
	case *ssa.FieldAddr:
		if _, fv, ok := core.FieldAddrOf(x); ok && fv.Name() == "BlockSizes" {
			return true
		}
		return derivesFromBlockSizes(x.X, depth+1)
	case *ssa.Field:
		if st, ok := x.X.Type().Underlying().(*types.Struct); ok && st.Field(x.Field).Name() == "BlockSizes" {
			return true
		}
		return derivesFromBlockSizes(x.X, depth+1)
	case *ssa.Call:
		cc := x.Common()
		if f := cc.StaticCallee(); f != nil {
			if f.Name() == "FieldBlockSizes" {
				return true
			}
			if f.Signature.Recv() != nil && len(cc.Args) > 0 {
				return derivesFromBlockSizes(cc.Args[0], depth+1)
			}
			return false
		}
		if cc.IsInvoke() {
			return derivesFromBlockSizes(cc.Value, depth+1)
		}
	case *ssa.Extract:
		return derivesFromBlockSizes(x.Tuple, depth+1)
	case *ssa.UnOp:
		return derivesFromBlockSizes(x.X, depth+1)
	case *ssa.ChangeType:
		return derivesFromBlockSizes(x.X, depth+1)
	case *ssa.MakeInterface:
		return derivesFromBlockSizes(x.X, depth+1)
	case *ssa.Phi:
		for _, e := range x.Edges {
			if derivesFromBlockSizes(e, depth+1) {
				return true
			}
		}
	}
	return false
}

// checkSingleDescentCall implements R5.8.
func (c *Ctx) checkSingleDescentCall() {
	r := c.R
	n := 0
	for _, fn := range c.G.Funcs() {
		rel, ok := c.P.PkgOf(fn)
		if !ok || rel != "hamt" || fn.Synthetic != "" || len(fn.Blocks) == 0 {
			continue
		}
		// descent calls in fn: static repository callee taking a stateful cursor that is allocated in fn
		isDescent := func(ins ssa.Instruction) bool {
			call, ok := ins.(*ssa.Call)
			if !ok || call.Call.StaticCallee() == nil {
				return false
			}
			if _, isRepo := c.P.PkgOf(call.Call.StaticCallee()); !isRepo {
				return false
			}
			for _, a := range call.Call.Args {
				if c.statefulCursorPtr(a.Type()) {
					if al, fresh := a.(*ssa.Alloc); fresh && al.Parent() == fn {
						return true
					}
				}
			}
			return false
		}
		has := false
		for _, ci := range core.CallsIn(fn) {
			if isDescent(ci.(ssa.Instruction)) {
				has = true
			}
		}
		if !has {
			continue
		}
		n++
		worst := 0
		complete := core.EnumPaths(fn, 2, 60000, func(path []*ssa.BasicBlock) {
			k := 0
			for _, b := range path {
				for _, ins := range b.Instrs {
					if isDescent(ins) {
						k++
					}
				}
			}
			if k > worst {
				worst = k
			}
		})
		key := core.FuncName(fn) + "/one-descent"
		if !complete {
			r.Undecided("R5.8", key, c.P.Pos(fn.Pos()), "path enumeration exceeded its bound")
			continue
		}
		r.Check(worst <= 1, "R5.8", key, c.P.Pos(fn.Pos()), "at most one descent per call", fmt.Sprintf("a path starts %d descents: blocks on a second hash path are fetched for one lookup", worst))
	}
	r.Floor("R5.8", n, 1)
}
