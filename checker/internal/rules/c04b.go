package rules

import (
	"fmt"
	"go/token"
	"go/types"

	"golang.org/x/tools/go/ssa"

	"verifchk/internal/core"
)

// ---------------------------------------------------------------------------
// R4.11: the child that contains the read position is entered at the right byte.
//
// The stream builder keeps every child that is not wholly before the position and splices the kept children's readers
// together. The first kept child may start before the position; its reader must then be moved to (position - start)
// before it is spliced in, whichever way that reader was obtained (opened here, or handed back by the size query).
// Decided per path of one loop iteration: from the loop header to the statement that appends a child reader, either an
// edge was taken that implies start >= position, or the very reader that is appended received
// Seek(position - start, io.SeekStart) (directly, in a helper that seeks its reader parameter by its skip parameter, or
// from a helper that returns a reader it has moved by its skip parameter), with start the loop-carried accumulator.
// ---------------------------------------------------------------------------

type pathEnv struct{ phi map[*ssa.Phi]ssa.Value }

func newPathEnv() *pathEnv { return &pathEnv{phi: map[*ssa.Phi]ssa.Value{}} }

func (e *pathEnv) step(pred, b *ssa.BasicBlock) {
	type upd struct {
		p *ssa.Phi
		v ssa.Value
	}
	var ups []upd
	for _, ins := range b.Instrs {
		p, ok := ins.(*ssa.Phi)
		if !ok {
			break
		}
		if v := core.PhiValueOnPath(p, pred); v != nil {
			ups = append(ups, upd{p, e.res(v)})
		}
	}
	for _, u := range ups {
		e.phi[u.p] = u.v
	}
}

func (e *pathEnv) res(v ssa.Value) ssa.Value {
	for i := 0; i < 8; i++ {
		switch x := v.(type) {
		case *ssa.ChangeInterface:
			v = x.X
		case *ssa.MakeInterface:
			v = x.X
		case *ssa.Phi:
			if r, ok := e.phi[x]; ok && r != v {
				v = r
			} else {
				return v
			}
		default:
			return v
		}
	}
	return v
}

// simplePaths enumerates the block paths from `from` to `to` that repeat no block (bounded).
func simplePaths(from, to *ssa.BasicBlock, limit int, visit func([]*ssa.BasicBlock)) bool {
	on := map[*ssa.BasicBlock]bool{}
	var path []*ssa.BasicBlock
	n := 0
	var rec func(b *ssa.BasicBlock) bool
	rec = func(b *ssa.BasicBlock) bool {
		if on[b] {
			return true
		}
		path = append(path, b)
		defer func() { path = path[:len(path)-1] }()
		if b == to {
			n++
			if n > limit {
				return false
			}
			cp := make([]*ssa.BasicBlock, len(path))
			copy(cp, path)
			visit(cp)
			return true
		}
		on[b] = true
		defer func() { on[b] = false }()
		for _, s := range b.Succs {
			if !rec(s) {
				return false
			}
		}
		return true
	}
	if from == to {
		visit([]*ssa.BasicBlock{from})
		return true
	}
	return rec(from)
}

// nonPositive: taking the edge (cond, taken) implies v <= 0.
func impliesNonPositive(cond ssa.Value, taken bool, v ssa.Value) bool {
	bo, ok := cond.(*ssa.BinOp)
	if !ok {
		return false
	}
	k, isK := core.ConstInt(bo.Y)
	if bo.X != v || !isK {
		return false
	}
	switch {
	case bo.Op == token.GTR && k == 0 && !taken, bo.Op == token.GEQ && k == 1 && !taken:
		return true
	case bo.Op == token.LEQ && k == 0 && taken, bo.Op == token.LSS && k == 1 && taken:
		return true
	case bo.Op == token.EQL && k == 0 && taken, bo.Op == token.NEQ && k == 0 && !taken:
		return true
	}
	return false
}

// seekByParam: on every path of h to a return whose error may be nil, the reader selected by target(ret, env) has received
// Seek(param j, io.SeekStart), unless the path took an edge implying param j <= 0.
func (c *Ctx) seekByParam(h *ssa.Function, j int, target func(ret *ssa.Return, env *pathEnv) ssa.Value) bool {
	if h == nil || len(h.Blocks) == 0 || j < 0 || j >= len(h.Params) {
		return false
	}
	pj := ssa.Value(h.Params[j])
	errIdx := core.ErrResultIndex(h.Signature)
	ok := true
	nret := 0
	complete := core.EnumPaths(h, 1, 20000, func(path []*ssa.BasicBlock) {
		env := newPathEnv()
		seeked := map[ssa.Value]bool{}
		exempt := false
		for i, b := range path {
			if i > 0 {
				env.step(path[i-1], b)
			}
			for _, ins := range b.Instrs {
				switch x := ins.(type) {
				case *ssa.Call:
					name, recv := methodCall(x)
					if name != "Seek" || recv == nil || len(x.Call.Args) < 2 {
						continue
					}
					args := x.Call.Args
					wh, isK := core.ConstInt(args[len(args)-1])
					if args[len(args)-2] == pj && isK && wh == 0 {
						seeked[env.res(recv)] = true
					} else {
						delete(seeked, env.res(recv))
					}
				case *ssa.Return:
					if errIdx >= 0 {
						ev := core.ResolvedResults(x)[errIdx]
						if !core.IsNilConst(ev) && core.ErrKnownNonNil(ev, core.PathNonNil(path, len(path))) {
							continue
						}
					}
					t := target(x, env)
					if t == nil || core.IsNilConst(t) {
						continue
					}
					nret++
					if !exempt && !seeked[env.res(t)] {
						ok = false
					}
				}
			}
			if i+1 < len(path) {
				if cond, taken, okb := core.BranchTaken(b, path[i+1]); okb && impliesNonPositive(cond, taken, pj) {
					exempt = true
				}
			}
		}
	})
	return complete && ok && nret > 0
}

func (c *Ctx) checkFastForward() {
	r := c.R
	r.Rule("R4.11", "the kept child that starts before the read position is entered at (position - start): on every path of one iteration of the stream builder's children loop to the statement that splices a child reader in, either an edge implying start >= position was taken, or that very reader received Seek(position - start, io.SeekStart) — directly, through a helper that seeks its reader parameter by its skip parameter, or from a helper that returns a reader moved by its skip parameter — with start the loop-carried start accumulator (its value before this child's size is added)")
	n := 0
	for _, fn := range c.G.Funcs() {
		rel, ok := c.P.PkgOf(fn)
		if !ok || rel != "file" || fn.Synthetic != "" {
			continue
		}
		isBuilder := false
		for _, ci := range core.CallsIn(fn) {
			if core.IsCallTo(ci, "io", "MultiReader") {
				isBuilder = true
			}
		}
		if !isBuilder {
			continue
		}
		var posFields []*types.Var
		for _, rt := range findReaderTypes(c, map[string]bool{"file": true}) {
			if rt.named == core.RecvNamed(fn) {
				posFields = rt.pos
			}
		}
		if len(posFields) == 0 {
			continue
		}
		isPosIn := func(f *ssa.Function, v ssa.Value) bool {
			u, ok := core.Unconv(v).(*ssa.UnOp)
			return ok && u.Op == token.MUL && c.fieldOfAddr(f, u.X) != nil && containsVar(posFields, c.fieldOfAddr(f, u.X))
		}
		// skipOf: v is (position - A); returns A
		skipOfIn := func(f *ssa.Function, v ssa.Value) ssa.Value {
			bo, ok := core.Unconv(v).(*ssa.BinOp)
			if !ok || bo.Op != token.SUB || !isPosIn(f, bo.X) {
				return nil
			}
			return bo.Y
		}
		skipOf := func(v ssa.Value) ssa.Value { return skipOfIn(fn, v) }
		// startGuard: taking the edge (cond, taken) in f implies start >= position
		startGuard := func(f *ssa.Function, cond ssa.Value, taken bool, isStart func(ssa.Value) bool) bool {
			bo, ok := cond.(*ssa.BinOp)
			if !ok {
				return false
			}
			startFirst := isStart(bo.X) && isPosIn(f, bo.Y) // start op pos
			posFirst := isPosIn(f, bo.X) && isStart(bo.Y)   // pos op start
			switch {
			case startFirst && (bo.Op == token.LSS || bo.Op == token.LEQ) && !taken, // !(start < pos), !(start <= pos)
				posFirst && (bo.Op == token.GTR || bo.Op == token.GEQ) && !taken,  // !(pos > start), !(pos >= start)
				startFirst && (bo.Op == token.GEQ || bo.Op == token.GTR) && taken, // start >= pos, start > pos
				posFirst && (bo.Op == token.LEQ || bo.Op == token.LSS) && taken:   // pos <= start, pos < start
				return true
			}
			if a := skipOfIn(f, bo.X); a != nil && isStart(a) && impliesNonPositive(cond, taken, bo.X) {
				return true
			}
			return false
		}
		// positionsParam: h is a method of the same reader that, given a child reader (param ri) and the child's start
		// (param si), leaves the reader at (position - start) whenever the child starts before the position
		// positionsTarget: h is a method of the same reader that is handed the child's start (param si) and leaves the reader
		// selected by target (one of its parameters, or the reader it returns) at (position - start) whenever the child
		// starts before the position
		positionsTarget := func(h *ssa.Function, si int, target func(ret *ssa.Return, env *pathEnv) ssa.Value) bool {
			if h == nil || len(h.Blocks) == 0 || core.RecvNamed(h) != core.RecvNamed(fn) || si >= len(h.Params) {
				return false
			}
			isStartH := func(a ssa.Value) bool { return core.Unconv(a) == ssa.Value(h.Params[si]) }
			errIdx := core.ErrResultIndex(h.Signature)
			good, nret := true, 0
			complete := core.EnumPaths(h, 1, 20000, func(path []*ssa.BasicBlock) {
				env := newPathEnv()
				moved := map[ssa.Value]bool{}
				noNeed := false
				for i, b := range path {
					if i > 0 {
						env.step(path[i-1], b)
					}
					for _, ins := range b.Instrs {
						switch x := ins.(type) {
						case *ssa.Call:
							name, recv := methodCall(x)
							if name != "Seek" || recv == nil || len(x.Call.Args) < 2 {
								continue
							}
							args := x.Call.Args
							wh, isK := core.ConstInt(args[len(args)-1])
							a := skipOfIn(h, args[len(args)-2])
							moved[env.res(recv)] = a != nil && isStartH(a) && isK && wh == 0
						case *ssa.Return:
							if errIdx >= 0 {
								ev := core.ResolvedResults(x)[errIdx]
								if !core.IsNilConst(ev) && core.ErrKnownNonNil(ev, core.PathNonNil(path, len(path))) {
									continue
								}
							}
							t := target(x, env)
							if t == nil || core.IsNilConst(t) {
								continue
							}
							nret++
							if !moved[env.res(t)] && !noNeed {
								good = false
							}
						}
					}
					if i+1 < len(path) {
						if cond, taken, okb := core.BranchTaken(b, path[i+1]); okb && startGuard(h, cond, taken, isStartH) {
							noNeed = true
						}
					}
				}
			})
			return complete && good && nret > 0
		}
		positionsParam := func(h *ssa.Function, ri, si int) bool {
			if ri >= len(h.Params) {
				return false
			}
			return positionsTarget(h, si, func(*ssa.Return, *pathEnv) ssa.Value { return h.Params[ri] })
		}
		si := 0
		for _, b := range fn.Blocks {
			if !core.InCycle(b) {
				continue
			}
			for _, ins := range b.Instrs {
				st, ok := ins.(*ssa.Store)
				if !ok {
					continue
				}
				if _, isIdx := st.Addr.(*ssa.IndexAddr); !isIdx {
					continue
				}
				raw := st.Val
				for {
					if ci, ok := raw.(*ssa.ChangeInterface); ok {
						raw = ci.X
						continue
					}
					if mi, ok := raw.(*ssa.MakeInterface); ok {
						raw = mi.X
						continue
					}
					break
				}
				if !isCursorT(raw.Type()) {
					continue
				}
				si++
				n++
				key := fmt.Sprintf("%s/entered-at-position#%d", core.FuncName(fn), si)
				pos := c.P.Pos(st.Pos())
				hdr := core.LoopHeader(b)
				if hdr == nil {
					r.Undecided("R4.11", key, pos, "the splice is in a cycle whose header was not found")
					continue
				}
				isStart := func(a ssa.Value) bool {
					a = core.Unconv(a)
					if p, ok := a.(*ssa.Phi); ok {
						return p.Block() == hdr
					}
					if u, ok := a.(*ssa.UnOp); ok && u.Op == token.MUL {
						_, isAlloc := u.X.(*ssa.Alloc)
						return isAlloc
					}
					return false
				}
				var bad []string
				npaths := 0
				complete := simplePaths(hdr, b, 50000, func(path []*ssa.BasicBlock) {
					npaths++
					env := newPathEnv()
					positioned := map[ssa.Value]bool{}
					noNeed := false
					for i, pb := range path {
						if i > 0 {
							env.step(path[i-1], pb)
						}
						for _, pi := range pb.Instrs {
							if pi == ssa.Instruction(st) {
								break
							}
							call, ok := pi.(*ssa.Call)
							if !ok {
								continue
							}
							if name, recv := methodCall(call); name == "Seek" && recv != nil && len(call.Call.Args) >= 2 && isCursorT(recv.Type()) {
								args := call.Call.Args
								wh, isK := core.ConstInt(args[len(args)-1])
								if a := skipOf(args[len(args)-2]); a != nil && isStart(a) && isK && wh == 0 {
									positioned[env.res(recv)] = true
								} else {
									delete(positioned, env.res(recv))
								}
								continue
							}
							h := call.Call.StaticCallee()
							if h == nil || len(h.Blocks) == 0 {
								continue
							}
							if _, isRepo := c.P.PkgOf(h); !isRepo {
								continue
							}
							// a method of the same reader handed the child reader and the child's start
							if len(call.Call.Args) > 0 && len(fn.Params) > 0 && call.Call.Args[0] == ssa.Value(fn.Params[0]) {
								for si, sa := range call.Call.Args {
									if si == 0 || !isStart(sa) {
										continue
									}
									for ri, ra := range call.Call.Args {
										if ri == 0 || ri == si || !isCursorT(ra.Type()) {
											continue
										}
										if positionsParam(h, ri, si) {
											positioned[env.res(ra)] = true
										}
									}
									// … or returns the positioned reader (the one handed in, or one it opens)
									hres := h.Signature.Results()
									for k := 0; k < hres.Len(); k++ {
										if !isCursorT(hres.At(k).Type()) {
											continue
										}
										kk := k
										if positionsTarget(h, si, func(ret *ssa.Return, _ *pathEnv) ssa.Value { return core.ResolvedResults(ret)[kk] }) {
											var out ssa.Value = call
											if hres.Len() > 1 {
												out = extractOf(call, kk)
											}
											if out != nil {
												positioned[out] = true
											}
										}
									}
								}
							}
							for j, a := range call.Call.Args {
								sa := skipOf(a)
								if sa == nil || !isStart(sa) {
									continue
								}
								// helper seeks a reader argument by this skip
								for k, ra := range call.Call.Args {
									if k == j || !isCursorT(ra.Type()) {
										continue
									}
									kk := k
									if c.seekByParam(h, j, func(_ *ssa.Return, _ *pathEnv) ssa.Value { return h.Params[kk] }) {
										positioned[env.res(ra)] = true
									}
								}
								// helper returns a reader it has moved by this skip
								res := h.Signature.Results()
								for k := 0; k < res.Len(); k++ {
									if !isCursorT(res.At(k).Type()) {
										continue
									}
									kk := k
									if c.seekByParam(h, j, func(ret *ssa.Return, _ *pathEnv) ssa.Value { return core.ResolvedResults(ret)[kk] }) {
										var out ssa.Value = call
										if res.Len() > 1 {
											out = extractOf(call, kk)
										}
										if out != nil {
											positioned[out] = true
										}
									}
								}
							}
						}
						if i+1 < len(path) {
							cond, taken, okb := core.BranchTaken(pb, path[i+1])
							if !okb {
								continue
							}
							if startGuard(fn, cond, taken, isStart) {
								noNeed = true
							}
						}
					}
					if noNeed {
						return
					}
					x := env.res(st.Val)
					if !positioned[x] {
						at := x.Pos()
						if ex, ok := x.(*ssa.Extract); ok {
							at = ex.Tuple.Pos()
						}
						from := "obtained at " + c.P.Pos(at)
						bad = append(bad, fmt.Sprintf("a child reader (%s) is spliced in at %s without having been moved to (position - start), on a path where the child may start before the read position", from, c.P.Pos(st.Pos())))
					}
				})
				if !complete {
					r.Undecided("R4.11", key, pos, "path enumeration exceeded its bound")
					continue
				}
				r.Check(len(bad) == 0, "R4.11", key, pos, fmt.Sprintf("%d path(s) of one iteration: the spliced reader was moved to (position - start) or the child does not start before the position", npaths), uniqJoin(bad))
			}
		}
	}
	r.Floor("R4.11", n, 1)
}

// checkNoFabricatedSize implements R4.12 (R6.9 under C06): a child's size is read, never made up. Every return of the
// size query that may carry a nil error hands out a size that is the result of a call (Tsize / BlockSizes entry read with
// AsInt, the end position a Seek returned) — not a constant. A constant 0 for "unknown" makes the stream builder skip the
// child: its bytes vanish from the file and its blocks are never requested.
func (c *Ctx) checkNoFabricatedSize(rule string) {
	r := c.R
	r.Rule(rule, "no fabricated size: every possibly-successful return of the size query returns a size obtained from a call (AsInt of Tsize / of the BlockSizes entry, or the end position returned by Seek), never a constant")
	n := 0
	for _, q := range c.sizeQueries() {
		errIdx := core.ErrResultIndex(q.Signature)
		if errIdx < 0 {
			continue
		}
		n++
		key := core.FuncName(q) + "/size-is-read"
		var bad []string
		for _, ret := range core.Returns(q) {
			rr := core.ResolvedResults(ret)
			// a forwarding helper (`fail := func(err error) (int64, io.ReadSeeker, error) { return 0, nil, err }`) returns
			// whatever error it is handed: its callers are the ones judged
			if _, isParam := rr[errIdx].(*ssa.Parameter); isParam {
				continue
			}
			if core.ErrKnownNonNil(rr[errIdx], nil) || core.GuardedBy(ret.Block(), func(cond ssa.Value) (bool, bool) {
				x, trueMeansNil, ok := core.NilCmp(cond)
				if !ok || x != rr[errIdx] {
					return false, false
				}
				return !trueMeansNil, true
			}) {
				continue
			}
			for i, rv := range rr {
				if i == errIdx || !isIntegerType(rv.Type()) {
					continue
				}
				if _, isK := core.ConstInt(core.Unconv(rv)); isK {
					// a constant together with an error variable that is the direct result of the call just made is the
					// `return 0, nil, err` idiom only when that error is tested non-nil — handled above; here it may be nil
					bad = append(bad, fmt.Sprintf("return at %s hands out the constant size %s with a possibly nil error", c.P.Pos(ret.Pos()), rv.Name()))
				}
			}
		}
		r.Check(len(bad) == 0, rule, key, c.P.Pos(q.Pos()), "every size handed out was read from the link, the metadata or the child", uniqJoin(bad))
	}
	r.Floor(rule, n, 1)
}
