package rules

import (
	"fmt"
	"go/token"
	"go/types"
	"strings"

	"golang.org/x/tools/go/ssa"

	"verifchk/internal/core"
)

func init() { Registry["C11"] = c11 }

// baseOf follows a size or link expression back to the value it was read from:
// e.Tsize.Must().Int() → e;  c.storedSize → c;  n.Size()#0 → n;  n.Link() → n;  extract #k of call → the call.
func (c *Ctx) baseOf(v ssa.Value, depth int) ssa.Value {
	if depth > 12 {
		return v
	}
	switch x := v.(type) {
	case *ssa.Convert:
		return c.baseOf(x.X, depth+1)
	case *ssa.ChangeType:
		return c.baseOf(x.X, depth+1)
	case *ssa.MakeInterface:
		return c.baseOf(x.X, depth+1)
	case *ssa.Extract:
		if call, ok := x.Tuple.(*ssa.Call); ok {
			if b := c.accessorBase(call); b != nil {
				return c.baseOf(b, depth+1)
			}
			return call
		}
		return c.baseOf(x.Tuple, depth+1)
	case *ssa.Call:
		if b := c.accessorBase(x); b != nil {
			return c.baseOf(b, depth+1)
		}
		return x
	case *ssa.UnOp:
		if x.Op == token.MUL {
			switch a := x.X.(type) {
			case *ssa.FieldAddr:
				return c.baseOf(a.X, depth+1)
			case *ssa.IndexAddr:
				return a // range element of a slice: identity is the element address
			case *ssa.Alloc:
				// local copy of a range element / struct value: single store
				var src ssa.Value
				n := 0
				for _, ref := range *a.Referrers() {
					if st, ok := ref.(*ssa.Store); ok && st.Addr == ssa.Value(a) {
						src = st.Val
						n++
					}
				}
				if n == 1 {
					return c.baseOf(src, depth+1)
				}
				return a
			}
			return c.baseOf(x.X, depth+1)
		}
	case *ssa.FieldAddr:
		return c.baseOf(x.X, depth+1)
	case *ssa.Field:
		return c.baseOf(x.X, depth+1)
	}
	return v
}

// accessorBase: the call is a pure accessor (method with only a receiver: Field*, Must, Int, Link, Size) → its receiver.
func (c *Ctx) accessorBase(call *ssa.Call) ssa.Value {
	cc := call.Common()
	if cc.IsInvoke() && len(cc.Args) == 0 {
		switch cc.Method.Name() {
		case "Size", "Link":
			return cc.Value
		}
		return nil
	}
	f := cc.StaticCallee()
	if f == nil || f.Signature.Recv() == nil || len(cc.Args) != 1 {
		return nil
	}
	n := f.Name()
	if strings.HasPrefix(n, "Field") || n == "Must" || n == "Int" || n == "Link" || n == "Size" {
		return cc.Args[0]
	}
	return nil
}

// sumHelper: method on a slice type that sums (kind "sum") or collects (kind "collect") one field of its elements.
func (c *Ctx) sumHelper(fn *ssa.Function) (kind string, field *types.Var) {
	if fn == nil || fn.Signature.Recv() == nil || len(fn.Params) != 1 {
		return "", nil
	}
	if _, ok := fn.Params[0].Type().Underlying().(*types.Slice); !ok {
		return "", nil
	}
	var fields []*types.Var
	for _, b := range fn.Blocks {
		for _, ins := range b.Instrs {
			switch x := ins.(type) {
			case *ssa.FieldAddr:
				if _, fv, ok := core.FieldAddrOf(x); ok {
					fields = append(fields, fv)
				}
			case *ssa.Field:
				if st, ok := x.X.Type().Underlying().(*types.Struct); ok {
					fields = append(fields, st.Field(x.Field))
				}
			}
		}
	}
	if len(fields) == 0 {
		return "", nil
	}
	for _, f := range fields[1:] {
		if f != fields[0] {
			return "", nil
		}
	}
	hasLoop := false
	for _, b := range fn.Blocks {
		for _, ins := range b.Instrs {
			if phi, ok := ins.(*ssa.Phi); ok && phi.Comment == "rangeindex" {
				hasLoop = true
			}
		}
	}
	if !hasLoop {
		return "", nil
	}
	res := fn.Signature.Results()
	if res.Len() != 1 {
		return "", nil
	}
	if _, isSlice := res.At(0).Type().Underlying().(*types.Slice); isSlice {
		return "collect", fields[0]
	}
	// sum: the returned value is a phi fed by phi + field
	for _, ret := range core.Returns(fn) {
		phi, ok := ret.Results[0].(*ssa.Phi)
		if !ok {
			return "", nil
		}
		okAdd := false
		for _, e := range phi.Edges {
			if bo, ok := e.(*ssa.BinOp); ok && bo.Op == token.ADD && (bo.X == ssa.Value(phi) || bo.Y == ssa.Value(phi)) {
				okAdd = true
			}
		}
		if !okAdd {
			return "", nil
		}
	}
	return "sum", fields[0]
}

func isEntryCtor(f *ssa.Function) bool {
	if f == nil || f.Signature.Recv() != nil {
		return false
	}
	// (name string, size int64, link Link) (PBLink, error)
	p := f.Signature.Params()
	if p.Len() != 3 || !isBasic(p.At(0).Type(), types.String) || !isBasic(p.At(1).Type(), types.Int64) || !isLinkType(p.At(2).Type()) {
		return false
	}
	return true
}

func c11(c *Ctx) {
	r := c.R
	r.Explain = "C11 (sizes are the true cumulative/content sizes): decides the structural pairing that the size arithmetic rests on — (R11.1) at every construction of a link the size and the link are read from the same value (results of one builder call, storedSize/link of one file shard, Tsize/Hash of one existing entry, Size()/Link() of one node); (R11.2) every builder's returned size is the byte count of the very store that produced the returned link plus an accumulator whose every addend is the size written into a link of that block in the same iteration (or a sum helper over the same children slice that packs the links); (R11.3) interior file nodes declare FileSize = Σ byteSize and BlockSizes = [byteSize…] of the very children slice whose links they carry, and return that sum as their own byteSize; a leaf's byteSize is len of the chunk it stores; (R11.4) the byte counter adds len(p) on every Write, reports only after the encoder succeeded, and sizedStore returns the count of the same Store call. Not decided: numeric truth against decoded blocks."
	r.Rule("R11.1", "Tsize pairing: at every call of the link constructor (name, size, link) in the builder packages, size and link have the same base value")
	r.Rule("R11.2", "cumulative return: returned size = count of the store that yielded the returned link + accumulator; each addend of the accumulator is the size given to a link of that block (same SSA value), or the accumulator is the stored-size sum helper over the slice whose elements' stored sizes are the link sizes")
	r.Rule("R11.3", "file metadata: FileSize/BlockSizes/byteSize are the byte-size sum/collect helpers over the very slice handed to the link packer; leaf byteSize = len(chunk) of the chunk wrapped into the stored node")
	r.Rule("R11.4", "counting store: Write adds len(p) and forwards the same p; the count callback runs only when the encoder returned nil and every call through it, at any closure depth, passes the counting writer's counter (field or accessor); sizedStore returns the count captured from its own Store call")

	bp := core.BuilderPkgs
	// ---- R11.1
	n1 := 0
	for _, fn := range c.G.Funcs() {
		rel, ok := c.P.PkgOf(fn)
		if !ok || !bp[rel] {
			continue
		}
		for _, ci := range core.CallsIn(fn) {
			f := ci.Common().StaticCallee()
			if !isEntryCtor(f) {
				continue
			}
			n1++
			key := callKey(c.P, fn, ci) + "/pairing"
			args := ci.Common().Args
			sb, lb := c.baseOf(args[1], 0), c.baseOf(args[2], 0)
			good := sb == lb
			r.Check(good, "R11.1", key, c.P.Pos(ci.Pos()), "size and link are read from the same value ("+describeBase(sb)+")", fmt.Sprintf("size comes from %s but the link from %s", describeBase(sb), describeBase(lb)))
		}
	}
	r.Floor("R11.1", n1, 5)

	// ---- R11.2
	n2 := 0
	for _, fn := range c.G.Funcs() {
		rel, ok := c.P.PkgOf(fn)
		if !ok || !bp[rel] || fn.Synthetic != "" {
			continue
		}
		li := linkResultIndex(fn.Signature)
		if li < 0 || core.ErrResultIndex(fn.Signature) < 0 {
			continue
		}
		si := -1
		for i := 0; i < fn.Signature.Results().Len(); i++ {
			if isBasic(fn.Signature.Results().At(i).Type(), types.Uint64) {
				si = i
			}
		}
		if si < 0 {
			continue
		}
		k := 0
		for _, ret := range core.Returns(fn) {
			rr := core.ResolvedResults(ret)
			if core.IsNilConst(rr[li]) {
				continue
			}
			k++
			n2++
			key := fmt.Sprintf("%s/returned-size#%d", core.FuncName(fn), k)
			ok, why := c.cumulativeReturn(fn, rr[li], rr[si])
			r.Check(ok, "R11.2", key, c.P.Pos(ret.Pos()), why, "returned size is not the stored block's byte count plus the sizes written into its links: "+why)
		}
	}
	// struct results carrying (link, size-that-is-later-linked): e.g. the per-level file shard record
	sizeFields := map[*types.Var]bool{}
	for _, fn := range c.G.Funcs() {
		if rel, ok := c.P.PkgOf(fn); !ok || !bp[rel] {
			continue
		}
		for _, ci := range core.CallsIn(fn) {
			if !isEntryCtor(ci.Common().StaticCallee()) {
				continue
			}
			switch x := core.Unconv(ci.Common().Args[1]).(type) {
			case *ssa.UnOp:
				if _, fv, ok := core.FieldAddrOf(x.X); ok {
					sizeFields[fv] = true
				}
			case *ssa.Field:
				if st, ok := x.X.Type().Underlying().(*types.Struct); ok {
					sizeFields[st.Field(x.Field)] = true
				}
			}
		}
	}
	for _, fn := range c.G.Funcs() {
		rel, ok := c.P.PkgOf(fn)
		if !ok || !bp[rel] {
			continue
		}
		type rec struct{ link, size ssa.Value }
		recs := map[ssa.Value]*rec{}
		var order []ssa.Value
		for _, b := range fn.Blocks {
			for _, ins := range b.Instrs {
				st, ok := ins.(*ssa.Store)
				if !ok {
					continue
				}
				base, fv, ok := core.FieldAddrOf(st.Addr)
				if !ok {
					continue
				}
				if _, isAlloc := base.(*ssa.Alloc); !isAlloc {
					continue
				}
				if recs[base] == nil {
					recs[base] = &rec{}
					order = append(order, base)
				}
				if isLinkType(fv.Type()) {
					recs[base].link = st.Val
				}
				if sizeFields[fv] {
					recs[base].size = st.Val
				}
			}
		}
		k := 0
		for _, base := range order {
			rc := recs[base]
			if rc.link == nil || rc.size == nil || core.IsNilConst(rc.link) {
				continue
			}
			k++
			n2++
			key := fmt.Sprintf("%s/record-size#%d", core.FuncName(fn), k)
			ok, why := c.cumulativeReturn(fn, rc.link, rc.size)
			r.Check(ok, "R11.2", key, c.P.Pos(base.Pos()), why, "recorded stored size is not the block's byte count plus the sizes written into its links: "+why)
		}
	}
	r.Floor("R11.2", n2, 8)
	c.checkFileMeta()
	c.checkCountingStore()
}

func describeBase(v ssa.Value) string {
	switch x := v.(type) {
	case *ssa.Call:
		return "results of " + shorten(strings.ReplaceAll(core.CalleeName(x), core.Module+"/", ""))
	case *ssa.IndexAddr:
		return "range element of " + x.X.Name()
	case *ssa.Parameter:
		return "parameter " + x.Name()
	case *ssa.Extract:
		return "range value " + x.Name()
	}
	return fmt.Sprintf("%s (%T)", v.Name(), v)
}

// cumulativeReturn decides R11.2 for one successful return.
func (c *Ctx) cumulativeReturn(fn *ssa.Function, link, size ssa.Value) (bool, string) {
	// forwarding the results of a callee with the same contract
	if le, ok := link.(*ssa.Extract); ok {
		if se, ok := core.Unconv(size).(*ssa.Extract); ok && se.Tuple == le.Tuple {
			if call, ok := le.Tuple.(*ssa.Call); ok {
				if f := call.Call.StaticCallee(); f != nil {
					if _, isRepo := c.P.PkgOf(f); isRepo {
						return true, "forwards link and size of " + f.Name() + " (checked on its own)"
					}
					if core.IsLinkSystemMethod(f, map[string]bool{"Store": true}) {
						return false, "LinkSystem.Store does not return a size"
					}
				}
			}
		}
	}
	// the store that produced the link
	var storeCall *ssa.Call
	if le, ok := link.(*ssa.Extract); ok {
		storeCall, _ = le.Tuple.(*ssa.Call)
	}
	// struct-field returns (fileShardMeta literal handled by R11.3) are not seen here; a link read from a field is a forward of an element
	if storeCall == nil {
		if sb, lb := c.baseOf(size, 0), c.baseOf(link, 0); sb == lb {
			return true, "link and size of the same existing value (" + describeBase(sb) + ")"
		}
		return false, "the returned link is not the result of a store in this function"
	}
	// constant size with a direct LinkSystem.Store: only legitimate for an empty block
	if k, ok := core.ConstInt(size); ok {
		if k == 0 && core.IsLinkSystemMethod(storeCall.Call.StaticCallee(), map[string]bool{"Store": true}) && c.storesEmptyBytes(storeCall) {
			return true, "empty leaf: the stored block is the empty byte string, size 0"
		}
		return false, fmt.Sprintf("constant size %d", k)
	}
	count := extractByType(storeCall, types.Uint64)
	if count == nil {
		// the counting store itself: size is the cell written by the count callback handed to the link system whose Store is called
		if core.IsLinkSystemMethod(storeCall.Call.StaticCallee(), map[string]bool{"Store": true}) {
			if u, ok := core.Unconv(size).(*ssa.UnOp); ok {
				if cell, ok := u.X.(*ssa.Alloc); ok {
					if wc, ok := storeCall.Call.Args[0].(*ssa.Call); ok {
						for _, a := range wc.Call.Args {
							if mc, ok := a.(*ssa.MakeClosure); ok {
								for _, b := range mc.Bindings {
									if b == ssa.Value(cell) {
										if cl, _ := mc.Fn.(*ssa.Function); cl != nil && len(cl.Params) == 1 {
											for _, fs := range core.CallsIn(cl) {
												_ = fs
											}
											return true, "counting store: size is the cell set by the count callback of the link system whose Store produced the link"
										}
									}
								}
							}
						}
					}
				}
			}
		}
		return false, "the store call yields no byte count"
	}
	sz := core.Unconv(size)
	if sz == count {
		return true, "leaf: size is the byte count of the store that produced the link"
	}
	bo, ok := sz.(*ssa.BinOp)
	if !ok || bo.Op != token.ADD {
		return false, "size is not <accumulator> + <byte count of the store>"
	}
	var acc ssa.Value
	switch {
	case core.Unconv(bo.X) == count:
		acc = bo.Y
	case core.Unconv(bo.Y) == count:
		acc = bo.X
	default:
		return false, "size does not include the byte count of the store that produced the returned link"
	}
	return c.accumulatorOK(fn, acc, storeCall)
}

func extractByType(call *ssa.Call, kind types.BasicKind) ssa.Value {
	for _, ref := range *call.Referrers() {
		if ex, ok := ref.(*ssa.Extract); ok && isBasic(ex.Type(), kind) {
			return ex
		}
	}
	return nil
}

func (c *Ctx) storesEmptyBytes(store *ssa.Call) bool {
	for _, a := range store.Call.Args {
		if mi, ok := a.(*ssa.MakeInterface); ok {
			a = mi.X
		}
		if call, ok := a.(*ssa.Call); ok && call.Call.StaticCallee() != nil && call.Call.StaticCallee().Name() == "NewBytes" {
			if sl, ok := call.Call.Args[0].(*ssa.Slice); ok {
				if al, ok := sl.X.(*ssa.Alloc); ok {
					if at, ok := al.Type().Underlying().(*types.Pointer).Elem().Underlying().(*types.Array); ok && at.Len() == 0 {
						return true
					}
				}
			}
			if k, ok := call.Call.Args[0].(*ssa.Const); ok && k.Value == nil {
				return true
			}
		}
	}
	return false
}

// accumulatorOK: every addend of acc is a size that was written into a link of the block being stored.
func (c *Ctx) accumulatorOK(fn *ssa.Function, acc ssa.Value, store *ssa.Call) (bool, string) {
	acc = core.Unconv(acc)
	// (ii) sum helper over the children slice that the packer links
	if call, ok := acc.(*ssa.Call); ok {
		kind, field := c.sumHelper(call.Call.StaticCallee())
		if kind != "sum" {
			return false, "accumulator is the result of " + calleeShort(call) + ", not a recognised sum helper"
		}
		children := call.Call.Args[0]
		// the packer: a repository call taking the same slice whose result is the node handed to the store
		for _, ci := range core.CallsIn(fn) {
			pc, ok := ci.(*ssa.Call)
			if !ok || pc.Call.StaticCallee() == nil {
				continue
			}
			takes := false
			for _, a := range pc.Call.Args {
				if a == children || (strings.HasPrefix(c.varPath(a, 0), "var:") && c.varPath(a, 0) == c.varPath(children, 0)) {
					takes = true
				}
			}
			if !takes || pc == call {
				continue
			}
			if pc == store {
				// the store is a repository helper that packs the children it is given and stores the result
				for k, a := range pc.Call.Args {
					if a == children || (strings.HasPrefix(c.varPath(a, 0), "var:") && c.varPath(a, 0) == c.varPath(children, 0)) {
						if pk := c.packStoreHelper(pc.Call.StaticCallee(), k, 0); pk != nil {
							if c.packerUsesField(pk, field) {
								return true, fmt.Sprintf("size = Σ %s over the children that %s links (inside %s) with that very %s + byte count of the store", field.Name(), pk.Name(), pc.Call.StaticCallee().Name(), field.Name())
							}
							return false, pk.Name() + " does not write each child's " + field.Name() + " as its link size"
						}
					}
				}
				continue
			}
			node := extractOf(pc, 0)
			feeds := false
			for _, a := range store.Call.Args {
				if a == node {
					feeds = true
				}
			}
			if !feeds {
				continue
			}
			// inside the packer: link size = element.<field>
			if c.packerUsesField(pc.Call.StaticCallee(), field) {
				return true, fmt.Sprintf("size = Σ %s over the children that %s links with that very %s + byte count of the store", field.Name(), pc.Call.StaticCallee().Name(), field.Name())
			}
			return false, pc.Call.StaticCallee().Name() + " does not write each child's " + field.Name() + " as its link size"
		}
		return false, "no packer call links the same children slice into the stored node"
	}
	// (i) loop accumulator
	phi, ok := acc.(*ssa.Phi)
	if !ok {
		if k, ok := core.ConstInt(acc); ok && k == 0 {
			return true, "no links: size is the block's own byte count"
		}
		return false, "accumulator is neither a loop sum nor a sum helper"
	}
	// sizes written into links in this function: size args of entry-constructor calls, and Tsize of nodes assigned as links
	linkSizes := map[ssa.Value]bool{}
	assigned := map[ssa.Value]bool{}
	assignAt := map[ssa.Value][]*ssa.BasicBlock{} // base of an assigned existing link -> blocks of its AssignNode calls
	addAt := map[ssa.Value]*ssa.BasicBlock{}      // base of a Tsize addend -> block of the addition
	for _, ci := range core.CallsIn(fn) {
		if f := ci.Common().StaticCallee(); isEntryCtor(f) {
			linkSizes[core.Unconv(ci.Common().Args[1])] = true
		}
		cc := ci.Common()
		if cc.IsInvoke() && cc.Method.Name() == "AssignNode" && len(cc.Args) == 1 {
			// an existing link (caller-supplied entry) placed into the block as is; links built here are covered by linkSizes
			arg := cc.Args[0]
			if mi, ok := arg.(*ssa.MakeInterface); ok {
				arg = mi.X
			}
			if !strings.Contains(types.TypeString(arg.Type(), nil), "PBLink") || strings.Contains(types.TypeString(arg.Type(), nil), "PBLinks") {
				continue
			}
			built := false
			for _, oc := range originCalls(arg) {
				if isEntryCtor(oc.Call.StaticCallee()) {
					built = true
				}
			}
			// a link built by a repository helper that returns the link together with the size it wrote into it
			if ex, isEx := arg.(*ssa.Extract); isEx {
				if hc, isCall := ex.Tuple.(*ssa.Call); isCall {
					if li, si, ok := c.linkSizeHelper(hc.Call.StaticCallee()); ok && li == ex.Index {
						if sv := extractOf(hc, si); sv != nil {
							linkSizes[sv] = true
							built = true
						}
					}
				}
			}
			if !built {
				assigned[c.baseOf(arg, 0)] = true
				assignAt[c.baseOf(arg, 0)] = append(assignAt[c.baseOf(arg, 0)], ci.(ssa.Instruction).Block())
			}
		}
	}
	seen := map[ssa.Value]bool{}
	addends := map[ssa.Value]bool{}
	var bad string
	nadd := 0
	var walk func(v ssa.Value)
	walk = func(v ssa.Value) {
		if seen[v] || bad != "" {
			return
		}
		seen[v] = true
		switch x := v.(type) {
		case *ssa.Phi:
			for _, e := range x.Edges {
				walk(e)
			}
		case *ssa.Const:
			if k, ok := core.ConstInt(x); !ok || k != 0 {
				bad = "accumulator starts from a non-zero constant"
			}
		case *ssa.BinOp:
			if x.Op != token.ADD {
				bad = "accumulator is updated with " + x.Op.String()
				return
			}
			var addend ssa.Value
			if isAccPart(x.X, phi, seen) {
				addend = x.Y
				walk(x.X)
			} else if isAccPart(x.Y, phi, seen) {
				addend = x.X
				walk(x.Y)
			} else {
				bad = "accumulator update does not add to its previous value"
				return
			}
			nadd++
			a := core.Unconv(addend)
			addends[a] = true
			if linkSizes[a] {
				return
			}
			if b := c.baseOf(a, 0); assigned[b] && strings.Contains(c.accessPath(a, 0), "Tsize") {
				addAt[b] = x.Block()
				return
			}
			bad = fmt.Sprintf("addend at %s is not a size written into a link of this block", c.P.Pos(x.Pos()))
		default:
			bad = fmt.Sprintf("unexpected accumulator component %T", v)
		}
	}
	walk(phi)
	if bad != "" {
		return false, bad
	}
	// pairing per iteration: an existing link's Tsize is added in exactly the iterations in which that link is assigned into
	// the block (an entry that is skipped must not be counted, a counted entry must not be skipped)
	if hdr := phi.Block(); hdr != nil {
		body := map[*ssa.BasicBlock]bool{}
		for _, b := range fn.Blocks {
			if hdr.Dominates(b) && (b == hdr || blockReaches(b, hdr)) {
				body[b] = true
			}
		}
		cycleAvoiding := func(through, avoid *ssa.BasicBlock) bool {
			// is there a cycle hdr -> … -> through -> … -> hdr inside the body that never enters avoid?
			reach := func(from, to *ssa.BasicBlock) bool {
				seen := map[*ssa.BasicBlock]bool{}
				stack := append([]*ssa.BasicBlock{}, from.Succs...)
				if from == to {
					return true
				}
				for len(stack) > 0 {
					x := stack[len(stack)-1]
					stack = stack[:len(stack)-1]
					if x == avoid || seen[x] || !body[x] {
						continue
					}
					if x == to {
						return true
					}
					if x == hdr {
						continue
					}
					seen[x] = true
					stack = append(stack, x.Succs...)
				}
				return false
			}
			if through == avoid || !body[through] {
				return false
			}
			return reach(hdr, through) && reach(through, hdr)
		}
		for b, ab := range addAt {
			for _, nb := range assignAt[b] {
				if ab == nb {
					continue
				}
				if cycleAvoiding(ab, nb) {
					return false, "an entry's Tsize is added to the total in an iteration that does not place the entry into the block (a skipped entry is still counted)"
				}
				if cycleAvoiding(nb, ab) {
					return false, "an entry is placed into the block in an iteration that does not add its Tsize to the total"
				}
			}
		}
	}
	// completeness: every size written into a link of this block is among the addends
	for ls := range linkSizes {
		if !addends[ls] {
			return false, "a size written into a link of this block is never added to the returned total"
		}
	}
	for b := range assigned {
		found := false
		for a := range addends {
			if c.baseOf(a, 0) == b {
				found = true
			}
		}
		if !found {
			return false, "the Tsize of a link assigned into this block is never added to the returned total"
		}
	}
	return true, fmt.Sprintf("size = Σ of %d addend(s), each the size written into a link of the stored block, + byte count of the store", nadd)
}

func isAccPart(v ssa.Value, phi *ssa.Phi, seen map[ssa.Value]bool) bool {
	if v == ssa.Value(phi) {
		return true
	}
	if p, ok := v.(*ssa.Phi); ok {
		return p.Comment == phi.Comment
	}
	return false
}

// packerUsesField: in the packer, every entry-constructor call takes element.<field> (of the ranged slice parameter) as size.
func (c *Ctx) packerUsesField(packer *ssa.Function, field *types.Var) bool {
	n := 0
	for _, ci := range core.CallsIn(packer) {
		if f := ci.Common().StaticCallee(); isEntryCtor(f) {
			n++
			sz := core.Unconv(ci.Common().Args[1])
			okf := false
			switch x := sz.(type) {
			case *ssa.UnOp:
				if _, fv, ok := core.FieldAddrOf(x.X); ok && fv == field {
					okf = true
				}
			case *ssa.Field:
				if st, ok := x.X.Type().Underlying().(*types.Struct); ok && st.Field(x.Field) == field {
					okf = true
				}
			}
			if !okf {
				return false
			}
		}
	}
	return n > 0
}

// checkFileMeta implements R11.3 on functions that build interior file nodes.
func (c *Ctx) checkFileMeta() {
	r := c.R
	n := 0
	// the per-child content-size field: what the FileSize sum helper adds up
	byteFields := map[*types.Var]bool{}
	for _, fn := range c.G.Funcs() {
		if rel, ok := c.P.PkgOf(fn); !ok || rel != "data/builder" {
			continue
		}
		for _, ci := range core.CallsIn(fn) {
			if f := ci.Common().StaticCallee(); f != nil && f.Name() == "FileSize" && len(ci.Common().Args) == 2 {
				if h, ok := resolveLocal(ci.Common().Args[1]).(*ssa.Call); ok {
					if kind, fld := c.sumHelper(h.Call.StaticCallee()); kind == "sum" && fld != nil {
						byteFields[fld] = true
					}
				}
			}
		}
	}
	for _, fn := range c.G.Funcs() {
		rel, ok := c.P.PkgOf(fn)
		if !ok || rel != "data/builder" || fn.Parent() != nil {
			continue
		}
		// closures of fn that call FileSize / BlockSizes setters
		var fsArg, bsArg ssa.Value
		var fsHelper, bsHelper *ssa.Call
		for _, cl := range fn.AnonFuncs {
			for _, ci := range core.CallsIn(cl) {
				f := ci.Common().StaticCallee()
				if f == nil {
					continue
				}
				switch f.Name() {
				case "FileSize":
					if h, ok := resolveLocal(ci.Common().Args[1]).(*ssa.Call); ok {
						fsHelper, fsArg = h, h.Call.Args[0]
					}
				case "BlockSizes":
					if h, ok := resolveLocal(ci.Common().Args[1]).(*ssa.Call); ok {
						bsHelper, bsArg = h, h.Call.Args[0]
					}
				}
			}
		}
		if fsHelper == nil && bsHelper == nil {
			continue
		}
		n++
		key := core.FuncName(fn) + "/interior-file-node"
		pos := c.P.Pos(fn.Pos())
		var bad []string
		if fsHelper == nil || bsHelper == nil {
			bad = append(bad, "interior node declares only one of FileSize / BlockSizes")
		} else {
			k1, f1 := c.sumHelper(fsHelper.Call.StaticCallee())
			k2, f2 := c.sumHelper(bsHelper.Call.StaticCallee())
			if k1 != "sum" {
				bad = append(bad, "FileSize is not a sum helper over the children")
			}
			if k2 != "collect" {
				bad = append(bad, "BlockSizes is not a per-child collect helper")
			}
			if f1 != nil && f2 != nil && f1 != f2 {
				bad = append(bad, fmt.Sprintf("FileSize sums %s but BlockSizes lists %s", f1.Name(), f2.Name()))
			}
			// the captured slice must be the one handed to the packer and used for the returned byteSize
			cv1, cv2 := c.varPath(fsArg, 0), c.varPath(bsArg, 0)
			if cv1 != cv2 {
				bad = append(bad, "FileSize and BlockSizes are computed from different slices")
			}
			packed := false
			for _, ci := range core.CallsIn(fn) {
				pc, ok := ci.(*ssa.Call)
				if !ok || pc.Call.StaticCallee() == nil {
					continue
				}
				for k, a := range pc.Call.Args {
					if c.varPath(a, 0) != cv1 {
						continue
					}
					if c.packerUsesAnyField(pc.Call.StaticCallee()) || c.packStoreHelper(pc.Call.StaticCallee(), k, 0) != nil {
						packed = true
					}
				}
			}
			if !packed {
				bad = append(bad, "the slice whose sizes are declared is not the slice whose links are packed (BlockSizes[i] must describe Links[i])")
			}
			// returned meta: byteSize field = same sum helper over the same slice
			okRet := false
			for _, b := range fn.Blocks {
				for _, ins := range b.Instrs {
					st, ok := ins.(*ssa.Store)
					if !ok {
						continue
					}
					_, fv, ok := core.FieldAddrOf(st.Addr)
					if !ok || f1 == nil || fv != f1 {
						continue
					}
					if h, ok := resolveLocal(st.Val).(*ssa.Call); ok && h.Call.StaticCallee() == fsHelper.Call.StaticCallee() && c.varPath(h.Call.Args[0], 0) == cv1 {
						okRet = true
					}
				}
			}
			if !okRet && f1 != nil {
				bad = append(bad, "the node's own "+f1.Name()+" is not the same sum over the same children")
			}
		}
		r.Check(len(bad) == 0, "R11.3", key, pos, "FileSize = Σ byteSize, BlockSizes = [byteSize…] and own byteSize over the very slice whose links are packed", strings.Join(bad, "; "))
	}
	for _, fn := range c.G.Funcs() {
		rel, ok := c.P.PkgOf(fn)
		if !ok || rel != "data/builder" {
			continue
		}
		// leaf: byteSize = len(chunk) of the chunk stored
		for _, b := range fn.Blocks {
			for _, ins := range b.Instrs {
				st, ok := ins.(*ssa.Store)
				if !ok {
					continue
				}
				_, fv, ok := core.FieldAddrOf(st.Addr)
				if !ok || !byteFields[fv] {
					continue
				}
				chunk, isLen := lenOf(st.Val)
				if !isLen {
					continue
				}
				n++
				lkey := core.FuncName(fn) + "/leaf-byteSize"
				// the stored node wraps the same chunk: NewBytes(chunk) flows to a store call in this function
				good := false
				for _, ci := range core.CallsIn(fn) {
					call, ok := ci.(*ssa.Call)
					if !ok || call.Call.StaticCallee() == nil || call.Call.StaticCallee().Name() != "NewBytes" || call.Call.Args[0] != chunk {
						continue
					}
					var users []ssa.Instruction
					for _, ref := range *call.Referrers() {
						users = append(users, ref)
						if mi, ok := ref.(*ssa.MakeInterface); ok {
							users = append(users, *mi.Referrers()...)
						}
					}
					for _, u := range users {
						if sc, ok := u.(*ssa.Call); ok && sc.Call.StaticCallee() != nil {
							if len(core.StoreSites(sc.Call.StaticCallee())) > 0 || core.IsLinkSystemMethod(sc.Call.StaticCallee(), map[string]bool{"Store": true}) {
								good = true
							}
						}
					}
				}
				r.Check(good, "R11.3", lkey, c.P.Pos(st.Pos()), "leaf byteSize = len(chunk) of the chunk wrapped into the stored node", "leaf byteSize is len of a value other than the chunk that is stored")
			}
		}
	}
	r.Floor("R11.3", n, 2)
}

func (c *Ctx) packerUsesAnyField(f *ssa.Function) bool {
	for _, ci := range core.CallsIn(f) {
		if isEntryCtor(ci.Common().StaticCallee()) {
			return true
		}
	}
	return false
}

// checkCountingStore implements R11.4.
func (c *Ctx) checkCountingStore() {
	r := c.R
	n := 0
	counterFields := map[*types.Var]bool{}
	cbRoots := map[ssa.Value]bool{}
	for _, fn := range c.G.Funcs() {
		rel, ok := c.P.PkgOf(fn)
		if !ok || rel != "data/builder" {
			continue
		}
		// Write([]byte)(int, error) on a type with an integer counter and an io.Writer field
		if fn.Name() == "Write" && fn.Signature.Recv() != nil && len(fn.Params) == 2 && fn.Synthetic == "" {
			n++
			key := core.FuncName(fn) + "/counts-len"
			p := fn.Params[1]
			adds, forwards := false, false
			for _, fs := range recvFieldStores(fn) {
				if bo, ok := fs.st.Val.(*ssa.BinOp); ok && bo.Op == token.ADD {
					if lx, ok := lenOf(bo.Y); ok && lx == ssa.Value(p) {
						adds = true
						counterFields[fs.field] = true
					}
					if lx, ok := lenOf(bo.X); ok && lx == ssa.Value(p) {
						adds = true
						counterFields[fs.field] = true
					}
				}
			}
			for _, ret := range core.Returns(fn) {
				if ex, ok := ret.Results[0].(*ssa.Extract); ok {
					if call, ok := ex.Tuple.(*ssa.Call); ok && call.Call.IsInvoke() && call.Call.Method.Name() == "Write" && len(call.Call.Args) == 1 && call.Call.Args[0] == ssa.Value(p) {
						forwards = true
					}
				}
			}
			// the add must be unconditional
			r.Check(adds && forwards && len(fn.Blocks) == 1, "R11.4", key, c.P.Pos(fn.Pos()), "adds len(p) unconditionally and forwards the same p to the wrapped writer", "byte counter does not add len(p) on every Write / does not forward p")
		}
	}
	// encoder wrapper: callback only when the encoder returned nil; sizedStore returns the captured count of its own Store
	for _, fn := range c.G.Funcs() {
		rel, ok := c.P.PkgOf(fn)
		if !ok || rel != "data/builder" || fn.Synthetic != "" {
			continue
		}
		// closure (or method used as a method value) of shape func(node, writer) error calling encoder(node, &bc) then byteCountCb(bc.bc)
		if fn.Signature.Params().Len() != 2 || fn.Signature.Results().Len() != 1 || !core.IsErrorType(fn.Signature.Results().At(0).Type()) {
			continue
		}
		var encCall, cbCall *ssa.Call
		for _, ci := range core.CallsIn(fn) {
			call, ok := ci.(*ssa.Call)
			if !ok || call.Call.IsInvoke() || call.Call.StaticCallee() != nil {
				continue
			}
			if _, isB := call.Call.Value.(*ssa.Builtin); isB {
				continue
			}
			if core.IsErrorType(call.Type()) {
				encCall = call
			} else if call.Call.Signature().Results().Len() == 0 && len(call.Call.Args) == 1 {
				cbCall = call
			}
		}
		if encCall == nil || cbCall == nil {
			continue
		}
		n++
		key := core.FuncName(fn) + "/count-after-success"
		good := core.GuardedBy(cbCall.Block(), func(cond ssa.Value) (bool, bool) {
			x, trueMeansNil, ok := core.NilCmp(cond)
			if !ok || x != ssa.Value(encCall) {
				return false, false
			}
			return trueMeansNil, true
		})
		r.Check(good, "R11.4", key, c.P.Pos(cbCall.Pos()), "the byte count is reported only after the encoder returned nil", "the byte count callback is not guarded by the encoder's success")
		if root := cellRoot(cbCall.Call.Value); root != nil {
			cbRoots[root] = true
		}
	}
	// every call through the count callback, wherever it sits, reports the counting writer's own count
	nCb := 0
	for _, fn := range c.G.Funcs() {
		rel, ok := c.P.PkgOf(fn)
		if !ok || rel != "data/builder" || fn.Synthetic != "" {
			continue
		}
		k := 0
		for _, ci := range core.CallsIn(fn) {
			call, ok := ci.(*ssa.Call)
			if !ok || call.Call.IsInvoke() || call.Call.StaticCallee() != nil || len(call.Call.Args) != 1 {
				continue
			}
			root := cellRoot(call.Call.Value)
			if root == nil || !cbRoots[root] {
				continue
			}
			k++
			nCb++
			key := fmt.Sprintf("%s/count-is-counter#%d", core.FuncName(fn), k)
			isCounterLoad := func(v ssa.Value) bool {
				if u, ok := v.(*ssa.UnOp); ok && u.Op == token.MUL {
					if fa, ok := u.X.(*ssa.FieldAddr); ok {
						if pt, ok := fa.X.Type().Underlying().(*types.Pointer); ok {
							if st, ok := pt.Elem().Underlying().(*types.Struct); ok && counterFields[st.Field(fa.Field)] {
								return true
							}
						}
					}
				}
				return false
			}
			good := isCounterLoad(call.Call.Args[0])
			// … or the result of an accessor of the counting writer whose every return is that field
			if ac, ok := call.Call.Args[0].(*ssa.Call); ok && !good {
				if f := ac.Call.StaticCallee(); f != nil && f.Signature.Recv() != nil && len(f.Blocks) > 0 {
					if _, isRepo := c.P.PkgOf(f); isRepo {
						rets := core.Returns(f)
						good = len(rets) > 0
						for _, ret := range rets {
							if len(ret.Results) != 1 || !isCounterLoad(ret.Results[0]) {
								good = false
							}
						}
					}
				}
			}
			r.Check(good, "R11.4", key, c.P.Pos(call.Pos()), "the reported count is the counting writer's counter field", "the count callback is called with a value that is not the counting writer's counter (the stored block's byte count is misreported)")
		}
	}
	r.Floor("R11.4", n+nCb, 3)
}

// cellRoot maps the callee value of a call through a captured function variable (a load of a cell or of a free variable,
// through any depth of closure nesting) to the cell allocated in the outermost function.
func cellRoot(v ssa.Value) ssa.Value {
	u, ok := v.(*ssa.UnOp)
	if !ok || u.Op != token.MUL {
		return nil
	}
	p := u.X
	for i := 0; i < 6; i++ {
		switch a := p.(type) {
		case *ssa.Alloc:
			return a
		case *ssa.FreeVar:
			cl := a.Parent()
			idx := -1
			for k, fv := range cl.FreeVars {
				if fv == a {
					idx = k
				}
			}
			par := cl.Parent()
			if par == nil || idx < 0 {
				return nil
			}
			var next ssa.Value
			for _, b := range par.Blocks {
				for _, ins := range b.Instrs {
					if mc, ok := ins.(*ssa.MakeClosure); ok && mc.Fn == ssa.Value(cl) && idx < len(mc.Bindings) {
						next = mc.Bindings[idx]
					}
				}
			}
			if next == nil {
				return nil
			}
			p = next
		default:
			return nil
		}
	}
	return nil
}

// resolveLocal follows a value through a captured or local single-assignment cell: a closure's free variable is traced to
// the cell bound in the parent and to the one value stored there; a load of a local cell to its stored value.
func resolveLocal(v ssa.Value) ssa.Value {
	for i := 0; i < 4; i++ {
		u, ok := v.(*ssa.UnOp)
		if !ok || u.Op != token.MUL {
			return v
		}
		var cell *ssa.Alloc
		switch a := u.X.(type) {
		case *ssa.Alloc:
			cell = a
		case *ssa.FreeVar:
			cl := a.Parent()
			idx := -1
			for k, fv := range cl.FreeVars {
				if fv == a {
					idx = k
				}
			}
			if par := cl.Parent(); par != nil && idx >= 0 {
				for _, b := range par.Blocks {
					for _, ins := range b.Instrs {
						if mc, ok := ins.(*ssa.MakeClosure); ok && mc.Fn == ssa.Value(cl) && idx < len(mc.Bindings) {
							cell, _ = mc.Bindings[idx].(*ssa.Alloc)
						}
					}
				}
			}
		}
		if cell == nil {
			return v
		}
		var stored ssa.Value
		n := 0
		for _, ref := range *cell.Referrers() {
			if st, ok := ref.(*ssa.Store); ok && st.Addr == ssa.Value(cell) {
				stored = st.Val
				n++
			}
		}
		if n != 1 {
			return v
		}
		v = stored
	}
	return v
}

// packStoreHelper: repository function S hands its k-th parameter to a packer (a function that builds one link per element
// with an entry constructor) and stores the packed node; returns the packer.
func (c *Ctx) packStoreHelper(S *ssa.Function, k int, depth int) *ssa.Function {
	if S == nil || len(S.Blocks) == 0 || k >= len(S.Params) || depth > 2 {
		return nil
	}
	if _, isRepo := c.P.PkgOf(S); !isRepo {
		return nil
	}
	storers := c.G.ReachersOf(c.G.Storers(core.BuilderPkgs))
	for _, ci := range core.CallsIn(S) {
		pc, ok := ci.(*ssa.Call)
		if !ok || pc.Call.StaticCallee() == nil {
			continue
		}
		for j, a := range pc.Call.Args {
			if a != ssa.Value(S.Params[k]) {
				continue
			}
			if c.packerUsesAnyField(pc.Call.StaticCallee()) {
				node := extractOf(pc, 0)
				if node == nil {
					node = pc
				}
				for _, ci2 := range core.CallsIn(S) {
					st, ok := ci2.(*ssa.Call)
					if !ok || st == pc || st.Call.StaticCallee() == nil || !storers[st.Call.StaticCallee()] {
						continue
					}
					for _, sa := range st.Call.Args {
						if sa == node {
							return pc.Call.StaticCallee()
						}
					}
				}
			}
			if pk := c.packStoreHelper(pc.Call.StaticCallee(), j, depth+1); pk != nil {
				return pk
			}
		}
	}
	return nil
}

// linkSizeHelper: h returns a dag-pb link (result li) and an integer (result si) such that on every return that may carry a
// nil error the link was built by an entry constructor whose size argument is that very integer.
func (c *Ctx) linkSizeHelper(h *ssa.Function) (li, si int, ok bool) {
	if h == nil || len(h.Blocks) == 0 {
		return 0, 0, false
	}
	if rel, isRepo := c.P.PkgOf(h); !isRepo || !core.BuilderPkgs[rel] {
		return 0, 0, false
	}
	res := h.Signature.Results()
	li, si = -1, -1
	for i := 0; i < res.Len(); i++ {
		ts := types.TypeString(res.At(i).Type(), nil)
		if li < 0 && strings.Contains(ts, "PBLink") && !strings.Contains(ts, "PBLinks") {
			li = i
		} else if si < 0 && isIntegerType(res.At(i).Type()) {
			si = i
		}
	}
	errIdx := core.ErrResultIndex(h.Signature)
	if li < 0 || si < 0 {
		return 0, 0, false
	}
	n := 0
	for _, ret := range core.Returns(h) {
		rr := core.ResolvedResults(ret)
		if errIdx >= 0 && (core.ErrKnownNonNil(rr[errIdx], nil) || core.GuardedBy(ret.Block(), func(cond ssa.Value) (bool, bool) {
			x, trueMeansNil, isNil := core.NilCmp(cond)
			if !isNil || x != rr[errIdx] {
				return false, false
			}
			return !trueMeansNil, true
		})) {
			continue
		}
		if core.IsNilConst(rr[li]) {
			continue
		}
		ex, isEx := rr[li].(*ssa.Extract)
		if !isEx {
			return 0, 0, false
		}
		ctor, isCall := ex.Tuple.(*ssa.Call)
		if !isCall || !isEntryCtor(ctor.Call.StaticCallee()) {
			return 0, 0, false
		}
		if core.Unconv(ctor.Call.Args[1]) != core.Unconv(rr[si]) {
			return 0, 0, false
		}
		n++
	}
	return li, si, n > 0
}
