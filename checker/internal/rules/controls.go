package rules

import (
	"embed"
	"io/fs"
)

//go:embed controls/*.go.txt
var controlFS embed.FS

// ControlSources returns the overlay files of the positive-control package.
func ControlSources() (map[string][]byte, error) {
	out := map[string][]byte{}
	ents, err := fs.ReadDir(controlFS, "controls")
	if err != nil {
		return nil, err
	}
	for _, e := range ents {
		b, err := controlFS.ReadFile("controls/" + e.Name())
		if err != nil {
			return nil, err
		}
		name := e.Name()
		name = name[:len(name)-len(".txt")]
		out[name] = b
	}
	return out, nil
}
