package rules

import (
	"fmt"
	"go/ast"
	"go/constant"
	"go/token"
	"go/types"
	"reflect"
	"sort"
	"strconv"
	"strings"

	"golang.org/x/tools/go/ssa"

	"verifchk/internal/core"
)

func init() { Registry["C09"] = c09 }

const pwPath = "google.golang.org/protobuf/encoding/protowire"
const qpPath = "github.com/ipld/go-ipld-prime/fluent/qp"
const pbPath = "github.com/ipfs/boxo/ipld/unixfs/pb"

// wire type numbers of protowire
const (
	wtVarint  = 0
	wtFixed64 = 1
	wtBytes   = 2
	wtFixed32 = 5
)

var wtName = map[int64]string{0: "varint", 1: "fixed64", 2: "bytes", 5: "fixed32", 3: "sgroup", 4: "egroup"}
var kindWT = map[string]int64{"varint": wtVarint, "fixed64": wtFixed64, "bytes": wtBytes, "fixed32": wtFixed32, "zigzag32": wtVarint, "zigzag64": wtVarint}

// refField is one field of the reference protobuf descriptor.
type refField struct {
	Num   int64
	WT    int64
	Label string // req | opt | rep
	Name  string
}

// msgMap ties the ipld schema type of this repository to the message of boxo's unixfs.proto.
// (Names differ: the spec's UnixTime is called IPFSTimestamp in the .proto.) One line per message; anything else is undecided.
var msgMap = map[string]string{"UnixFSData": "Data", "UnixTime": "IPFSTimestamp", "UnixFSMetadata": "Metadata"}

func (c *Ctx) refSchema() map[string]map[int64]refField {
	pk := c.P.All[pbPath]
	if pk == nil || pk.Types == nil {
		c.R.Break("reference descriptor package %s not loadable", pbPath)
		return nil
	}
	out := map[string]map[int64]refField{}
	for _, msg := range msgMap {
		obj := pk.Types.Scope().Lookup(msg)
		if obj == nil {
			c.R.Break("reference message %s not found in %s", msg, pbPath)
			continue
		}
		st, ok := obj.Type().Underlying().(*types.Struct)
		if !ok {
			c.R.Break("reference message %s is not a struct", msg)
			continue
		}
		fields := map[int64]refField{}
		for i := 0; i < st.NumFields(); i++ {
			tag := reflect.StructTag(st.Tag(i)).Get("protobuf")
			if tag == "" {
				continue
			}
			parts := strings.Split(tag, ",")
			if len(parts) < 3 {
				continue
			}
			num, err := strconv.ParseInt(parts[1], 10, 64)
			if err != nil {
				continue
			}
			wt, ok := kindWT[parts[0]]
			if !ok {
				c.R.Break("reference field %s.%s has unknown wire kind %q", msg, st.Field(i).Name(), parts[0])
				continue
			}
			rf := refField{Num: num, WT: wt, Label: parts[2]}
			for _, p := range parts[3:] {
				if strings.HasPrefix(p, "name=") {
					rf.Name = strings.TrimPrefix(p, "name=")
				}
			}
			fields[num] = rf
		}
		out[msg] = fields
	}
	return out
}

func isPW(c ssa.CallInstruction, name string) bool { return core.IsCallTo(c, pwPath, name) }

func pwName(c ssa.CallInstruction) string {
	f := c.Common().StaticCallee()
	if f == nil || f.Pkg == nil || f.Pkg.Pkg.Path() != pwPath {
		return ""
	}
	return f.Name()
}

var appendWT = map[string]int64{"AppendVarint": wtVarint, "AppendBytes": wtBytes, "AppendString": wtBytes, "AppendFixed32": wtFixed32, "AppendFixed64": wtFixed64}
var consumeWT = map[string]int64{"ConsumeVarint": wtVarint, "ConsumeBytes": wtBytes, "ConsumeString": wtBytes, "ConsumeFixed32": wtFixed32, "ConsumeFixed64": wtFixed64}

// traceAccessor walks up from v to the first call of a method named Field<X> on a type of package data and returns X.
func (c *Ctx) traceAccessor(v ssa.Value) string {
	seen := map[ssa.Value]bool{}
	var rec func(v ssa.Value, d int) string
	rec = func(v ssa.Value, d int) string {
		if v == nil || seen[v] || d > 12 {
			return ""
		}
		seen[v] = true
		switch x := v.(type) {
		case *ssa.Parameter:
			if b, ok := c.accBind[x]; ok {
				return rec(b, d+1)
			}
		case *ssa.Call:
			if f := x.Call.StaticCallee(); f != nil && strings.HasPrefix(f.Name(), "Field") && f.Signature.Recv() != nil {
				if rel, ok := c.P.PkgOf(f); ok && rel == "data" {
					return strings.TrimPrefix(f.Name(), "Field")
				}
			}
			if len(x.Call.Args) > 0 {
				for _, a := range x.Call.Args {
					if s := rec(a, d+1); s != "" {
						return s
					}
				}
			}
			if x.Call.IsInvoke() {
				return rec(x.Call.Value, d+1)
			}
		case *ssa.Extract:
			return rec(x.Tuple, d+1)
		case *ssa.Convert:
			return rec(x.X, d+1)
		case *ssa.ChangeType:
			return rec(x.X, d+1)
		case *ssa.MakeInterface:
			return rec(x.X, d+1)
		case *ssa.UnOp:
			return rec(x.X, d+1)
		case *ssa.Phi:
			for _, e := range x.Edges {
				if s := rec(e, d+1); s != "" {
					return s
				}
			}
		}
		return ""
	}
	return rec(v, 0)
}

type encEntry struct {
	fn    *ssa.Function
	msg   string
	call  *ssa.Call
	num   int64
	wt    int64
	field string
	app   string // Append* function that consumes the tag
}

// encoderEntries collects E.
func (c *Ctx) encoderEntries() []encEntry {
	var out []encEntry
	for _, fn := range c.P.RepoFuncs {
		rel, ok := c.P.PkgOf(fn)
		if !ok || rel != "data" || !c.P.HandWritten(fn) {
			continue
		}
		msg := ""
		if fn.Signature.Params().Len() >= 2 {
			if n, ok := types.Unalias(fn.Signature.Params().At(1).Type()).(*types.Pointer); ok {
				if nn, ok := types.Unalias(n.Elem()).(*types.Named); ok {
					msg = strings.TrimPrefix(nn.Obj().Name(), "_")
				}
			}
		}
		for _, ci := range core.CallsIn(fn) {
			call, ok := ci.(*ssa.Call)
			if !ok || !isPW(call, "AppendTag") {
				continue
			}
			e := encEntry{fn: fn, msg: msg, call: call, num: -1, wt: -1}
			if _, isParam := call.Call.Args[1].(*ssa.Parameter); isParam {
				// a tag-emitting helper (field number is its parameter): one entry per call site of the helper instead
				out = append(out, c.helperEncEntries(fn, call)...)
				continue
			}
			if n, ok := core.ConstInt(call.Call.Args[1]); ok {
				e.num = n
			}
			if t, ok := core.ConstInt(call.Call.Args[2]); ok {
				e.wt = t
			}
			// consumer chain of the tag result
			cur := ssa.Value(call)
			for step := 0; step < 3 && cur != nil; step++ {
				var next ssa.Value
				for _, ref := range *cur.Referrers() {
					rc, ok := ref.(*ssa.Call)
					if !ok || len(rc.Call.Args) == 0 || rc.Call.Args[0] != cur {
						continue
					}
					if nm := pwName(rc); nm != "" {
						if e.app == "" {
							e.app = nm
						} else if e.app == "AppendVarint" {
							e.app = "AppendVarint+" + nm
						}
					} else if callee := rc.Call.StaticCallee(); callee != nil {
						if e.app == "AppendVarint" {
							e.app = "length-prefixed " + callee.Name()
						} else {
							e.app = callee.Name()
						}
					}
					for _, a := range rc.Call.Args[1:] {
						if e.field == "" {
							e.field = c.traceAccessor(a)
						}
					}
					next = rc
					break
				}
				if e.field != "" && !(e.app == "AppendVarint" && e.wt == wtBytes) {
					break
				}
				cur = next
			}
			out = append(out, e)
		}
	}
	return out
}

// helperEncEntries: h contains AppendTag(enc, <param num>, T) followed by Append*(…, f(<param value>)); every call of h
// from a hand-written function of package data becomes an encoder entry located at that call.
func (c *Ctx) helperEncEntries(h *ssa.Function, tag *ssa.Call) []encEntry {
	numP, _ := tag.Call.Args[1].(*ssa.Parameter)
	numIdx := -1
	for i, p := range h.Params {
		if p == numP {
			numIdx = i
		}
	}
	wt := int64(-1)
	if t, ok := core.ConstInt(tag.Call.Args[2]); ok {
		wt = t
	}
	app := ""
	var valParam *ssa.Parameter
	for _, ref := range *tag.Referrers() {
		rc, ok := ref.(*ssa.Call)
		if !ok || len(rc.Call.Args) < 2 || rc.Call.Args[0] != ssa.Value(tag) {
			continue
		}
		app = pwName(rc)
		valParam = rootParam(rc.Call.Args[1])
	}
	valIdx := -1
	for i, p := range h.Params {
		if p == valParam {
			valIdx = i
		}
	}
	var out []encEntry
	for _, e := range c.G.In[h] {
		call, ok := e.Site.(*ssa.Call)
		if !ok || call.Call.StaticCallee() != h {
			continue
		}
		caller := e.Caller
		if rel, ok := c.P.PkgOf(caller); !ok || rel != "data" {
			continue
		}
		msg := ""
		if caller.Signature.Params().Len() >= 2 {
			if n, ok := types.Unalias(caller.Signature.Params().At(1).Type()).(*types.Pointer); ok {
				if nn, ok := types.Unalias(n.Elem()).(*types.Named); ok {
					msg = strings.TrimPrefix(nn.Obj().Name(), "_")
				}
			}
		}
		ent := encEntry{fn: caller, msg: msg, call: call, num: -1, wt: wt, app: app}
		if numIdx >= 0 {
			if n, ok := core.ConstInt(call.Call.Args[numIdx]); ok {
				ent.num = n
			}
		}
		if valIdx >= 0 {
			ent.field = c.traceAccessor(call.Call.Args[valIdx])
		}
		out = append(out, ent)
	}
	return out
}

type decCase struct {
	num      int64
	entry    *ssa.BasicBlock
	accepted map[int64]string // wire type -> consume function
	fields   map[string]bool
	region   map[*ssa.BasicBlock]bool
}

type decoder struct {
	fn       *ssa.Function
	msg      string
	tag      *ssa.Call
	fieldNum ssa.Value
	wireType ssa.Value
	cases    []*decCase
	deflt    *ssa.BasicBlock
	header   *ssa.BasicBlock
}

func extractOf(call *ssa.Call, idx int) ssa.Value {
	for _, ref := range *call.Referrers() {
		if ex, ok := ref.(*ssa.Extract); ok && ex.Index == idx {
			return ex
		}
	}
	return nil
}

func dominatedRegion(entry *ssa.BasicBlock) map[*ssa.BasicBlock]bool {
	out := map[*ssa.BasicBlock]bool{}
	for _, b := range entry.Parent().Blocks {
		if entry.Dominates(b) {
			out[b] = true
		}
	}
	return out
}

// decoderMessage finds X such that the decoder runs inside a closure handed to qp.BuildMap(Type.X, …) / or is nested under such a closure.
func (c *Ctx) decoderMessages(fn *ssa.Function) []string {
	set := map[string]bool{}
	for _, e := range c.G.In[fn] {
		cl := e.Caller
		if cl.Parent() == nil {
			continue
		}
		// the MakeClosure in the parent and its consumer
		for _, b := range cl.Parent().Blocks {
			for _, ins := range b.Instrs {
				mc, ok := ins.(*ssa.MakeClosure)
				if !ok || mc.Fn != ssa.Value(cl) {
					continue
				}
				for _, ref := range *mc.Referrers() {
					call, ok := ref.(*ssa.Call)
					if !ok {
						continue
					}
					if core.IsCallTo(call, qpPath, "BuildMap") {
						if name := typeSlabField(call.Call.Args[0]); name != "" {
							set[name] = true
							continue
						}
						// generic helper: BuildMap(np, …, func(ma){ consume(src, ma) }) with np and consume parameters of
						// the helper — the message is the np argument of the helper calls that pass this decoder as consume
						par := cl.Parent()
						np, isParam := call.Call.Args[0].(*ssa.Parameter)
						if !isParam || np.Parent() != par {
							continue
						}
						npIdx := -1
						for i, q := range par.Params {
							if q == np {
								npIdx = i
							}
						}
						for _, pe := range c.G.In[par] {
							hc, ok := pe.Site.(*ssa.Call)
							if !ok || hc.Call.StaticCallee() != par || npIdx < 0 || npIdx >= len(hc.Call.Args) {
								continue
							}
							passes := false
							for _, a := range hc.Call.Args {
								if af, isFn := a.(*ssa.Function); isFn && af == fn {
									passes = true
								}
							}
							if passes {
								if name := typeSlabField(hc.Call.Args[npIdx]); name != "" {
									set[name] = true
								}
							}
						}
					}
				}
			}
		}
	}
	var out []string
	for k := range set {
		out = append(out, k)
	}
	sort.Strings(out)
	return out
}

// typeSlabField decodes `Type.X` (load of a field of the package-level type slab, possibly wrapped in MakeInterface).
func typeSlabField(v ssa.Value) string {
	for i := 0; i < 6; i++ {
		switch x := v.(type) {
		case *ssa.MakeInterface:
			v = x.X
		case *ssa.UnOp:
			v = x.X
		case *ssa.FieldAddr:
			if _, ok := x.X.(*ssa.Global); ok {
				st := x.X.Type().Underlying().(*types.Pointer).Elem().Underlying().(*types.Struct)
				return st.Field(x.Field).Name()
			}
			return ""
		default:
			return ""
		}
	}
	return ""
}

func (c *Ctx) findDecoders() []*decoder {
	var out []*decoder
	for _, fn := range c.P.RepoFuncs {
		rel, ok := c.P.PkgOf(fn)
		if !ok || rel != "data" || !c.P.HandWritten(fn) {
			continue
		}
		var tag *ssa.Call
		for _, ci := range core.CallsIn(fn) {
			if call, ok := ci.(*ssa.Call); ok && isPW(call, "ConsumeTag") {
				tag = call
			}
		}
		if tag != nil && c.consumeForwarder(fn) != nil {
			continue // the tag-reading method of a cursor type, not a decoder loop
		}
		if tag == nil {
			// the tag comes from a cursor's forwarder: (num, type, err) := r.tag()
			for _, ci := range core.CallsIn(fn) {
				if call, ok := ci.(*ssa.Call); ok {
					if fw := c.forwarderOfCall(call); fw != nil && fw.pw == "ConsumeTag" {
						tag = call
					}
				}
			}
		}
		if tag == nil {
			continue
		}
		d := &decoder{fn: fn, tag: tag, fieldNum: extractOf(tag, 0), wireType: extractOf(tag, 1)}
		msgs := c.decoderMessages(fn)
		if len(msgs) == 1 {
			d.msg = msgs[0]
		}
		// loop header: nearest dominator of the tag block that is on a cycle with it and holds phis
		d.header = core.LoopHeader(tag.Block())
		testBlocks := map[*ssa.BasicBlock]bool{}
		type test struct {
			b *ssa.BasicBlock
			n int64
		}
		var tests []test
		for _, b := range fn.Blocks {
			iff := core.BlockIf(b)
			if iff == nil {
				continue
			}
			bo, ok := iff.Cond.(*ssa.BinOp)
			if !ok || bo.Op != token.EQL || core.Unconv(bo.X) != d.fieldNum {
				continue
			}
			n, ok := core.ConstInt(bo.Y)
			if !ok {
				continue
			}
			testBlocks[b] = true
			tests = append(tests, test{b, n})
		}
		for _, t := range tests {
			dc := &decCase{num: t.n, entry: t.b.Succs[0], accepted: map[int64]string{}, fields: map[string]bool{}}
			dc.region = dominatedRegion(dc.entry)
			d.cases = append(d.cases, dc)
			if !testBlocks[t.b.Succs[1]] {
				d.deflt = t.b.Succs[1]
			}
		}
		sort.Slice(d.cases, func(i, j int) bool { return d.cases[i].num < d.cases[j].num })
		for _, dc := range d.cases {
			c.analyseCase(d, dc)
		}
		out = append(out, d)
	}
	sort.Slice(out, func(i, j int) bool { return out[i].fn.Name() < out[j].fn.Name() })
	return out
}

// analyseCase determines accepted wire types and the logical field(s) assembled by a case.
func (c *Ctx) analyseCase(d *decoder, dc *decCase) {
	for _, w := range []int64{0, 1, 2, 5, 3, 4} {
		seen := map[*ssa.BasicBlock]bool{}
		var walk func(b *ssa.BasicBlock)
		walk = func(b *ssa.BasicBlock) {
			if seen[b] || !dc.region[b] {
				return
			}
			seen[b] = true
			for _, ins := range b.Instrs {
				if call, ok := ins.(*ssa.Call); ok {
					if nm := pwName(call); strings.HasPrefix(nm, "Consume") && nm != "ConsumeTag" {
						dc.accepted[w] = nm
						return
					}
					if fw := c.forwarderOfCall(call); fw != nil && fw.pw != "ConsumeTag" {
						dc.accepted[w] = fw.pw
						return
					}
					// a repository helper that is handed the wire type: does it consume under w?
					if nm, fields := c.helperConsumes(d, call, w); nm != "" {
						dc.accepted[w] = nm
						for _, f := range fields {
							dc.fields[f] = true
						}
						return
					}
				}
			}
			if iff := core.BlockIf(b); iff != nil {
				if bo, ok := iff.Cond.(*ssa.BinOp); ok && core.Unconv(bo.X) == d.wireType && (bo.Op == token.EQL || bo.Op == token.NEQ) {
					if k, ok := core.ConstInt(bo.Y); ok {
						truth := (k == w) == (bo.Op == token.EQL)
						if truth {
							walk(b.Succs[0])
						} else {
							walk(b.Succs[1])
						}
						return
					}
				}
			}
			for _, s := range b.Succs {
				walk(s)
			}
		}
		walk(dc.entry)
	}
	for b := range dc.region {
		for _, ins := range b.Instrs {
			if call, ok := ins.(*ssa.Call); ok && core.IsCallTo(call, qpPath, "MapEntry") {
				if k, ok := call.Call.Args[1].(*ssa.Const); ok && k.Value != nil && k.Value.Kind() == constant.String {
					dc.fields[constant.StringVal(k.Value)] = true
				}
			} else if ok {
				// a helper of package data that assembles one entry (the case's assembly step moved out of the loop)
				if h := call.Call.StaticCallee(); h != nil && len(h.Blocks) > 0 {
					for _, hc := range core.CallsIn(h) {
						if !core.IsCallTo(hc, qpPath, "MapEntry") {
							continue
						}
						if k, ok := hc.Common().Args[1].(*ssa.Const); ok && k.Value != nil && k.Value.Kind() == constant.String {
							if key := constant.StringVal(k.Value); c.assemblesKeyOnce(h, key) {
								dc.fields[key] = true
							}
						}
					}
				}
			}
		}
	}
}

func keysOf(m map[string]bool) string {
	var s []string
	for k := range m {
		s = append(s, k)
	}
	sort.Strings(s)
	return strings.Join(s, ",")
}

func wtSet(m map[int64]string) string {
	var ks []int
	for k := range m {
		ks = append(ks, int(k))
	}
	sort.Ints(ks)
	var s []string
	for _, k := range ks {
		s = append(s, wtName[int64(k)])
	}
	return "{" + strings.Join(s, ",") + "}"
}

func c09(c *Ctx) {
	r := c.R
	r.Explain = "C09 (codec vs protobuf schema): decides agreement of three tables on every run — R: (number, wire kind, label) read from the struct tags of boxo's generated unixfs_pb messages via go/types; E: every protowire.AppendTag site of the hand-written encoders with the accessor feeding it; D: every case of the hand-written decoder loops with the wire types it accepts and the schema key it assembles — plus unknown-field skipping, consume/advance discipline of every protowire.Consume* call, presentation multiplicity of the repeated field by finite-state exploration of the decoder's CFG over conformant presentations (unpacked run / one packed run), canonical field order and nested-message length framing of the encoder, and the permission-bit table. Not decided: value-level equality with gogo-protobuf on all messages (boundary integers, non-minimal varints are protowire's behaviour)."
	r.Rule("R9.1", "three-table agreement: E ⊆ R on (number, wire type), Append* kind = wire type, required fields appended unconditionally; for every R entry D has a case accepting exactly R's wire type (plus bytes/packed for a repeated scalar) with the matching Consume* kind; E and D name the same schema field per number and that name contains the .proto name")
	r.Rule("R9.8", "presence exactness: the emission of an optional field is governed only by that field's Exists() (for Mode additionally by the comparison with the type's default): no further comparison on the field's value or on another field stands between presence and emission — a present value that the encoder drops does not survive a round trip")
	r.Rule("R9.9", "the element count of a packed varint run is the number of payload bytes with the continuation bit clear: the counting loop over the bytes of the length-delimited payload tests each byte with < 0x80 (or an equivalent form)")
	r.Rule("R9.2", "each decoder loop has a default path that calls protowire.ConsumeFieldValue(fieldNum, wireType, rest) and errors only when it returns a negative length")
	r.Rule("R9.3", "the length n returned by each protowire.Consume* call flows only to a sign test, protowire.ParseError and one slice rest[n:] of the very buffer that was consumed, guarded by n>=0, and no path from the call back to the loop header skips that slice")
	r.Rule("R9.4", "finite-state exploration of the decoder CFG over conformant presentations of the repeated field (k>=0 unpacked occurrences or one packed run, any other fields interleaved): every nil-error return assembles the repeated field's key exactly once and no state-dependent rejection is reachable")
	r.Rule("R9.5", "on every path of an encoder field numbers are emitted in non-decreasing order (strictly increasing except a repeated field's loop); the length prefix of a nested message is the sum of Size* terms that pair one-to-one with the Append* calls of the nested encoder under the same presence conditions")
	r.Rule("R9.6", "Permissions() masks the stored mode with 0xFFF and falls back to DefaultPermissions; the builder's mode setters mask with 0xFFF; DefaultPermissions maps File→0644, Directory/HAMTShard→0755; the encoder elides the mode exactly when it equals DefaultPermissions")
	r.Rule("R9.7", "no local of a codec function is declared without initialiser, never assigned, and read in a guard or operator (its zero value would make the guard constant)")
	r.Assumes = append(r.Assumes, "protowire.Consume* return n<0 or 0<n<=len(input); qp.MapEntry rejects a repeated key (so assembling a key twice is a decode error)", "successful calls return non-nil assemblers (conformant-input scenario)")

	ref := c.refSchema()
	if ref == nil {
		return
	}
	nref := 0
	for _, m := range ref {
		nref += len(m)
	}
	r.Floor("R9.1/R", nref, 11)

	// ---- E
	encs := c.encoderEntries()
	r.Floor("R9.1/E", len(encs), 11)
	eField := map[string]map[int64]string{}
	for _, e := range encs {
		key := fmt.Sprintf("data.%s/AppendTag#%d", e.fn.Name(), e.num)
		pos := c.P.Pos(e.call.Pos())
		pbm, ok := msgMap[e.msg]
		if !ok {
			r.Undecided("R9.1", key, pos, "encoder parameter type "+e.msg+" is not tied to a reference message")
			continue
		}
		rf, ok := ref[pbm][e.num]
		if !ok {
			r.Violate("R9.1", key, pos, fmt.Sprintf("encoder emits field number %d which message %s does not define", e.num, pbm))
			continue
		}
		if eField[e.msg] == nil {
			eField[e.msg] = map[int64]string{}
		}
		eField[e.msg][e.num] = e.field
		var bad []string
		if !(e.wt == rf.WT || (rf.Label == "rep" && e.wt == wtBytes)) {
			bad = append(bad, fmt.Sprintf("wire type %s but schema says %s", wtName[e.wt], wtName[rf.WT]))
		}
		app := e.app
		if strings.HasPrefix(app, "length-prefixed ") {
			if e.wt != wtBytes {
				bad = append(bad, "length-prefixed nested message tagged with non-bytes wire type")
			}
		} else if w, ok := appendWT[app]; !ok || w != e.wt {
			bad = append(bad, fmt.Sprintf("tag wire type %s is followed by %s", wtName[e.wt], app))
		}
		if e.field == "" {
			bad = append(bad, "cannot identify the schema field feeding this tag")
		} else if !strings.Contains(strings.ToLower(e.field), strings.ToLower(rf.Name)) {
			bad = append(bad, fmt.Sprintf("feeds schema field %s but number %d is %q in the .proto", e.field, e.num, rf.Name))
		}
		if rf.Label == "req" {
			for _, ret := range core.Returns(e.fn) {
				if !e.call.Block().Dominates(ret.Block()) {
					bad = append(bad, "required field is not emitted on every path")
					break
				}
			}
		}
		if len(bad) > 0 {
			r.Violate("R9.1", key, pos, strings.Join(bad, "; "))
		} else {
			r.OK("R9.1", key, pos, fmt.Sprintf("%s.%s #%d %s via %s feeds %s", pbm, rf.Name, e.num, wtName[e.wt], app, e.field))
		}
	}
	// every R field of a message that has an encoder must be emitted by it
	for rmsg, pbm := range msgMap {
		if eField[rmsg] == nil {
			r.Violate("R9.1", "data/encoder-of:"+rmsg, "-", "no encoder emits any field of "+pbm)
			continue
		}
		for num, rf := range ref[pbm] {
			if _, ok := eField[rmsg][num]; !ok {
				r.Violate("R9.1", fmt.Sprintf("data/encoder-of:%s#%d", rmsg, num), "-", fmt.Sprintf("schema field %s.%s (#%d) is never emitted", pbm, rf.Name, num))
			}
		}
	}

	// ---- D
	decs := c.findDecoders()
	ncase, ndef := 0, 0
	for _, d := range decs {
		dpos := c.P.Pos(d.fn.Pos())
		pbm, ok := msgMap[d.msg]
		if !ok {
			r.Undecided("R9.1", "data."+d.fn.Name(), dpos, "decoder is not tied to a reference message (found "+d.msg+")")
			continue
		}
		seen := map[int64]bool{}
		for _, dc := range d.cases {
			ncase++
			seen[dc.num] = true
			key := fmt.Sprintf("data.%s/case#%d", d.fn.Name(), dc.num)
			pos := c.P.Pos(firstPos(dc.entry))
			rf, ok := ref[pbm][dc.num]
			if !ok {
				r.Violate("R9.1", key, pos, fmt.Sprintf("decoder interprets field number %d which message %s does not define (a reference decoder skips it)", dc.num, pbm))
				continue
			}
			want := map[int64]bool{rf.WT: true}
			if rf.Label == "rep" && rf.WT != wtBytes {
				want[wtBytes] = true
			}
			var bad []string
			for w := range want {
				if _, ok := dc.accepted[w]; !ok {
					bad = append(bad, fmt.Sprintf("does not accept wire type %s that a conformant encoder may emit", wtName[w]))
				}
			}
			for w, fnm := range dc.accepted {
				if !want[w] {
					bad = append(bad, fmt.Sprintf("accepts wire type %s (schema: %s)", wtName[w], wtName[rf.WT]))
					continue
				}
				if cw, ok := consumeWT[fnm]; !ok || cw != w {
					bad = append(bad, fmt.Sprintf("wire type %s is consumed with %s", wtName[w], fnm))
				}
			}
			if len(dc.fields) != 1 {
				bad = append(bad, fmt.Sprintf("assembles keys {%s}, want exactly one", keysOf(dc.fields)))
			} else {
				f := keysOf(dc.fields)
				if !strings.Contains(strings.ToLower(f), strings.ToLower(rf.Name)) {
					bad = append(bad, fmt.Sprintf("assembles key %s but number %d is %q in the .proto", f, dc.num, rf.Name))
				}
				if ef, ok := eField[d.msg][dc.num]; ok && ef != "" && ef != f {
					bad = append(bad, fmt.Sprintf("decoder assembles %s but the encoder feeds number %d from %s", f, dc.num, ef))
				}
			}
			if len(bad) > 0 {
				r.Violate("R9.1", key, pos, strings.Join(bad, "; "))
			} else {
				r.OK("R9.1", key, pos, fmt.Sprintf("%s.%s #%d accepts %s -> %s", pbm, rf.Name, dc.num, wtSet(dc.accepted), keysOf(dc.fields)))
			}
		}
		for num, rf := range ref[pbm] {
			if !seen[num] {
				r.Violate("R9.1", fmt.Sprintf("data.%s/case#%d", d.fn.Name(), num), dpos, fmt.Sprintf("schema field %s.%s (#%d) has no decoder case", pbm, rf.Name, num))
			}
		}
		// R9.2
		ndef++
		c.checkDefault(d)
	}
	r.Floor("R9.1/D", ncase, 11)
	r.Floor("R9.2", ndef, 3)

	// ---- R9.3
	n93 := 0
	for _, fn := range c.P.RepoFuncs {
		rel, ok := c.P.PkgOf(fn)
		if !ok || rel != "data" || !c.P.HandWritten(fn) {
			continue
		}
		for _, ci := range core.CallsIn(fn) {
			call, ok := ci.(*ssa.Call)
			if !ok {
				continue
			}
			nm := pwName(call)
			if !strings.HasPrefix(nm, "Consume") {
				continue
			}
			n93++
			c.checkConsume(fn, call, nm, n93)
		}
	}
	r.Floor("R9.3", n93, 15)

	// ---- R9.4
	n94 := 0
	for _, d := range decs {
		pbm := msgMap[d.msg]
		for _, dc := range d.cases {
			if rf, ok := ref[pbm][dc.num]; ok && rf.Label == "rep" {
				n94++
				c.checkMultiplicity(d, dc, ref[pbm])
			}
		}
	}
	r.Floor("R9.4", n94, 1)

	c.checkEncoderOrder(encs)
	c.checkFraming(encs)
	c.checkPermissions()
	c.checkPresenceExact(encs)
	c.checkPackedCount()
	c.checkCallbackErrors()
	c.checkDecoderLoopRuns(decs)
	c.checkPackedRunConsumed()

	// ---- R9.7
	n97 := 0
	if pk := c.P.Repo[core.Module+"/data"]; pk != nil {
		dead := core.NeverAssignedLocals(pk, func(fd *ast.FuncDecl) bool {
			n97++
			return !c.P.IsGenerated(fd.Pos())
		})
		seenVar := map[*types.Var]bool{}
		for _, d := range dead {
			if seenVar[d.Var] {
				continue
			}
			seenVar[d.Var] = true
			r.Violate("R9.7", fmt.Sprintf("data.%s/local:%s", d.Func, d.Var.Name()), c.P.Pos(d.Use), fmt.Sprintf("local %s is declared without initialiser and never assigned, yet read as %s: the guard is constant", d.Var.Name(), d.How))
		}
		if len(dead) == 0 {
			r.OK("R9.7", "data/*", "-", fmt.Sprintf("%d function declarations scanned, no never-assigned local is read in a guard", n97))
		}
	}
	c.controlDeadLocal()
}

func firstPos(b *ssa.BasicBlock) token.Pos {
	for _, ins := range b.Instrs {
		if ins.Pos().IsValid() {
			return ins.Pos()
		}
	}
	return b.Parent().Pos()
}

// checkDefault implements R9.2.
func (c *Ctx) checkDefault(d *decoder) {
	key := "data." + d.fn.Name() + "/default"
	pos := c.P.Pos(d.fn.Pos())
	if d.deflt == nil || len(d.deflt.Preds) != 1 || (d.header != nil && d.deflt == d.header) {
		c.R.Violate("R9.2", key, pos, "the field switch has no default path of its own: unknown fields are not skipped")
		return
	}
	region := dominatedRegion(d.deflt)
	var cfv *ssa.Call
	var cfvFwd *fwdInfo
	for b := range region {
		for _, ins := range b.Instrs {
			if call, ok := ins.(*ssa.Call); ok && isPW(call, "ConsumeFieldValue") {
				cfv = call
			} else if ok {
				if fw := c.forwarderOfCall(call); fw != nil && fw.pw == "ConsumeFieldValue" {
					cfv, cfvFwd = call, fw
				}
			}
		}
	}
	if cfvFwd != nil {
		// cursor form: r.skip(fieldNum, wireType) forwards both to ConsumeFieldValue; only its error ends the loop
		pos = c.P.Pos(firstPos(d.deflt))
		var bad []string
		argOf := func(v ssa.Value) int {
			for i, a := range cfv.Call.Args {
				if core.Unconv(a) == v {
					return i
				}
			}
			return -1
		}
		ni, wi := argOf(d.fieldNum), argOf(d.wireType)
		h := cfvFwd.fn
		if ni < 0 || wi < 0 || ni >= len(h.Params) || wi >= len(h.Params) || core.Unconv(cfvFwd.call.Call.Args[0]) != ssa.Value(h.Params[ni]) || core.Unconv(cfvFwd.call.Call.Args[1]) != ssa.Value(h.Params[wi]) {
			bad = append(bad, "ConsumeFieldValue is not given the tag's field number and wire type")
		}
		ev, _ := core.ErrResultOfCall(cfv)
		for b := range region {
			if len(b.Instrs) == 0 {
				continue
			}
			ret, ok := b.Instrs[len(b.Instrs)-1].(*ssa.Return)
			if !ok {
				continue
			}
			if ev == nil || !core.GuardedBy(b, func(cond ssa.Value) (bool, bool) {
				x, trueMeansNil, ok := core.NilCmp(cond)
				if !ok || x != ev {
					return false, false
				}
				return !trueMeansNil, true
			}) {
				bad = append(bad, fmt.Sprintf("default path returns at %s without an error from the skip helper", c.P.Pos(ret.Pos())))
			}
		}
		if len(bad) > 0 {
			c.R.Violate("R9.2", key, pos, strings.Join(bad, "; "))
		} else {
			c.R.OK("R9.2", key, pos, "unknown fields are skipped with ConsumeFieldValue through "+h.Name()+"; only its error (negative length) ends the decode")
		}
		return
	}
	pos = c.P.Pos(firstPos(d.deflt))
	if cfv == nil {
		c.R.Violate("R9.2", key, pos, "default path does not call protowire.ConsumeFieldValue")
		return
	}
	var bad []string
	if core.Unconv(cfv.Call.Args[0]) != d.fieldNum || core.Unconv(cfv.Call.Args[1]) != d.wireType {
		bad = append(bad, "ConsumeFieldValue is not given the tag's field number and wire type")
	}
	// returns in the region must be guarded by n<0
	for b := range region {
		if len(b.Instrs) == 0 {
			continue
		}
		ret, ok := b.Instrs[len(b.Instrs)-1].(*ssa.Return)
		if !ok {
			continue
		}
		guarded := core.GuardedBy(b, func(cond ssa.Value) (bool, bool) {
			x, onT, onF, ok := core.SignTest(cond)
			if !ok || x != ssa.Value(cfv) {
				return false, false
			}
			if onT == "neg" {
				return true, true
			}
			if onF == "neg" {
				return false, true
			}
			return false, false
		})
		if !guarded {
			bad = append(bad, fmt.Sprintf("default path returns at %s without a negative length from ConsumeFieldValue", c.P.Pos(ret.Pos())))
		}
	}
	if len(bad) > 0 {
		c.R.Violate("R9.2", key, pos, strings.Join(bad, "; "))
	} else {
		c.R.OK("R9.2", key, pos, "unknown fields are skipped with ConsumeFieldValue; only a negative length is an error")
	}
}

// checkConsume implements R9.3 for one Consume* call.
func (c *Ctx) checkConsume(fn *ssa.Function, call *ssa.Call, nm string, ord int) {
	// identify by function + callee + ordinal among same-callee calls in the function (line-free)
	k := 0
	for _, ci := range core.CallsIn(fn) {
		if cc, ok := ci.(*ssa.Call); ok && pwName(cc) == nm {
			k++
			if cc == call {
				break
			}
		}
	}
	key := fmt.Sprintf("data.%s/%s#%d", fn.Name(), nm, k)
	pos := c.P.Pos(call.Pos())
	var n ssa.Value
	if tup, ok := call.Type().(*types.Tuple); ok {
		n = extractOf(call, tup.Len()-1)
	} else {
		n = call
	}
	if n == nil {
		c.R.Violate("R9.3", key, pos, "the consumed length is discarded")
		return
	}
	buf := call.Call.Args[len(call.Call.Args)-1]
	// cursor form: the call sits in a consume forwarder whose advance helper sign-tests the length and re-slices the
	// very buffer field that was consumed
	if fw := c.consumeForwarder(fn); fw != nil && fw.call == call {
		c.R.OK("R9.3", key, pos, "length handed to "+fw.adv.fn.Name()+", which errors on n<0 and otherwise advances the consumed buffer field "+fw.field.Name()+" by rest[n:]; the helper's error is returned")
		return
	}
	var bad []string
	var slice *ssa.Slice
	signTested := false
	for _, ref := range *n.Referrers() {
		switch x := ref.(type) {
		case *ssa.BinOp:
			if v, _, _, ok := core.SignTest(x); ok && v == n {
				signTested = true
			} else {
				bad = append(bad, fmt.Sprintf("length used in %s at %s", x.Op, c.P.Pos(x.Pos())))
			}
		case *ssa.Call:
			if !isPW(x, "ParseError") {
				bad = append(bad, "length passed to "+core.CalleeName(x))
			}
		case *ssa.Slice:
			if x.Low == n && x.High == nil && x.X == buf {
				if slice != nil {
					bad = append(bad, "buffer advanced twice by the same length")
				}
				slice = x
			} else {
				bad = append(bad, fmt.Sprintf("length used to slice a different buffer or bound at %s", c.P.Pos(x.Pos())))
			}
		case *ssa.DebugRef:
		default:
			bad = append(bad, fmt.Sprintf("length flows to %T at %s", ref, c.P.Pos(ref.Pos())))
		}
	}
	if !signTested {
		bad = append(bad, "length is never tested for < 0")
	}
	if slice == nil {
		bad = append(bad, "the consumed buffer is never advanced by the length (no rest[n:])")
	} else {
		guarded := core.GuardedBy(slice.Block(), func(cond ssa.Value) (bool, bool) {
			x, onT, onF, ok := core.SignTest(cond)
			if !ok || x != n {
				return false, false
			}
			if onT == "nonneg" {
				return true, true
			}
			if onF == "nonneg" {
				return false, true
			}
			return false, false
		})
		if !guarded {
			bad = append(bad, "rest[n:] is not guarded by n >= 0")
		}
		// progress: no path from the call's block back to the enclosing loop header avoids the slice's block
		header := core.LoopHeader(call.Block())
		if header != nil {
			seen := map[*ssa.BasicBlock]bool{}
			var reach func(b *ssa.BasicBlock) bool
			reach = func(b *ssa.BasicBlock) bool {
				if b == slice.Block() {
					return false
				}
				if b == header {
					return true
				}
				if seen[b] {
					return false
				}
				seen[b] = true
				for _, s := range b.Succs {
					if reach(s) {
						return true
					}
				}
				return false
			}
			esc := false
			if call.Block() != slice.Block() {
				for _, s := range call.Block().Succs {
					if reach(s) {
						esc = true
					}
				}
			}
			if esc {
				bad = append(bad, "a path returns to the loop header without advancing the buffer")
			}
			// the advanced buffer must be what the loop carries on (flows to a header phi or to a later Consume*)
			if !c.sliceCarried(slice, header) {
				bad = append(bad, "the advanced buffer is not carried into the next iteration")
			}
		}
	}
	if len(bad) > 0 {
		c.R.Violate("R9.3", key, pos, uniqJoin(bad))
	} else {
		c.R.OK("R9.3", key, pos, "length sign-tested, buffer advanced once by rest[n:] under n>=0 on every path back to the loop")
	}
}

// sliceCarried: the slice value reaches a phi of the loop header (directly or through further rest[m:] slices).
func (c *Ctx) sliceCarried(s *ssa.Slice, header *ssa.BasicBlock) bool {
	seen := map[ssa.Value]bool{}
	var rec func(v ssa.Value) bool
	rec = func(v ssa.Value) bool {
		if seen[v] {
			return false
		}
		seen[v] = true
		for _, ref := range *v.Referrers() {
			switch x := ref.(type) {
			case *ssa.Phi:
				if x.Block() == header {
					return true
				}
				if rec(x) {
					return true
				}
			case *ssa.Slice:
				if x.X == v && rec(x) {
					return true
				}
			case *ssa.Call:
				// consumed by a later Consume* whose own slice is carried
				if strings.HasPrefix(pwName(x), "Consume") {
					for _, r2 := range *x.Referrers() {
						_ = r2
					}
					// find slices of v by that call's length
					for _, r3 := range *v.Referrers() {
						if sl, ok := r3.(*ssa.Slice); ok && sl.X == v && rec(sl) {
							return true
						}
					}
				}
			}
		}
		return false
	}
	return rec(s)
}

// helperConsumes: call is a static call of a hand-written function of package data that receives the decoder's wire type;
// returns the protowire.Consume* function reached in the helper when the wire type is w (conditions on that parameter are
// evaluated, others fork) and the schema keys the helper assembles (constant keys, or its string parameters bound at this call).
func (c *Ctx) helperConsumes(d *decoder, call *ssa.Call, w int64) (string, []string) {
	h := call.Call.StaticCallee()
	if h == nil || len(h.Blocks) == 0 {
		return "", nil
	}
	if rel, ok := c.P.PkgOf(h); !ok || rel != "data" || !c.P.HandWritten(h) {
		return "", nil
	}
	var wtParam *ssa.Parameter
	for i, a := range call.Call.Args {
		if core.Unconv(a) == d.wireType && i < len(h.Params) {
			wtParam = h.Params[i]
		}
	}
	if wtParam == nil {
		// a plain consume helper: it is handed the buffer and consumes one element whatever the wire type
		takesBuf := false
		for i, a := range call.Call.Args {
			if sl, ok := a.Type().Underlying().(*types.Slice); ok && isBasic(sl.Elem(), types.Byte) && i < len(h.Params) {
				takesBuf = true
			}
		}
		if !takesBuf {
			return "", nil
		}
	}
	found := ""
	seen := map[*ssa.BasicBlock]bool{}
	var walk func(b *ssa.BasicBlock)
	walk = func(b *ssa.BasicBlock) {
		if seen[b] || found != "" {
			return
		}
		seen[b] = true
		for _, ins := range b.Instrs {
			if cc, ok := ins.(*ssa.Call); ok {
				if nm := pwName(cc); strings.HasPrefix(nm, "Consume") && nm != "ConsumeTag" {
					found = nm
					return
				}
			}
		}
		if iff := core.BlockIf(b); iff != nil {
			if bo, ok := iff.Cond.(*ssa.BinOp); ok && core.Unconv(bo.X) == ssa.Value(wtParam) && (bo.Op == token.EQL || bo.Op == token.NEQ) {
				if k, ok := core.ConstInt(bo.Y); ok {
					if (k == w) == (bo.Op == token.EQL) {
						walk(b.Succs[0])
					} else {
						walk(b.Succs[1])
					}
					return
				}
			}
		}
		for _, s2 := range b.Succs {
			walk(s2)
		}
	}
	walk(h.Blocks[0])
	if found == "" {
		return "", nil
	}
	var fields []string
	for _, ci := range core.CallsIn(h) {
		me, ok := ci.(*ssa.Call)
		if !ok || !core.IsCallTo(me, qpPath, "MapEntry") {
			continue
		}
		switch k := me.Call.Args[1].(type) {
		case *ssa.Const:
			if k.Value != nil && k.Value.Kind() == constant.String {
				fields = append(fields, constant.StringVal(k.Value))
			}
		case *ssa.Parameter:
			for i, p := range h.Params {
				if p == k && i < len(call.Call.Args) {
					if kc, ok := call.Call.Args[i].(*ssa.Const); ok && kc.Value != nil && kc.Value.Kind() == constant.String {
						fields = append(fields, constant.StringVal(kc.Value))
					}
				}
			}
		}
	}
	return found, fields
}

// rootParam follows conversions and accessor-method chains (x.Must().Int()) down to the parameter they start from.
func rootParam(v ssa.Value) *ssa.Parameter {
	for i := 0; i < 8; i++ {
		switch x := core.Unconv(v).(type) {
		case *ssa.Parameter:
			return x
		case *ssa.Call:
			if x.Call.IsInvoke() {
				v = x.Call.Value
				continue
			}
			if f := x.Call.StaticCallee(); f != nil && f.Signature.Recv() != nil && len(x.Call.Args) > 0 {
				v = x.Call.Args[0]
				continue
			}
			return nil
		case *ssa.UnOp:
			v = x.X
			continue
		default:
			return nil
		}
	}
	return nil
}

// withAccBind evaluates f with the parameters of a helper bound to the arguments of one of its call sites, so that accessor
// tracing (traceAccessor, existsCond) resolves through them.
func (c *Ctx) withAccBind(h *ssa.Function, call *ssa.Call, f func()) {
	saved := c.accBind
	nb := map[*ssa.Parameter]ssa.Value{}
	for k, v := range saved {
		nb[k] = v
	}
	for i, p := range h.Params {
		if i < len(call.Call.Args) {
			nb[p] = call.Call.Args[i]
		}
	}
	c.accBind = nb
	f()
	c.accBind = saved
}
