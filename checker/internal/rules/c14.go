package rules

import (
	"fmt"
	"go/constant"
	"go/token"
	"go/types"
	"sort"
	"strings"

	"golang.org/x/tools/go/ssa"

	"verifchk/internal/core"
)

func init() { Registry["C14"] = c14 }

// classOf classifies a concrete node type by what it offers: "file" (has AsLargeBytes), "map" (name lookup + map iterator), "other".
func classOf(t types.Type) string {
	ms := types.NewMethodSet(t)
	has := map[string]bool{}
	for i := 0; i < ms.Len(); i++ {
		has[ms.At(i).Obj().Name()] = true
	}
	switch {
	case has["AsLargeBytes"]:
		return "file"
	case has["LookupByString"] && has["MapIterator"] && has["Substrate"]:
		return "map"
	}
	return "other"
}

func (c *Ctx) resultTypesOf(fn *ssa.Function) ([]types.Type, bool) {
	var out []types.Type
	seen := map[string]bool{}
	for _, ret := range core.Returns(fn) {
		rr := core.ResolvedResults(ret)
		ts, ok := c.G.ConcreteTypesOf(rr[0])
		if !ok {
			return nil, false
		}
		for _, t := range ts {
			k := types.TypeString(t, nil)
			if !seen[k] {
				seen[k] = true
				out = append(out, t)
			}
		}
	}
	return out, true
}

func c14(c *Ctx) {
	r := c.R
	r.Explain = "C14 (reification is total, type-directed, substrate-preserving): decides (R14.1) that both reifier tables map every Data_* type to a constructor of the class the property states — File/Raw to byte-streaming file nodes, Directory/HAMTShard to name-addressable map nodes distinct per type, Metadata/Symlink to the generic link map — and that lazy and preload agree per type; (R14.2) the dispatcher's shape: a failed dag-pb assertion returns the very parameter with a nil error, absent Data and undecodable Data both return the default reifier's result, a type missing from the table returns a nil node with an error; (R14.3) file node types report Kind_Bytes (own constant or a bytes-kind inner node at every allocation) and directory node types delegate Kind to the dag-pb substrate; (R14.4) every Substrate() returns a receiver field that every allocation initialises with the constructor's substrate parameter, passed unchanged along every call chain from the dispatcher. Not decided: that re-encoding the substrate reproduces the bytes (codec behaviour)."
	r.Rule("R14.1", "table exhaustiveness and typing: keys = Data_* constants; concrete result types per key are of the class the property states; lazy and preload tables yield the same class per key")
	r.Rule("R14.2", "dispatch shape of the reifier dispatcher, read from its CFG: !ok of the dag-pb assertion ⇒ return (parameter, nil); Data absent ⇒ default reifier; decode error ⇒ default reifier; table miss ⇒ (nil, error)")
	r.Rule("R14.3", "kind: every file node type returns the constant Kind_Bytes from Kind() or embeds a node that is bytes-kind at every allocation; every directory node type's Kind() returns the Kind() of its dag-pb substrate")
	r.Rule("R14.6", "a node that claims to be a HAMT shard is reified only with valid parameters: the validator reached from the shard constructor hands the Fanout to a check whose every possibly-successful return is dominated by v > 0 (and that tests the power of two)")
	r.Rule("R14.5", "totality of the dispatch: every may-panic construct (index, slice, unchecked assertion, Must) in the registered reifiers, the root-package functions they reach and every reader-package function the lazy reifier reaches (constructors of the table members, their validators, the UnixFS decoder) is discharged by C13's guard recognition — an out-of-range or negative data type must end in the error return, not in a panic")
	r.Rule("R14.4", "substrate identity: Substrate() returns a load of receiver field F; every allocation of the type stores into F a parameter of the allocating function; along every static call chain up to the dispatcher that argument is again the caller's own substrate parameter")

	c.checkDispatchTotality()
	// R14.7: a rejected node is refused — no error test on the way is inverted (shared with C12's R12.7)
	c.checkNoInvertedErrorTest("R14.7")
	c.checkReaderErrors()
	if ok, why := newDischarger(c).fanoutCheckedPositive(); ok {
		r.OK("R14.6", "hamt/fanout-validated", "-", "the shard constructor's validator rejects every fanout that is not a positive power of two")
	} else {
		r.Violate("R14.6", "hamt/fanout-validated", "-", "an invalid HAMT shard is reified instead of being refused: "+why)
	}
	lazy, preload, lazyName, preloadName, ok := c.lazyAndPreloadTables()
	if !ok {
		r.Break("cannot identify the reifier tables (two package-level maps from data type to constructor reached from the registered reifiers)")
		c.checkSubstrate()
		return
	}
	consts := c.dataTypeConsts()
	byVal := map[int64]string{}
	for n, v := range consts {
		byVal[v] = n
	}
	c.checkTableConstructorAgree(map[string][]core.TableEntry{lazyName: lazy, preloadName: preload}, byVal)
	wantClass := map[string]string{"Data_File": "file", "Data_Raw": "file", "Data_Directory": "map", "Data_HAMTShard": "map", "Data_Metadata": "map", "Data_Symlink": "map"}
	// which package must provide the node per type (directory vs hamt vs generic link map are distinct types)
	n141 := 0
	classes := map[string]map[string]string{}
	typesPer := map[string]map[string]string{}
	for _, t := range []struct {
		name string
		ents []core.TableEntry
	}{{lazyName, lazy}, {preloadName, preload}} {
		classes[t.name] = map[string]string{}
		typesPer[t.name] = map[string]string{}
		for _, e := range t.ents {
			if e.Key == nil {
				continue
			}
			v, _ := constant.Int64Val(e.Key)
			cname, known := byVal[v]
			key := fmt.Sprintf("table:%s[%s]", t.name, cname)
			n141++
			if !known {
				r.Violate("R14.1", fmt.Sprintf("table:%s[%d]", t.name, v), c.P.Pos(e.Pos), "key is not a Data_* constant")
				continue
			}
			ts, ok := c.resultTypesOf(e.Fn)
			if !ok || len(ts) == 0 {
				r.Undecided("R14.1", key, c.P.Pos(e.Pos), "cannot resolve the concrete node types returned by "+core.FuncName(e.Fn))
				continue
			}
			var names []string
			cls := ""
			bad := ""
			for _, tt := range ts {
				names = append(names, core.TypeNameOf(tt))
				k := classOf(tt)
				if cls == "" {
					cls = k
				} else if cls != k {
					bad = "returns node types of different classes"
				}
			}
			sort.Strings(names)
			classes[t.name][cname] = cls
			typesPer[t.name][cname] = strings.Join(names, "|")
			if bad == "" && cls != wantClass[cname] {
				bad = fmt.Sprintf("%s is reified as a %s node (%s), the property requires a %s node", cname, cls, strings.Join(names, "|"), wantClass[cname])
			}
			r.Check(bad == "", "R14.1", key, c.P.Pos(e.Pos), fmt.Sprintf("%s -> %s (%s)", cname, cls, strings.Join(names, "|")), bad)
		}
	}
	r.Floor("R14.1", n141, 12)
	// per-type distinctions
	for cname := range wantClass {
		l, p := typesPer[lazyName][cname], typesPer[preloadName][cname]
		r.Check(l == p && l != "", "R14.1", "tables-agree["+cname+"]", "-", "lazy and preload yield "+l, fmt.Sprintf("lazy yields %q, preload yields %q", l, p))
	}
	for _, pair := range [][2]string{{"Data_Directory", "Data_HAMTShard"}, {"Data_Directory", "Data_Symlink"}, {"Data_HAMTShard", "Data_Metadata"}} {
		a, b := typesPer[lazyName][pair[0]], typesPer[lazyName][pair[1]]
		r.Check(a != b, "R14.1", "distinct["+pair[0]+","+pair[1]+"]", "-", a+" vs "+b, "both types are reified by the same node type "+a)
	}

	c.checkDispatchShape(lazy)
	c.checkKinds(typesPer[lazyName])
	c.checkSubstrate()
}

// checkDispatchShape implements R14.2 on every function that looks a callee up in a reifier table.
func (c *Ctx) checkDispatchShape(lazy []core.TableEntry) {
	r := c.R
	n := 0
	for _, fn := range c.G.Funcs() {
		rel, ok := c.P.PkgOf(fn)
		if !ok || rel != "" {
			continue
		}
		// the dispatcher: asserts its node parameter to dag-pb (comma-ok) and calls a function value (the selected constructor)
		isDisp, callsValue := false, false
		for _, b := range fn.Blocks {
			for _, ins := range b.Instrs {
				if x, ok := ins.(*ssa.TypeAssert); ok && x.CommaOk {
					if _, isParam := x.X.(*ssa.Parameter); isParam && strings.Contains(types.TypeString(x.AssertedType, nil), "dagpb") {
						isDisp = true
					}
				}
			}
		}
		for _, ci := range core.CallsIn(fn) {
			cc := ci.Common()
			if !cc.IsInvoke() && cc.StaticCallee() == nil {
				if _, isB := cc.Value.(*ssa.Builtin); !isB {
					callsValue = true
				}
			}
		}
		if !isDisp || !callsValue {
			continue
		}
		n++
		name := core.FuncName(fn)
		pos := c.P.Pos(fn.Pos())
		errIdx := core.ErrResultIndex(fn.Signature)
		// (i) dag-pb assertion
		var ta *ssa.TypeAssert
		for _, b := range fn.Blocks {
			for _, ins := range b.Instrs {
				if x, ok := ins.(*ssa.TypeAssert); ok && x.CommaOk {
					if _, isParam := x.X.(*ssa.Parameter); isParam && strings.Contains(types.TypeString(x.AssertedType, nil), "dagpb") {
						ta = x
					}
				}
			}
		}
		if ta == nil {
			r.Violate("R14.2", name+"/not-dagpb", pos, "no comma-ok assertion of the node parameter to dag-pb")
		} else {
			okv := extractOf2(ta, 1)
			good := false
			for _, ret := range core.Returns(fn) {
				rr := core.ResolvedResults(ret)
				if rr[0] == ta.X && core.IsNilConst(rr[errIdx]) {
					if okv != nil && core.GuardedBy(ret.Block(), func(cond ssa.Value) (bool, bool) {
						if cond == okv {
							return false, true
						}
						return false, false
					}) {
						good = true
					}
				}
			}
			r.Check(good, "R14.2", name+"/not-dagpb", pos, "a node that is not dag-pb is returned unchanged with a nil error", "the !ok edge of the dag-pb assertion does not return the parameter itself with a nil error")
		}
		// default reifier: the callee of returns taken when Data is absent / undecodable (the two conditions may be tested in
		// the dispatcher itself or in a comma-ok helper whose false result the dispatcher branches on)
		var defFn *ssa.Function
		absentOK, decodeOK := false, false
		for _, ret := range core.Returns(fn) {
			rr := core.ResolvedResults(ret)
			ex, ok := rr[0].(*ssa.Extract)
			if !ok {
				continue
			}
			call, ok := ex.Tuple.(*ssa.Call)
			if !ok || call.Call.StaticCallee() == nil {
				continue
			}
			facts := c.unixfsFailureFacts(fn, ret.Block(), 0)
			if facts["no-data"] {
				defFn = call.Call.StaticCallee()
				absentOK = true
			}
		}
		for _, ret := range core.Returns(fn) {
			rr := core.ResolvedResults(ret)
			ex, ok := rr[0].(*ssa.Extract)
			if !ok {
				continue
			}
			rc, ok := ex.Tuple.(*ssa.Call)
			if !ok || rc.Call.StaticCallee() != defFn || defFn == nil {
				continue
			}
			if c.unixfsFailureFacts(fn, ret.Block(), 0)["decode-failed"] {
				decodeOK = true
			}
		}
		r.Check(absentOK, "R14.2", name+"/no-data", pos, "absent Data returns the default reifier's result ("+core.FuncName(defFn)+")", "no return of a default reifier guarded by !Data.Exists()")
		r.Check(decodeOK, "R14.2", name+"/undecodable-data", pos, "a decode error returns the default reifier's result", "no return of the default reifier guarded by the decode error")
		// table miss
		missOK := false
		for _, ret := range core.Returns(fn) {
			rr := core.ResolvedResults(ret)
			if core.IsNilConst(rr[0]) && !core.IsNilConst(rr[errIdx]) {
				if core.GuardedBy(ret.Block(), func(cond ssa.Value) (bool, bool) {
					// ok of a table lookup (possibly through a phi of two lookups)
					if isLookupOK(cond) {
						return false, true
					}
					// array table: the data type is out of range (dt < 0, dt >= N)
					if bo, ok := cond.(*ssa.BinOp); ok && isIntegerType(bo.X.Type()) {
						if _, isK := core.ConstInt(bo.Y); isK && (bo.Op == token.LSS || bo.Op == token.GEQ || bo.Op == token.GTR) && len(c.G.FieldTables) > 0 {
							return true, true
						}
					}
					return false, false
				}) {
					missOK = true
				}
			}
		}
		if !missOK && len(c.G.FieldTables) > 0 {
			// array table: the (nil, error) return is entered only from out-of-range edges (dt < 0, dt >= N), possibly several
			for _, ret := range core.Returns(fn) {
				rr := core.ResolvedResults(ret)
				if !core.IsNilConst(rr[0]) || core.IsNilConst(rr[errIdx]) || len(ret.Block().Preds) == 0 {
					continue
				}
				all := true
				for _, p := range ret.Block().Preds {
					iff := core.BlockIf(p)
					if iff == nil || len(p.Succs) != 2 || p.Succs[0] != ret.Block() {
						all = false
						break
					}
					bo, ok := iff.Cond.(*ssa.BinOp)
					if !ok || !isIntegerType(bo.X.Type()) || !(bo.Op == token.LSS || bo.Op == token.GEQ || bo.Op == token.GTR) {
						all = false
						break
					}
					if _, isK := core.ConstInt(bo.Y); !isK {
						all = false
						break
					}
				}
				if all {
					missOK = true
				}
			}
		}
		r.Check(missOK, "R14.2", name+"/unknown-type", pos, "a type missing from the table returns (nil, error)", "no (nil, error) return guarded by the table lookup's !ok")
		// default reifier yields the generic link map around its substrate parameter
		if defFn != nil {
			ts, ok := c.resultTypesOf(defFn)
			good := ok && len(ts) == 1 && classOf(ts[0]) == "map"
			r.Check(good, "R14.2", core.FuncName(defFn)+"/default-node", c.P.Pos(defFn.Pos()), "default reifier returns a name-addressable link map", "default reifier does not return exactly one map-class node type")
		}
	}
	r.Floor("R14.2", n, 1)
}

func extractOf2(v ssa.Value, idx int) ssa.Value {
	for _, ref := range *v.Referrers() {
		if ex, ok := ref.(*ssa.Extract); ok && ex.Index == idx {
			return ex
		}
	}
	return nil
}

func isLookupOK(v ssa.Value) bool {
	switch x := v.(type) {
	case *ssa.Extract:
		if lk, ok := x.Tuple.(*ssa.Lookup); ok && lk.CommaOk && x.Index == 1 {
			return true
		}
		// the ok result of a helper all of whose returns yield a table lookup's ok
		if call, ok := x.Tuple.(*ssa.Call); ok {
			if f := call.Call.StaticCallee(); f != nil && len(f.Blocks) > 0 {
				n := 0
				for _, ret := range core.Returns(f) {
					if x.Index >= len(ret.Results) || !isLookupOK(ret.Results[x.Index]) {
						return false
					}
					n++
				}
				return n > 0
			}
		}
	case *ssa.Phi:
		for _, e := range x.Edges {
			if !isLookupOK(e) {
				// the phi may also merge the ok of the earlier assertion on an infeasible edge; require at least the lookups
				if _, isExt := e.(*ssa.Extract); !isExt {
					return false
				}
			}
		}
		return true
	}
	return false
}

func (c *Ctx) existsCond2(v ssa.Value) string {
	call, ok := v.(*ssa.Call)
	if !ok {
		return ""
	}
	f := call.Call.StaticCallee()
	if f == nil || f.Name() != "Exists" || len(call.Call.Args) == 0 {
		return ""
	}
	p := c.accessPath(call.Call.Args[0], 0)
	if i := strings.LastIndex(p, "."); i >= 0 {
		return p[i+1:]
	}
	return p
}

// checkKinds implements R14.3.
func (c *Ctx) checkKinds(lazyTypes map[string]string) {
	r := c.R
	kindBytes := int64(-1)
	if pk := c.P.All["github.com/ipld/go-ipld-prime/datamodel"]; pk != nil {
		if k, ok := pk.Types.Scope().Lookup("Kind_Bytes").(*types.Const); ok {
			kindBytes, _ = constant.Int64Val(k.Val())
		}
	}
	if kindBytes < 0 {
		r.Break("datamodel.Kind_Bytes not found")
		return
	}
	n := 0
	reified := map[string]bool{}
	for _, v := range lazyTypes {
		for _, t := range strings.Split(v, "|") {
			reified[strings.TrimPrefix(t, "*")] = true
		}
	}
	for _, named := range c.repoNamedTypes(core.ReaderPkgs) {
		st, ok := named.Underlying().(*types.Struct)
		if !ok || !reified[core.TypeNameOf(named)] {
			continue
		}
		pt := types.NewPointer(named)
		cls := classOf(pt)
		if cls == "other" {
			continue
		}
		ms := c.P.SSA.MethodSets.MethodSet(pt)
		sel := ms.Lookup(nil, "Kind")
		if sel == nil {
			continue
		}
		kindFn := c.P.SSA.MethodValue(sel)
		key := core.TypeNameOf(named) + "/Kind"
		pos := c.P.Pos(named.Obj().Pos())
		n++
		switch cls {
		case "file":
			if kindFn != nil && kindFn.Synthetic == "" {
				good := true
				for _, ret := range core.Returns(kindFn) {
					if k, ok := core.ConstInt(ret.Results[0]); !ok || k != kindBytes {
						good = false
					}
				}
				r.Check(good, "R14.3", key, pos, "Kind() returns the constant Kind_Bytes", "Kind() of a file node does not return Kind_Bytes")
				continue
			}
			// promoted through an embedded node: every allocation must store a bytes-kind value
			var emb *types.Var
			for i := 0; i < st.NumFields(); i++ {
				if st.Field(i).Embedded() {
					if _, isIface := st.Field(i).Type().Underlying().(*types.Interface); isIface {
						emb = st.Field(i)
					}
				}
			}
			if emb == nil {
				r.Violate("R14.3", key, pos, "file node type has neither its own Kind() nor an embedded node")
				continue
			}
			var bad []string
			nalloc := 0
			for _, fn := range c.G.Funcs() {
				for _, b := range fn.Blocks {
					for _, ins := range b.Instrs {
						stv, ok := ins.(*ssa.Store)
						if !ok {
							continue
						}
						_, fv, ok := core.FieldAddrOf(stv.Addr)
						if !ok || fv != emb {
							continue
						}
						nalloc++
						if !c.bytesKind(fn, stv, kindBytes) {
							bad = append(bad, fmt.Sprintf("allocation at %s embeds a node not known to be bytes-kind", c.P.Pos(stv.Pos())))
						}
					}
				}
			}
			if nalloc == 0 {
				bad = append(bad, "no allocation found")
			}
			r.Check(len(bad) == 0, "R14.3", key, pos, fmt.Sprintf("embedded node is bytes-kind at all %d allocation(s)", nalloc), uniqJoin(bad))
		case "map":
			good := kindFn != nil && kindFn.Synthetic == ""
			if good {
				for _, ret := range core.Returns(kindFn) {
					call, ok := ret.Results[0].(*ssa.Call)
					if !ok {
						good = false
						continue
					}
					name, rv := methodCall(call)
					if name != "Kind" || rv == nil || !strings.Contains(strings.ToLower(c.accessPath(rv, 0)), "substrate") {
						good = false
					}
				}
			}
			r.Check(good, "R14.3", key, pos, "Kind() is the Kind() of the dag-pb substrate (a map)", "Kind() of a directory node is not delegated to its substrate")
		}
	}
	r.Floor("R14.3", n, 5)
}

func (c *Ctx) repoNamedTypes(pkgs map[string]bool) []*types.Named {
	var out []*types.Named
	var paths []string
	for path := range c.P.Repo {
		paths = append(paths, path)
	}
	sort.Strings(paths)
	for _, path := range paths {
		if !pkgs[core.Rel(path)] {
			continue
		}
		sc := c.P.Repo[path].Types.Scope()
		for _, name := range sc.Names() {
			tn, ok := sc.Lookup(name).(*types.TypeName)
			if !ok || tn.IsAlias() || c.P.IsGenerated(tn.Pos()) {
				continue
			}
			if n, ok := tn.Type().(*types.Named); ok {
				out = append(out, n)
			}
		}
	}
	return out
}

// bytesKind: the value stored is known to be a bytes-kind node: guarded by Kind()==Kind_Bytes on the same value,
// a Must() of a Maybe whose element type is the schema's Bytes, or basicnode.NewBytes(...).
func (c *Ctx) bytesKind(fn *ssa.Function, st *ssa.Store, kindBytes int64) bool {
	return c.bytesKindVal(st.Block(), st.Val, kindBytes, 0)
}

func (c *Ctx) bytesKindVal(at *ssa.BasicBlock, v ssa.Value, kindBytes int64, depth int) bool {
	if phi, ok := v.(*ssa.Phi); ok && depth < 4 {
		for _, e := range phi.Edges {
			if !c.bytesKindVal(at, e, kindBytes, depth+1) {
				return false
			}
		}
		return true
	}
	st := struct{ blk *ssa.BasicBlock }{at}
	for {
		if mi, ok := v.(*ssa.MakeInterface); ok {
			v = mi.X
			continue
		}
		if ci, ok := v.(*ssa.ChangeInterface); ok {
			v = ci.X
			continue
		}
		break
	}
	if call, ok := v.(*ssa.Call); ok {
		if f := call.Call.StaticCallee(); f != nil {
			if f.Name() == "NewBytes" {
				return true
			}
			if f.Name() == "Must" && strings.Contains(recvTypeName(f), "Bytes") {
				return true
			}
		}
	}
	// guarded by v.Kind() == Kind_Bytes
	return core.GuardedBy(st.blk, func(cond ssa.Value) (bool, bool) {
		bo, ok := cond.(*ssa.BinOp)
		if !ok || (bo.Op != token.EQL && bo.Op != token.NEQ) {
			return false, false
		}
		k, ok := core.ConstInt(bo.Y)
		if !ok || k != kindBytes {
			return false, false
		}
		call, ok := bo.X.(*ssa.Call)
		if !ok {
			return false, false
		}
		name, rv := methodCall(call)
		if name != "Kind" || rv != v {
			return false, false
		}
		return bo.Op == token.EQL, true
	})
}

// checkSubstrate implements R14.4.
func (c *Ctx) checkSubstrate() {
	r := c.R
	nm, nalloc := 0, 0
	for _, fn := range c.G.Funcs() {
		rel, ok := c.P.PkgOf(fn)
		if !ok || !core.ReaderPkgs[rel] || fn.Name() != "Substrate" || fn.Synthetic != "" || c.P.IsGenerated(fn.Pos()) || fn.Signature.Recv() == nil {
			continue
		}
		named := core.RecvNamed(fn)
		if named == nil {
			continue
		}
		nm++
		key := core.TypeNameOf(named) + ".Substrate"
		pos := c.P.Pos(fn.Pos())
		var field *types.Var
		good := true
		for _, ret := range core.Returns(fn) {
			v := ret.Results[0]
			for {
				if mi, ok := v.(*ssa.MakeInterface); ok {
					v = mi.X
					continue
				}
				if ci, ok := v.(*ssa.ChangeInterface); ok {
					v = ci.X
					continue
				}
				break
			}
			u, ok := v.(*ssa.UnOp)
			if !ok {
				good = false
				continue
			}
			fv := c.fieldOfAddr(fn, u.X)
			if fv == nil || (field != nil && fv != field) {
				good = false
				continue
			}
			field = fv
		}
		if !good || field == nil {
			r.Violate("R14.4", key, pos, "Substrate() does not simply return a field of the receiver")
			continue
		}
		r.OK("R14.4", key, pos, "returns receiver field "+field.Name())
		allocOrd := map[string]int{}
		// allocations
		for _, af := range c.G.Funcs() {
			for _, b := range af.Blocks {
				for _, ins := range b.Instrs {
					st, ok := ins.(*ssa.Store)
					if !ok {
						continue
					}
					base, fv, ok := core.FieldAddrOf(st.Addr)
					if !ok || fv != field {
						continue
					}
					nalloc++
					allocOrd[core.FuncName(af)]++
					akey := fmt.Sprintf("%s/alloc-in:%s#%d", core.TypeNameOf(named), core.FuncName(af), allocOrd[core.FuncName(af)])
					if _, fresh := rootObject(st.Addr); !fresh {
						_ = base
						r.Violate("R14.4", akey, c.P.Pos(st.Pos()), "substrate field "+field.Name()+" is overwritten after construction")
						continue
					}
					ok2, why := c.isSubstrateParam(af, st.Val, 0)
					r.Check(ok2, "R14.4", akey, c.P.Pos(st.Pos()), "substrate field holds "+why, "substrate field does not hold the node that was reified: "+why)
				}
			}
		}
	}
	r.Floor("R14.4", nm, 5)
	r.Floor("R14.4/alloc", nalloc, 6)
}

// isSubstrateParam: v is a parameter of fn (through interface conversions / the dispatcher's own assertion), and every
// static caller passes, at that position, a value that is again such a parameter — up to functions that are only
// called dynamically (table entries) or exported entry points.
func (c *Ctx) isSubstrateParam(fn *ssa.Function, v ssa.Value, depth int) (bool, string) {
	if depth > 6 {
		return false, "call chain too deep"
	}
	for {
		switch x := v.(type) {
		case *ssa.MakeInterface:
			v = x.X
			continue
		case *ssa.ChangeInterface:
			v = x.X
			continue
		case *ssa.TypeAssert:
			v = x.X
			continue
		case *ssa.Extract:
			if ta, ok := x.Tuple.(*ssa.TypeAssert); ok && x.Index == 0 {
				v = ta.X
				continue
			}
		}
		break
	}
	if ex, ok := v.(*ssa.Extract); ok && ex.Index == 0 {
		if call, ok := ex.Tuple.(*ssa.Call); ok && fetchSiteKind(call) != "" {
			return true, "the block just loaded by " + fetchSiteKind(call) + " in " + core.FuncName(fn)
		}
	}
	p, ok := v.(*ssa.Parameter)
	if !ok || p.Parent() != fn {
		return false, fmt.Sprintf("a derived value (%T at %s), not a parameter of %s", v, c.P.Pos(posOf(v)), core.FuncName(fn))
	}
	idx := -1
	for i, q := range fn.Params {
		if q == p {
			idx = i
		}
	}
	n := 0
	for _, e := range c.G.In[fn] {
		call, isCall := e.Site.(ssa.CallInstruction)
		if !isCall || call.Common().StaticCallee() != fn {
			continue // dynamic (table) call: the dispatcher is checked through its own static callees below
		}
		if _, isRepo := c.P.PkgOf(e.Caller); !isRepo {
			continue
		}
		if rel, _ := c.P.PkgOf(e.Caller); !core.ReaderPkgs[rel] {
			continue
		}
		n++
		ok2, why := c.isSubstrateParam(e.Caller, call.Common().Args[idx], depth+1)
		if !ok2 {
			return false, fmt.Sprintf("caller %s passes %s", core.FuncName(e.Caller), why)
		}
	}
	return true, fmt.Sprintf("parameter %s of %s, passed unchanged by %d static caller(s)", p.Name(), core.FuncName(fn), n)
}

// checkDispatchTotality implements R14.5: the reifier entry points and what they reach inside the root package contain no
// undischarged may-panic site.
func (c *Ctx) checkDispatchTotality() {
	r := c.R
	reg, _ := c.reifierRegistry()
	seen := map[*ssa.Function]bool{}
	var queue []*ssa.Function
	for _, f := range reg {
		if f != nil && !seen[f] {
			seen[f] = true
			queue = append(queue, f)
		}
	}
	// everything the lazy reifier reaches in the reader packages belongs to "reifying": the constructors of the table
	// members, their validators and the UnixFS decoder (the preload reifier additionally reaches the consuming operations,
	// which are C13's subject)
	lazyReach := map[*ssa.Function]bool{}
	if lf := reg["unixfs"]; lf != nil {
		lr, _ := c.G.Reach(lf)
		for f := range lr {
			if rel, ok := c.P.PkgOf(f); ok && core.ReaderPkgs[rel] && c.P.HandWritten(f) && f.Synthetic == "" {
				lazyReach[f] = true
			}
		}
	}
	for f := range lazyReach {
		seen[f] = true
	}
	for len(queue) > 0 {
		f := queue[0]
		queue = queue[1:]
		for _, e := range c.G.Out[f] {
			if rel, ok := c.P.PkgOf(e.Callee); ok && rel == "" && !seen[e.Callee] {
				seen[e.Callee] = true
				queue = append(queue, e.Callee)
			}
		}
		// the unspecialised dispatcher is not an Out-edge of callers that pass constants: add static callees too
		for _, ci := range core.CallsIn(f) {
			if g := ci.Common().StaticCallee(); g != nil {
				if rel, ok := c.P.PkgOf(g); ok && rel == "" && !seen[g] {
					seen[g] = true
					queue = append(queue, g)
				}
			}
		}
	}
	d := newDischarger(c)
	n, nsites := 0, 0
	for _, fn := range core.SortedFuncs(seen) {
		if fn.Synthetic != "" {
			continue
		}
		n++
		for _, s := range c.enumeratePanicSites(fn) {
			if s.kind == "qp-entry" || s.kind == "panic" {
				continue
			}
			nsites++
			ok, how := d.discharge(s)
			key := "totality:" + c.siteKey(s)
			r.Check(ok, "R14.5", key, c.P.Pos(s.ins.Pos()), s.desc+": "+how, s.desc+" in the reification dispatch may panic instead of returning an error: "+how)
		}
	}
	r.Analysed["dispatch_functions"] = n
	r.Floor("R14.5/functions", n, 4)
	_ = nsites
}

// unixfsFailureFacts: the reasons ("no-data": the Data field is absent, "decode-failed": the UnixFS decoder returned an
// error) established on every path to block blk of fn — tested in fn itself, or in a comma-ok helper of the repository
// whose constant-false result fn branches on.
func (c *Ctx) unixfsFailureFacts(fn *ssa.Function, blk *ssa.BasicBlock, depth int) map[string]bool {
	facts := map[string]bool{}
	if core.GuardedBy(blk, func(cond ssa.Value) (bool, bool) {
		neg := false
		if u, ok := cond.(*ssa.UnOp); ok && u.Op == token.NOT {
			cond, neg = u.X, true
		}
		if c.existsCond2(cond) == "Data" {
			return neg, true
		}
		return false, false
	}) {
		facts["no-data"] = true
	}
	for _, ci := range core.CallsIn(fn) {
		call, ok := ci.(*ssa.Call)
		if !ok || call.Call.StaticCallee() == nil {
			continue
		}
		callee := call.Call.StaticCallee()
		if strings.HasPrefix(callee.Name(), "Decode") {
			if ev := extractOf(call, 1); ev != nil && core.GuardedBy(blk, func(cond ssa.Value) (bool, bool) {
				x, trueMeansNil, ok := core.NilCmp(cond)
				if !ok || x != ev {
					return false, false
				}
				return !trueMeansNil, true
			}) {
				facts["decode-failed"] = true
			}
			continue
		}
		// comma-ok helper
		if _, isRepo := c.P.PkgOf(callee); !isRepo || depth > 1 || len(callee.Blocks) == 0 {
			continue
		}
		res := callee.Signature.Results()
		if res.Len() < 2 || !isBasic(res.At(res.Len()-1).Type(), types.Bool) {
			continue
		}
		okv := extractOf(call, res.Len()-1)
		if okv == nil {
			continue
		}
		if !core.GuardedBy(blk, func(cond ssa.Value) (bool, bool) {
			if cond == okv {
				return false, true
			}
			if u, ok := cond.(*ssa.UnOp); ok && u.Op == token.NOT && u.X == okv {
				return true, true
			}
			return false, false
		}) {
			continue
		}
		for _, ret := range core.Returns(callee) {
			rr := core.ResolvedResults(ret)
			if cst, isC := rr[res.Len()-1].(*ssa.Const); isC && cst.Value != nil && cst.Value.Kind() == constant.Bool && !constant.BoolVal(cst.Value) {
				for f := range c.unixfsFailureFacts(callee, ret.Block(), depth+1) {
					facts[f] = true
				}
			}
		}
	}
	return facts
}

// checkReaderErrors implements R14.8: error discipline of the reader packages. Every error produced by a call made in a
// hand-written reader-package function that itself has an error result reaches that result on every path (path-sensitive
// propagation analysis shared with R12.1/D4) — a dropped check leaves the function working on zero values of a malformed
// or unavailable node. The deliberate fall-backs of the tree are recognised by shape, not by name: an error is *replaced
// by an alternative computation* when, on the path where it is non-nil or untested, the function returns the results of
// another repository call with an error result (`return s.lengthFromLinks()`), or goes on to a later call whose error it
// does return.
func (c *Ctx) checkReaderErrors() {
	r := c.R
	r.Rule("R14.8", "reader-package error discipline: in every hand-written reader-package function with an error result, the error of each call reaches the function's error result on every path, or is replaced by an alternative whose own error is returned (fall-back); io.EOF compared explicitly counts as handled")
	n := 0
	for _, fn := range c.G.Funcs() {
		rel, ok := c.P.PkgOf(fn)
		if !ok || !core.ReaderPkgs[rel] || fn.Synthetic != "" || c.P.IsGenerated(fn.Pos()) || core.ErrResultIndex(fn.Signature) < 0 || len(fn.Blocks) == 0 {
			continue
		}
		errIdx := core.ErrResultIndex(fn.Signature)
		ord := map[string]int{}
		for _, ci := range core.CallsIn(fn) {
			call, ok := ci.(*ssa.Call)
			if !ok || core.ErrResultIndex(call.Call.Signature()) < 0 {
				continue
			}
			// in-memory assembly of a value the function itself chose (NodeBuilder / NodeAssembler / MapAssembler /
			// ListAssembler methods) cannot fail on well-typed input and is outside this rule, as in D4
			if call.Call.IsInvoke() {
				if nn, ok := types.Unalias(call.Call.Value.Type()).(*types.Named); ok {
					switch nn.Obj().Name() {
					case "NodeBuilder", "NodeAssembler", "MapAssembler", "ListAssembler":
						continue
					}
				}
			}
			// a callee that cannot fail (a typed-node accessor whose every return carries the nil error) owes nothing
			if h := call.Call.StaticCallee(); h != nil && len(h.Blocks) > 0 {
				hi := core.ErrResultIndex(h.Signature)
				never := hi >= 0
				for _, ret := range core.Returns(h) {
					if hi < 0 || hi >= len(ret.Results) || !core.IsNilConst(core.ResolvedResults(ret)[hi]) {
						never = false
					}
				}
				if never {
					continue
				}
			}
			name := core.CalleeName(call)
			ord[name]++
			n++
			key := fmt.Sprintf("%s/err:%s#%d", core.FuncName(fn), shorten(strings.ReplaceAll(name, core.Module+"/", "")), ord[name])
			probs, _, complete := core.CheckErrPropagatedOpt(fn, call, true)
			if !complete {
				r.Undecided("R14.8", key, c.P.Pos(call.Pos()), "path enumeration exceeded its bound")
				continue
			}
			var ss []string
			for _, p := range probs {
				// fall-back: the offending return forwards another call's (value, error) pair, or returns the error of a later call
				fallback := false
				for _, ret := range core.Returns(fn) {
					// only an error that was looked at can be deliberately replaced
					if !strings.Contains(p.What, "known to be non-nil") {
						break
					}
					if ret.Pos() != p.Pos {
						continue
					}
					ev := core.ResolvedResults(ret)[errIdx]
					var later func(v ssa.Value, d int) bool
					later = func(v ssa.Value, d int) bool {
						if d > 4 {
							return false
						}
						switch x := v.(type) {
						case *ssa.Extract:
							oc, ok := x.Tuple.(*ssa.Call)
							return ok && oc != call && oc.Pos() > call.Pos()
						case *ssa.Call:
							return x != call && x.Pos() > call.Pos()
						case *ssa.Phi:
							// the shared `err` variable after several later calls
							for _, e := range x.Edges {
								if !later(e, d+1) {
									return false
								}
							}
							return len(x.Edges) > 0
						}
						return false
					}
					if later(ev, 0) {
						fallback = true
					}
				}
				if !fallback {
					ss = append(ss, fmt.Sprintf("%s [return at %s]", p.What, c.P.Pos(p.Pos)))
				}
			}
			r.Check(len(ss) == 0, "R14.8", key, c.P.Pos(call.Pos()), "error propagated or replaced by a fall-back", "an error is dropped: "+uniqJoin(ss))
		}
	}
	r.Floor("R14.8", n, 40)
}

// checkTableConstructorAgree implements R14.9: a constructor does not refuse the data type the table routes to it. For
// every (type K -> constructor F) entry of the two reifier tables: in F and the reader-package functions it calls
// statically (depth 4), a comparison of the node's DataType with a constant C whose one edge ends in an error return must
// not reject K: `DataType != C` rejecting with K != C, or `DataType == C` rejecting with K == C, contradicts the table.
func (c *Ctx) checkTableConstructorAgree(tables map[string][]core.TableEntry, byVal map[int64]string) {
	r := c.R
	r.Rule("R14.9", "table and constructor agree on the data type: no function reached from the table entry of type K rejects (error return) on a DataType comparison that is true for K")
	n := 0
	rejects := func(b *ssa.BasicBlock) bool {
		// the block (or the blocks it alone dominates, shallowly) returns a certainly non-nil error
		for d, cur := 0, b; d < 3 && cur != nil; d++ {
			if len(cur.Instrs) == 0 {
				return false
			}
			if ret, ok := cur.Instrs[len(cur.Instrs)-1].(*ssa.Return); ok {
				fn := cur.Parent()
				ei := core.ErrResultIndex(fn.Signature)
				return ei >= 0 && core.ErrKnownNonNil(core.ResolvedResults(ret)[ei], nil)
			}
			if len(cur.Succs) != 1 {
				return false
			}
			cur = cur.Succs[0]
		}
		return false
	}
	var names []string
	for tn := range tables {
		names = append(names, tn)
	}
	sort.Strings(names)
	seenPair := map[string]bool{}
	for _, tn := range names {
		for _, e := range tables[tn] {
			if e.Fn == nil || e.Key == nil {
				continue
			}
			k, ok := constant.Int64Val(e.Key)
			if !ok {
				continue
			}
			pair := fmt.Sprintf("%d/%s", k, core.FuncName(e.Fn))
			if seenPair[pair] {
				continue
			}
			seenPair[pair] = true
			// functions reached
			reach := map[*ssa.Function]int{e.Fn: 0}
			queue := []*ssa.Function{e.Fn}
			for len(queue) > 0 {
				f := queue[0]
				queue = queue[1:]
				if reach[f] >= 4 {
					continue
				}
				for _, oe := range c.G.Out[f] {
					if oe.Kind != "static" {
						continue
					}
					if rel, ok := c.P.PkgOf(oe.Callee); !ok || !core.ReaderPkgs[rel] {
						continue
					}
					if _, seen := reach[oe.Callee]; !seen {
						reach[oe.Callee] = reach[f] + 1
						queue = append(queue, oe.Callee)
					}
				}
			}
			var bad []string
			ncmp := 0
			for f := range reach {
				for _, b := range f.Blocks {
					iff := core.BlockIf(b)
					if iff == nil || len(b.Succs) != 2 {
						continue
					}
					bo, ok := iff.Cond.(*ssa.BinOp)
					if !ok || (bo.Op != token.EQL && bo.Op != token.NEQ) {
						continue
					}
					var cv int64
					var isDT bool
					if kk, isK := core.ConstInt(bo.Y); isK && strings.Contains(c.accessPath(bo.X, 0), "DataType") {
						cv, isDT = kk, true
					} else if kk, isK := core.ConstInt(bo.X); isK && strings.Contains(c.accessPath(bo.Y, 0), "DataType") {
						cv, isDT = kk, true
					}
					if !isDT {
						continue
					}
					ncmp++
					// the edge on which DataType == K
					kEdge := 1 // false edge
					if (bo.Op == token.EQL) == (cv == k) {
						kEdge = 0
					}
					if rejects(b.Succs[kEdge]) {
						tname := byVal[k]
						if tname == "" {
							tname = fmt.Sprint(k)
						}
						bad = append(bad, fmt.Sprintf("%s refuses %s at %s although the table routes that type to %s", core.FuncName(f), tname, c.P.Pos(bo.Pos()), core.FuncName(e.Fn)))
					}
				}
			}
			n++
			tname := byVal[k]
			if tname == "" {
				tname = fmt.Sprint(k)
			}
			r.Check(len(bad) == 0, "R14.9", fmt.Sprintf("table-vs-constructor[%s->%s]", tname, core.FuncName(e.Fn)), c.P.Pos(e.Pos), fmt.Sprintf("%d DataType comparison(s) on the way, none refuses %s", ncmp, tname), uniqJoin(bad))
		}
	}
	r.Floor("R14.9", n, 6)
}
