// Package rules holds one file per claimed property; each emits obligations into a core.Report.
package rules

import (
	"go/types"
	"golang.org/x/tools/go/ssa"

	"verifchk/internal/core"
)

// Ctx is what a rule sees.
type Ctx struct {
	P    *core.Program
	G    *core.Graph
	R    *core.Report
	Tier string

	lookupPath map[*ssa.Function]bool
	drainMemo  map[*ssa.Function][]int
	accBind    map[*ssa.Parameter]ssa.Value
	mutTypes   map[*types.Named]bool
	fwdMemo    map[*ssa.Function]*fwdInfo
}

// RuleFunc runs all rules of one property.
type RuleFunc func(c *Ctx)

// Registry maps property id to its rule set.
var Registry = map[string]RuleFunc{}

// CommonTrusted is echoed into every evidence file.
var CommonTrusted = []string{
	"go/types, go/ssa, go/packages from golang.org/x/tools v0.29.0 and the Go spec's evaluation order",
	"A1: the substrate / a decoded child block handed to a UnixFS ADL is a plain codec node, not another UnixFS ADL (LinkSystem.NodeReifier is not globally set to Reify); invokes on go-ipld-prime/dag-pb data-model interfaces therefore add no call edges",
	"closed-world call graph over repository functions; external callees are opaque but assumed to call back every function value and every non-ipld interface method they are handed",
}
