package rules

import (
	"fmt"
	"go/ast"
	"go/constant"
	"go/token"
	"go/types"
	"sort"
	"strings"

	"golang.org/x/tools/go/ssa"

	"verifchk/internal/core"
)

func init() { Registry["C19"] = c19 }

// symbolic string atoms
type satom struct {
	kind string // lit | val | name | other
	text string // literal text / access path / description
	call *ssa.Call
	// where the atom's value is consumed in the function that produced it (for guard checks)
	useFn    *ssa.Function
	useBlock *ssa.BasicBlock
	// where the name is generated from the point of view of the function that consumes it (the namegen call itself, or
	// the call of the repository helper that returns it)
	genFn    *ssa.Function
	genBlock *ssa.BasicBlock
}

type sstr []satom

func (s sstr) String() string {
	var parts []string
	for _, a := range s {
		switch a.kind {
		case "lit":
			parts = append(parts, fmt.Sprintf("%q", a.text))
		case "val":
			parts = append(parts, "<"+a.text+">")
		case "name":
			parts = append(parts, "<random-name>")
		default:
			parts = append(parts, "<"+a.text+">")
		}
	}
	if len(parts) == 0 {
		return `""`
	}
	return strings.Join(parts, " + ")
}

func normalise(s sstr) sstr {
	var out sstr
	for _, a := range s {
		if a.kind == "lit" {
			if a.text == "" {
				continue
			}
			if n := len(out); n > 0 && out[n-1].kind == "lit" {
				out[n-1].text += a.text
				continue
			}
		}
		out = append(out, a)
	}
	return out
}

const namegenPath = core.Module + "/testutil/namegen"

// varPath names a variable uniformly inside a closure (free variable) and in its parent (captured cell).
func (c *Ctx) varPath(v ssa.Value, depth int) string {
	if depth > 8 {
		return "?"
	}
	switch x := v.(type) {
	case *ssa.FreeVar:
		return "var:" + x.Name()
	case *ssa.Alloc:
		if x.Comment != "" {
			return "var:" + x.Comment
		}
	case *ssa.Parameter:
		return "var:" + x.Name()
	case *ssa.Phi:
		if x.Comment != "" {
			return "var:" + x.Comment
		}
	case *ssa.UnOp:
		if x.Op == token.MUL {
			return c.varPath(x.X, depth+1)
		}
	case *ssa.FieldAddr:
		if _, fv, ok := core.FieldAddrOf(x); ok {
			return c.varPath(x.X, depth+1) + "." + fv.Name()
		}
	}
	return "val@" + v.Name()
}

// symEval evaluates a string-typed SSA value to alternatives of atom sequences.
func (c *Ctx) symEval(fn *ssa.Function, v ssa.Value, useBlock *ssa.BasicBlock, seen map[ssa.Value]bool, depth int) []sstr {
	if depth > 14 {
		return []sstr{{satom{kind: "other", text: "too-deep"}}}
	}
	switch x := v.(type) {
	case *ssa.Const:
		if x.Value != nil && x.Value.Kind() == constant.String {
			return []sstr{{satom{kind: "lit", text: constant.StringVal(x.Value)}}}
		}
	case *ssa.BinOp:
		if x.Op == token.ADD {
			ls := c.symEval(fn, x.X, useBlock, seen, depth+1)
			rs := c.symEval(fn, x.Y, useBlock, seen, depth+1)
			var out []sstr
			for _, l := range ls {
				for _, r := range rs {
					out = append(out, append(append(sstr{}, l...), r...))
				}
			}
			return out
		}
	case *ssa.Extract:
		if call, ok := x.Tuple.(*ssa.Call); ok && x.Index == 0 {
			if f := call.Call.StaticCallee(); f != nil && f.Pkg != nil && f.Pkg.Pkg.Path() == namegenPath && strings.HasPrefix(f.Name(), "Random") {
				return []sstr{{satom{kind: "name", text: f.Name(), call: call, useFn: fn, useBlock: useBlock, genFn: fn, genBlock: call.Block()}}}
			}
			// the generator is a function-typed parameter of this helper/closure: bound at its call sites
			if gp, isParam := call.Call.Value.(*ssa.Parameter); isParam && gp.Parent() == fn {
				idx := -1
				for i, p := range fn.Params {
					if p == gp {
						idx = i
					}
				}
				var out []sstr
				all := idx >= 0
				for _, e := range c.G.In[fn] {
					cs, ok := e.Site.(ssa.CallInstruction)
					if !ok || e.Kind == "closure" || e.Kind == "inlined-const" || e.Kind == "inlined-table" {
						continue
					}
					if idx >= len(cs.Common().Args) {
						all = false
						continue
					}
					gf, _ := cs.Common().Args[idx].(*ssa.Function)
					if gf == nil || gf.Pkg == nil || gf.Pkg.Pkg.Path() != namegenPath || !strings.HasPrefix(gf.Name(), "Random") {
						all = false
						continue
					}
					out = append(out, sstr{satom{kind: "name", text: gf.Name(), call: call, useFn: fn, useBlock: useBlock, genFn: fn, genBlock: call.Block()}})
				}
				if all && len(out) > 0 {
					return out
				}
			}
			// a fixture helper that returns a generated name: its successful returns, evaluated in the helper
			if h := call.Call.StaticCallee(); h != nil && len(h.Blocks) > 0 && depth < 10 {
				if rel, ok := c.P.PkgOf(h); ok && rel == "testutil" && isBasic(h.Signature.Results().At(0).Type(), types.String) {
					errIdx := core.ErrResultIndex(h.Signature)
					var out []sstr
					for _, ret := range core.Returns(h) {
						rr := core.ResolvedResults(ret)
						if errIdx >= 0 && !core.IsNilConst(rr[errIdx]) {
							continue
						}
						for _, alt := range c.symEval(h, rr[0], ret.Block(), map[ssa.Value]bool{}, depth+1) {
							for i := range alt {
								if alt[i].kind == "name" {
									alt[i].genFn, alt[i].genBlock = fn, call.Block()
								}
							}
							out = append(out, alt)
						}
					}
					if len(out) > 0 {
						return out
					}
				}
			}
		}
	case *ssa.Phi:
		if seen[x] {
			return nil
		}
		seen[x] = true
		var out []sstr
		for _, e := range x.Edges {
			out = append(out, c.symEval(fn, e, useBlock, seen, depth+1)...)
		}
		return out
	case *ssa.Parameter:
		// closure parameter, or parameter of an unexported fixture helper: bind from the call sites
		if (fn.Parent() != nil || c.isFixtureHelper(fn)) && x.Parent() == fn {
			idx := -1
			for i, p := range fn.Params {
				if p == x {
					idx = i
				}
			}
			var out []sstr
			nsites := 0
			for _, e := range c.G.In[fn] {
				call, ok := e.Site.(ssa.CallInstruction)
				if !ok || e.Kind == "closure" || e.Kind == "inlined-const" || e.Kind == "inlined-table" {
					continue
				}
				args := call.Common().Args
				if idx >= len(args) {
					continue
				}
				nsites++
				out = append(out, c.symEval(e.Caller, args[idx], e.Site.Block(), map[ssa.Value]bool{}, depth+1)...)
			}
			if nsites > 0 {
				return out
			}
		}
		return []sstr{{satom{kind: "val", text: c.varPath(x, 0)}}}
	case *ssa.UnOp:
		if x.Op == token.MUL {
			// load of a local string cell assigned in this function (var name string; name, err = …)
			if al, ok := x.X.(*ssa.Alloc); ok && al.Comment != "" && !strings.Contains(c.varPath(al, 0), ".") {
				var out []sstr
				n := 0
				for _, ref := range *al.Referrers() {
					if st, ok := ref.(*ssa.Store); ok && st.Addr == ssa.Value(al) {
						n++
						out = append(out, c.symEval(fn, st.Val, useBlock, seen, depth+1)...)
					}
				}
				if n > 0 {
					return out
				}
			}
			return []sstr{{satom{kind: "val", text: c.varPath(x, 0)}}}
		}
	case *ssa.Call:
		// a fixture helper / local closure with a single string result that returns a generated name
		if h := x.Call.StaticCallee(); h != nil && len(h.Blocks) > 0 && depth < 10 && h.Signature.Results().Len() == 1 && isBasic(h.Signature.Results().At(0).Type(), types.String) {
			if rel, ok := c.P.PkgOf(h); ok && rel == "testutil" {
				var out []sstr
				for _, ret := range core.Returns(h) {
					rr := core.ResolvedResults(ret)
					for _, alt := range c.symEval(h, rr[0], ret.Block(), map[ssa.Value]bool{}, depth+1) {
						for i := range alt {
							if alt[i].kind == "name" {
								alt[i].genFn, alt[i].genBlock = fn, x.Block()
							}
						}
						out = append(out, alt)
					}
				}
				hasName := false
				for _, alt := range out {
					for _, a := range alt {
						if a.kind == "name" {
							hasName = true
						}
					}
				}
				if hasName {
					return out
				}
			}
		}
		return []sstr{{satom{kind: "other", text: "result of " + shorten(strings.ReplaceAll(core.CalleeName(x), core.Module+"/", ""))}}}
	}
	return []sstr{{satom{kind: "other", text: fmt.Sprintf("%T", v)}}}
}

func isDirEntryPathStore(st *ssa.Store) bool {
	_, fv, ok := core.FieldAddrOf(st.Addr)
	if !ok || fv.Name() != "Path" {
		return false
	}
	n, _ := structOf(st.Addr.(*ssa.FieldAddr).X.Type())
	return n != nil && n.Obj().Name() == "DirEntry"
}

func c19(c *Ctx) {
	r := c.R
	r.Explain = "C19 (fixture generators describe what they stored): decides by symbolic evaluation of string expressions in the exported generators of package testutil (G1) that every entry path is the generating directory's own path, or that path + \"/\" + a freshly generated name, or — for WrapContent, whose wrapping directories have the empty path — a bare name; that child directories are generated under exactly such a path; and that packDirectory names each link by the last \"/\"-segment of the child's path; (G2) that every generated name passes the sibling-uniqueness test against the list it joins before it is used, is used for one child only, and comes from a word list without empty words or \"/\"; (G3) that each returned entry carries root and size of the very build call that stored it. Plus R9.7 (no never-assigned local read). Not decided: equality with a read-back of the DAG."
	r.Rule("G1", "path shape: symbolic value of every store to DirEntry.Path, of every WithDirname argument and of every directory-path argument of a recursive generator call is \"\" (root/default), D (own path), D + \"/\" + N (child), or a bare non-empty name; packDirectory takes the link name after the last \"/\"")
	r.Rule("G2", "uniqueness: every name N used in a child path was produced under a retry loop whose exit is guarded by !isDupe(children, N); a name is consumed outside any cycle that does not regenerate it; namegen's word data contains no \"/\" and is split with strings.Fields (no empty word)")
	r.Rule("G4", "a children slice handed to a directory packer inside a loop is allocated in that iteration: the packers keep the slice as the returned entry's Children, so a scratch slice reset with s = s[:0] and reused makes earlier descriptions alias later ones")
	r.Rule("G3", "pairing: Root and TSize of every DirEntry literal come from the same builder call; every link built for a child uses that child's TSize and Root")
	r.Rule("R9.7", "no local declared without initialiser, never assigned, and read in a guard or operator")

	tp := c.P.Repo[core.Module+"/testutil"]
	if tp == nil {
		r.Break("package testutil not loaded")
		return
	}
	// ---- G1 on Path stores
	nstore := 0
	type use struct {
		fn  *ssa.Function
		pos token.Pos
		s   sstr
		key string
	}
	var childUses []use
	ord := map[string]int{}
	for _, fn := range c.G.Funcs() {
		rel, ok := c.P.PkgOf(fn)
		if !ok || rel != "testutil" {
			continue
		}
		outer := c.generatorOf(fn, 0)
		// D of the generator: symbolic value stored to Path of an entry in the outermost function that is a single val atom
		for _, b := range fn.Blocks {
			for _, ins := range b.Instrs {
				switch x := ins.(type) {
				case *ssa.Store:
					if !isDirEntryPathStore(x) {
						continue
					}
					nstore++
					ord[core.FuncName(fn)]++
					key := fmt.Sprintf("%s/Path-store#%d", core.FuncName(fn), ord[core.FuncName(fn)])
					alts := c.symEval(fn, x.Val, b, map[ssa.Value]bool{}, 0)
					for _, a := range alts {
						a = normalise(a)
						ok, why, child := c.pathShape(outer, a)
						r.Check(ok, "G1", key, c.P.Pos(x.Pos()), a.String()+": "+why, "entry path "+a.String()+" "+why)
						if child {
							childUses = append(childUses, use{fn, x.Pos(), a, key})
						}
						key += "'"
					}
				case *ssa.Call:
					f := x.Call.StaticCallee()
					if f == nil {
						continue
					}
					frel, isRepo := c.P.PkgOf(f)
					if !isRepo || frel != "testutil" {
						continue
					}
					// WithDirname(X) or a generator call with a string directory-path parameter named dir/dirname
					for i := 0; i < f.Signature.Params().Len(); i++ {
						p := f.Signature.Params().At(i)
						if !isBasic(p.Type(), types.String) || !(f.Name() == "WithDirname" || p.Name() == "dir" || p.Name() == "dirname") {
							continue
						}
						ord[core.FuncName(fn)+"/dir"]++
						key := fmt.Sprintf("%s/dir-arg:%s#%d", core.FuncName(fn), f.Name(), ord[core.FuncName(fn)+"/dir"])
						for _, a := range c.symEval(fn, x.Call.Args[i], b, map[ssa.Value]bool{}, 0) {
							a = normalise(a)
							ok, why, child := c.pathShape(outer, a)
							if ok && !child && len(a) > 0 && !(len(a) == 1 && a[0].kind == "val") {
								ok, why = false, "is neither the root path nor parent path + \"/\" + name"
							}
							r.Check(ok, "G1", key, c.P.Pos(x.Pos()), "directory generated under "+a.String()+": "+why, "directory generated under "+a.String()+" "+why)
							if child {
								childUses = append(childUses, use{fn, x.Pos(), a, key})
							}
							key += "'"
						}
					}
				}
			}
		}
	}
	r.Floor("G1", nstore, 9)
	c.checkPackDirectoryNaming()

	// ---- G2
	n2 := 0
	for _, u := range childUses {
		var nm *satom
		for i := range u.s {
			if u.s[i].kind == "name" {
				nm = &u.s[i]
			}
		}
		if nm == nil {
			continue
		}
		n2++
		key := u.key + "/unique"
		var bad []string
		// guard: !isDupe(children, N) dominates the point where N leaves its producing function
		nv := extractOf(nm.call, 0)
		guarded := false
		for _, ci := range core.CallsIn(nm.useFn) {
			call, ok := ci.(*ssa.Call)
			if !ok || !isDupePredicate(call.Call.StaticCallee()) || call.Call.Args[1] != nv {
				continue
			}
			if sl, ok := call.Call.Args[0].Type().Underlying().(*types.Slice); !ok || !strings.Contains(types.TypeString(sl.Elem(), nil), "DirEntry") {
				continue
			}
			if core.GuardedBy(nm.useBlock, func(cond ssa.Value) (bool, bool) {
				if cond == ssa.Value(call) {
					return false, true
				}
				if un, ok := cond.(*ssa.UnOp); ok && un.Op == token.NOT && un.X == ssa.Value(call) {
					return true, true
				}
				return false, false
			}) {
				guarded = true
			}
		}
		if !guarded {
			bad = append(bad, "the name is used without passing !isDupe(children, name)")
		}
		// single use: the consuming statement is not inside a cycle that does not regenerate the name
		var consBlock *ssa.BasicBlock
		for _, b := range u.fn.Blocks {
			for _, ins := range b.Instrs {
				if ins.Pos() == u.pos {
					consBlock = b
				}
			}
		}
		if consBlock != nil && core.InCycle(consBlock) {
			if u.fn != nm.genFn || !sameCycle(consBlock, nm.genBlock) {
				bad = append(bad, "the name is consumed inside a loop that does not generate a new name: several children can receive the same name")
			}
		}
		r.Check(len(bad) == 0, "G2", key, c.P.Pos(u.pos), "name is unique among its siblings and used once", strings.Join(bad, "; "))
	}
	r.Floor("G2", n2, 3)
	c.checkWordList()
	c.checkDupePredicate()

	// ---- G3
	c.checkEntryPairing()
	c.checkNoChildrenReuse()
	c.checkOwnOptionsLast()
	c.checkNoChildSkipped()

	// ---- R9.7
	dead := core.NeverAssignedLocals(tp, func(fd *ast.FuncDecl) bool { return true })
	seenVar := map[*types.Var]bool{}
	for _, d := range dead {
		if seenVar[d.Var] {
			continue
		}
		seenVar[d.Var] = true
		r.Violate("R9.7", fmt.Sprintf("testutil.%s/local:%s", d.Func, d.Var.Name()), c.P.Pos(d.Use), fmt.Sprintf("local %s is declared without initialiser and never assigned, yet read as %s (it shadows nothing useful: its value is always the zero value)", d.Var.Name(), d.How))
	}
	if len(dead) == 0 {
		r.OK("R9.7", "testutil/*", "-", "no never-assigned local is read in a guard or operator")
	}
	c.controlDeadLocal()
}

func sameCycle(a, b *ssa.BasicBlock) bool {
	return a == b || (blockReaches(a, b) && blockReaches(b, a))
}

// isFixtureHelper: an unexported package-level function of testutil all of whose callers call it statically.
func (c *Ctx) isFixtureHelper(fn *ssa.Function) bool {
	if fn == nil || fn.Parent() != nil || fn.Signature.Recv() != nil || fn.Object() == nil || fn.Object().Exported() {
		return false
	}
	if rel, ok := c.P.PkgOf(fn); !ok || rel != "testutil" {
		return false
	}
	n := 0
	for _, e := range c.G.In[fn] {
		cs, ok := e.Site.(ssa.CallInstruction)
		if !ok || cs.Common().StaticCallee() != fn {
			return false
		}
		n++
	}
	return n > 0
}

// generatorOf: the function whose own path a store in fn is relative to: fn's outermost enclosing function, or — for a
// fixture helper — the generator all of its callers belong to.
func (c *Ctx) generatorOf(fn *ssa.Function, depth int) *ssa.Function {
	outer := fn
	for outer.Parent() != nil {
		outer = outer.Parent()
	}
	if depth > 3 || !c.isFixtureHelper(outer) {
		return outer
	}
	var g *ssa.Function
	for _, e := range c.G.In[outer] {
		o := c.generatorOf(e.Caller, depth+1)
		if g != nil && o != g {
			return outer
		}
		g = o
	}
	if g == nil {
		return outer
	}
	return g
}

// ownPath returns the symbolic value a generator stores as its own directory path: the single-`val` Path store of the outer function.
func (c *Ctx) ownPath(outer *ssa.Function) string {
	for _, b := range outer.Blocks {
		for _, ins := range b.Instrs {
			if st, ok := ins.(*ssa.Store); ok && isDirEntryPathStore(st) {
				for _, a := range c.symEval(outer, st.Val, b, map[ssa.Value]bool{}, 0) {
					a = normalise(a)
					if len(a) == 1 && a[0].kind == "val" {
						return a[0].text
					}
				}
			}
		}
	}
	return ""
}

// pathShape classifies a symbolic path. child=true when it is D + "/" + N.
func (c *Ctx) pathShape(outer *ssa.Function, a sstr) (ok bool, why string, child bool) {
	D := c.ownPath(outer)
	switch {
	case len(a) == 0:
		return true, "root / default path (set by the caller)", false
	case len(a) == 1 && a[0].kind == "val":
		if D == "" || a[0].text == D {
			return true, "the directory's own path", false
		}
		return false, "is not the generating directory's path <" + D + ">", false
	case len(a) == 1 && a[0].kind == "lit":
		if strings.Contains(a[0].text, "/") {
			return false, "is a literal containing \"/\"", false
		}
		if D != "" {
			return false, "is a bare name although the directory has path <" + D + ">", false
		}
		return true, "bare name under a root-path directory", false
	case len(a) == 1 && (a[0].kind == "other" || a[0].kind == "name"):
		if D != "" {
			return false, "is a bare name although the directory has path <" + D + ">", false
		}
		return true, "bare name under a root-path directory", false
	case len(a) == 3 && a[0].kind == "val" && a[1].kind == "lit" && a[1].text == "/" && a[2].kind == "name":
		if D != "" && a[0].text != D {
			return false, "is rooted at <" + a[0].text + "> instead of the generating directory's path <" + D + ">", false
		}
		return true, "parent path + \"/\" + generated name", true
	}
	// diagnose the common failures
	if n := len(a); n >= 2 && a[n-1].kind == "lit" && strings.HasSuffix(a[n-1].text, "/") {
		return false, "ends in \"/\": the name component is empty", false
	}
	cnt := 0
	for _, x := range a {
		if x.kind == "val" {
			cnt++
		}
	}
	if cnt > 1 {
		return false, "contains the parent path more than once", false
	}
	return false, "is not parent path + \"/\" + generated name", false
}

// checkPackDirectoryNaming: the name handed to the entry constructor is the last element of strings.Split(child.Path, "/").
func (c *Ctx) checkPackDirectoryNaming() {
	r := c.R
	n := 0
	for _, fn := range c.G.Funcs() {
		rel, ok := c.P.PkgOf(fn)
		if !ok || rel != "testutil" {
			continue
		}
		for _, ci := range core.CallsIn(fn) {
			f := ci.Common().StaticCallee()
			if f == nil || f.Name() != "BuildUnixFSDirectoryEntry" {
				continue
			}
			n++
			key := core.FuncName(fn) + "/link-name"
			name := ci.Common().Args[0]
			// name = parts[len(parts)-1], parts = strings.Split(X.Path, "/")
			good := false
			if u, ok := name.(*ssa.UnOp); ok {
				if ia, ok := u.X.(*ssa.IndexAddr); ok {
					if idx, ok := ia.Index.(*ssa.BinOp); ok && idx.Op == token.SUB {
						if k, ok := core.ConstInt(idx.Y); ok && k == 1 {
							if lx, ok := lenOf(idx.X); ok && lx == ia.X {
								if sp, ok := ia.X.(*ssa.Call); ok && core.IsCallTo(sp, "strings", "Split") {
									if sep, ok := sp.Call.Args[1].(*ssa.Const); ok && sep.Value != nil && constant.StringVal(sep.Value) == "/" && strings.HasSuffix(c.varPath(sp.Call.Args[0], 0), ".Path") {
										good = true
									}
								}
							}
						}
					}
				}
			}
			r.Check(good, "G1", key, c.P.Pos(ci.Pos()), "link name = last \"/\"-segment of the child's Path", "link name is not the last \"/\"-segment of the child's Path")
		}
	}
	r.Floor("G1/link-name", n, 1)
}

func (c *Ctx) checkWordList() {
	r := c.R
	np := c.P.Repo[namegenPath]
	if np == nil {
		r.Break("package namegen not loaded")
		return
	}
	var bad []string
	nlit := 0
	for _, name := range np.Types.Scope().Names() {
		if k, ok := np.Types.Scope().Lookup(name).(*types.Const); ok && k.Val().Kind() == constant.String {
			nlit++
			if strings.Contains(constant.StringVal(k.Val()), "/") {
				bad = append(bad, "constant "+name+" contains \"/\"")
			}
		}
	}
	// string literals in the package's variable initialisers (extensions) and the splitter used
	fields := false
	if sp := c.P.SSA.Package(np.Types); sp != nil {
		if initFn := sp.Func("init"); initFn != nil {
			for _, b := range initFn.Blocks {
				for _, ins := range b.Instrs {
					if call, ok := ins.(*ssa.Call); ok && core.IsCallTo(call, "strings", "Fields") {
						fields = true
					}
					if st, ok := ins.(*ssa.Store); ok {
						if k, ok := st.Val.(*ssa.Const); ok && k.Value != nil && k.Value.Kind() == constant.String {
							nlit++
							if strings.Contains(constant.StringVal(k.Value), "/") {
								bad = append(bad, "a name fragment literal contains \"/\"")
							}
						}
					}
				}
			}
		}
	}
	if !fields {
		bad = append(bad, "the word list is not produced by strings.Fields (empty words possible)")
	}
	// every Random* returns words[i] (+ extension): non-empty because words are non-empty
	r.Check(len(bad) == 0, "G2", "namegen/word-data", "-", fmt.Sprintf("%d string literals: no \"/\"; words come from strings.Fields (never empty)", nlit), strings.Join(bad, "; "))
}

// checkEntryPairing implements G3.
func (c *Ctx) checkEntryPairing() {
	r := c.R
	n := 0
	for _, fn := range c.G.Funcs() {
		rel, ok := c.P.PkgOf(fn)
		if !ok || rel != "testutil" {
			continue
		}
		// DirEntry composite literals: allocations (or local cells) whose Root and TSize fields are stored
		type pair struct{ root, size, content ssa.Value }
		lits := map[ssa.Value]*pair{}
		var order []ssa.Value
		for _, b := range fn.Blocks {
			for _, ins := range b.Instrs {
				st, ok := ins.(*ssa.Store)
				if !ok {
					continue
				}
				base, fv, ok := core.FieldAddrOf(st.Addr)
				if !ok {
					continue
				}
				if nn, _ := structOf(st.Addr.(*ssa.FieldAddr).X.Type()); nn == nil || nn.Obj().Name() != "DirEntry" {
					continue
				}
				if lits[base] == nil {
					lits[base] = &pair{}
					order = append(order, base)
				}
				switch fv.Name() {
				case "Root":
					lits[base].root = st.Val
				case "TSize":
					lits[base].size = st.Val
				case "Content":
					lits[base].content = st.Val
				}
			}
		}
		k := 0
		for _, base := range order {
			p := lits[base]
			if p.size == nil {
				continue // no size claimed: not the description of a build result (e.g. the read-back walker)
			}
			n++
			k++
			key := fmt.Sprintf("%s/DirEntry-literal#%d", core.FuncName(fn), k)
			rc, sc := originCalls(p.root), originCalls(p.size)
			good := p.root != nil && p.size != nil && len(rc) > 0 && sameCallSets(rc, sc)
			var names []string
			for _, cl := range rc {
				names = append(names, calleeShort(cl))
			}
			sort.Strings(names)
			r.Check(good, "G3", key, c.P.Pos(base.Pos()), "Root and TSize both come from "+strings.Join(names, "|"), "Root and TSize of the returned entry do not come from the same build call")
			// Content: the bytes the file builder consumed — the buffer its reader tees into, or the slice its reader reads
			if p.content != nil && !core.IsNilConst(p.content) {
				for _, bc := range rc {
					var rdr ssa.Value
					for _, a := range bc.Call.Args {
						if strings.HasSuffix(types.TypeString(a.Type(), nil), "io.Reader") {
							rdr = a
						}
					}
					if rdr == nil {
						continue
					}
					for i := 0; i < 4; i++ {
						switch x := rdr.(type) {
						case *ssa.MakeInterface:
							rdr = x.X
						case *ssa.ChangeInterface:
							rdr = x.X
						}
					}
					rcall, ok := rdr.(*ssa.Call)
					if !ok {
						continue
					}
					ckey := fmt.Sprintf("%s/DirEntry-literal#%d/content", core.FuncName(fn), k)
					switch {
					case core.IsCallTo(rcall, "io", "TeeReader") && len(rcall.Call.Args) == 2:
						sink := rcall.Call.Args[1]
						if mi, ok := sink.(*ssa.MakeInterface); ok {
							sink = mi.X
						}
						cc, isCall := p.content.(*ssa.Call)
						okc := isCall && cc.Call.StaticCallee() != nil && cc.Call.StaticCallee().Name() == "Bytes" && len(cc.Call.Args) == 1 && cc.Call.Args[0] == sink
						n++
						r.Check(okc, "G3", ckey, c.P.Pos(base.Pos()), "Content is the buffer the builder's reader tees into", "Content is not the buffer that received the bytes handed to the file builder: the description can differ from what was stored")
					case core.IsCallTo(rcall, "bytes", "NewReader") && len(rcall.Call.Args) == 1:
						n++
						okc := resolveLocal(p.content) == resolveLocal(rcall.Call.Args[0])
						r.Check(okc, "G3", ckey, c.P.Pos(base.Pos()), "Content is the slice the builder's reader reads", "Content is a different slice from the one handed to the file builder: the description can differ from what was stored")
					}
				}
			}
		}
		// links built for children: size and root of the same child value
		for _, ci := range core.CallsIn(fn) {
			f := ci.Common().StaticCallee()
			if f == nil || f.Name() != "BuildUnixFSDirectoryEntry" {
				continue
			}
			n++
			key := core.FuncName(fn) + "/child-link-pairing"
			sizeP := c.varPath(core.Unconv(ci.Common().Args[1]), 0)
			linkP := linkRootPath(c, ci.Common().Args[2])
			good := strings.HasSuffix(sizeP, ".TSize") && strings.HasSuffix(linkP, ".Root") && strings.TrimSuffix(sizeP, ".TSize") == strings.TrimSuffix(linkP, ".Root")
			r.Check(good, "G3", key, c.P.Pos(ci.Pos()), "link carries TSize and Root of the same child ("+strings.TrimSuffix(sizeP, ".TSize")+")", "link is built from "+sizeP+" and "+linkP+": size and root of different values")
		}
	}
	r.Floor("G3", n, 3)
}

// originCalls: the builder calls whose results v derives from (through conversions, phis, type assertions, field reads of the result).
func originCalls(v ssa.Value) []*ssa.Call {
	seen := map[ssa.Value]bool{}
	var out []*ssa.Call
	var rec func(v ssa.Value, d int)
	rec = func(v ssa.Value, d int) {
		if v == nil || seen[v] || d > 12 {
			return
		}
		seen[v] = true
		switch x := v.(type) {
		case *ssa.Extract:
			if c, ok := x.Tuple.(*ssa.Call); ok {
				out = append(out, c)
				return
			}
			rec(x.Tuple, d+1)
		case *ssa.Convert:
			rec(x.X, d+1)
		case *ssa.ChangeType:
			rec(x.X, d+1)
		case *ssa.TypeAssert:
			rec(x.X, d+1)
		case *ssa.Field:
			rec(x.X, d+1)
		case *ssa.Phi:
			for _, e := range x.Edges {
				rec(e, d+1)
			}
		case *ssa.UnOp:
			if al, ok := x.X.(*ssa.Alloc); ok {
				for _, ref := range *al.Referrers() {
					if st, ok := ref.(*ssa.Store); ok && st.Addr == ssa.Value(al) {
						rec(st.Val, d+1)
					}
				}
				return
			}
			if fa, ok := x.X.(*ssa.FieldAddr); ok {
				rec(fa.X, d+1)
				return
			}
			rec(x.X, d+1)
		case *ssa.FieldAddr:
			rec(x.X, d+1)
		case *ssa.Alloc:
			for _, ref := range *x.Referrers() {
				if st, ok := ref.(*ssa.Store); ok && st.Addr == ssa.Value(x) {
					rec(st.Val, d+1)
				}
			}
		case *ssa.Call:
			out = append(out, x)
		}
	}
	rec(v, 0)
	return out
}

func sameCallSets(a, b []*ssa.Call) bool {
	if len(a) != len(b) {
		return false
	}
	m := map[*ssa.Call]bool{}
	for _, x := range a {
		m[x] = true
	}
	for _, x := range b {
		if !m[x] {
			return false
		}
	}
	return true
}

// linkRootPath: cidlink.Link{Cid: X.Root} → path of X.Root.
func linkRootPath(c *Ctx, v ssa.Value) string {
	for i := 0; i < 6; i++ {
		switch x := v.(type) {
		case *ssa.MakeInterface:
			v = x.X
		case *ssa.UnOp:
			if al, ok := x.X.(*ssa.Alloc); ok {
				// composite literal cidlink.Link{Cid: …}
				for _, ref := range *al.Referrers() {
					if fa, ok := ref.(*ssa.FieldAddr); ok {
						for _, r2 := range *fa.Referrers() {
							if st, ok := r2.(*ssa.Store); ok && st.Addr == ssa.Value(fa) {
								return c.varPath(st.Val, 0)
							}
						}
					}
				}
				return "?"
			}
			return c.varPath(x, 0)
		default:
			return c.varPath(v, 0)
		}
	}
	return "?"
}

// checkDupePredicate: the sibling-uniqueness predicate compares the candidate with the LAST "/"-segment of each
// child's Path — the same segment packDirectory uses as the link name. Accepted idioms: slicing after
// strings.LastIndex(Path, "/"), the last element of strings.Split(Path, "/"), path.Base / filepath.Base.
func (c *Ctx) checkDupePredicate() {
	r := c.R
	n := 0
	for _, fn := range c.G.Funcs() {
		rel, ok := c.P.PkgOf(fn)
		if !ok || rel != "testutil" || !isDupePredicate(fn) {
			continue
		}
		n++
		key := core.FuncName(fn) + "/last-segment"
		lastSeg, firstSeg := false, ""
		// calls of the predicate itself, and of a fixture helper it hands the child's Path to (the helper's parameter then
		// stands for the Path)
		type scanned struct {
			ci     ssa.CallInstruction
			isPath func(ssa.Value) bool
		}
		var calls []scanned
		direct := func(v ssa.Value) bool { return strings.HasSuffix(c.varPath(v, 0), ".Path") }
		for _, ci := range core.CallsIn(fn) {
			calls = append(calls, scanned{ci, direct})
			if h := ci.Common().StaticCallee(); h != nil && len(h.Blocks) > 0 {
				if hrel, isRepo := c.P.PkgOf(h); isRepo && hrel == "testutil" {
					for ai, a := range ci.Common().Args {
						if direct(a) && ai < len(h.Params) {
							hp := ssa.Value(h.Params[ai])
							for _, hci := range core.CallsIn(h) {
								calls = append(calls, scanned{hci, func(v ssa.Value) bool { return v == hp }})
							}
						}
					}
				}
			}
		}
		for _, sc := range calls {
			ci := sc.ci
			f := ci.Common().StaticCallee()
			if f == nil || f.Pkg == nil {
				continue
			}
			pathArg := func(i int) bool {
				return i < len(ci.Common().Args) && sc.isPath(ci.Common().Args[i])
			}
			sepIsSlash := func(i int) bool {
				if i >= len(ci.Common().Args) {
					return false
				}
				k, ok := ci.Common().Args[i].(*ssa.Const)
				return ok && k.Value != nil && k.Value.Kind() == constant.String && constant.StringVal(k.Value) == "/"
			}
			switch f.Pkg.Pkg.Path() + "." + f.Name() {
			case "strings.LastIndex":
				if pathArg(0) && sepIsSlash(1) {
					lastSeg = true
				}
			case "path.Base", "path/filepath.Base":
				if pathArg(0) {
					lastSeg = true
				}
			case "strings.Split":
				if pathArg(0) && sepIsSlash(1) {
					lastSeg = true // (the index is checked by G1's link-name rule in packDirectory; here only presence)
				}
			case "strings.Index", "strings.Cut", "strings.SplitN", "strings.IndexByte":
				if pathArg(0) {
					firstSeg = f.Name()
				}
			}
		}
		var bad []string
		if firstSeg != "" {
			bad = append(bad, "the child's name is taken relative to the FIRST \"/\" of its Path (strings."+firstSeg+"): below the root it is never equal to a bare candidate name, so duplicates pass")
		}
		if !lastSeg {
			bad = append(bad, "the child's name is not derived from the last \"/\"-segment of its Path")
		}
		// like is compared with like: if one side of the deciding comparison has its extension cut off, so has the other
		for _, b := range fn.Blocks {
			iff := core.BlockIf(b)
			if iff == nil {
				continue
			}
			bo, ok := iff.Cond.(*ssa.BinOp)
			if !ok || (bo.Op != token.EQL && bo.Op != token.NEQ) || !isBasic(bo.X.Type(), types.String) {
				continue
			}
			if _, isK := bo.X.(*ssa.Const); isK {
				continue
			}
			if _, isK := bo.Y.(*ssa.Const); isK {
				continue
			}
			sx, sy := c.cutsExtension(bo.X, 0, map[ssa.Value]bool{}), c.cutsExtension(bo.Y, 0, map[ssa.Value]bool{})
			if sx != sy {
				bad = append(bad, fmt.Sprintf("the comparison at %s has the extension cut from one operand only: a candidate with an extension never equals a sibling's stem, so duplicate names pass", c.P.Pos(bo.Pos())))
			}
		}
		r.Check(len(bad) == 0, "G2", key, c.P.Pos(fn.Pos()), "sibling names are compared by the last \"/\"-segment of Path, the segment packDirectory stores as link name", strings.Join(bad, "; "))
	}
	r.Floor("G2/predicate", n, 1)
}

// cutsExtension: the string value may have had everything from its last "." removed (x[:strings.LastIndex(x, ".")],
// strings.TrimSuffix(x, path.Ext(x)), directly, on one phi edge, or inside a fixture helper that returns it).
func (c *Ctx) cutsExtension(v ssa.Value, depth int, seen map[ssa.Value]bool) bool {
	if v == nil || depth > 10 || seen[v] {
		return false
	}
	seen[v] = true
	isDot := func(a ssa.Value) bool {
		k, ok := a.(*ssa.Const)
		if !ok || k.Value == nil {
			return false
		}
		if k.Value.Kind() == constant.String {
			return constant.StringVal(k.Value) == "."
		}
		if n, ok := core.ConstInt(k); ok {
			return n == '.'
		}
		return false
	}
	var fromDotIndex func(a ssa.Value, d int) bool
	fromDotIndex = func(a ssa.Value, d int) bool {
		if d > 6 || a == nil {
			return false
		}
		switch x := core.Unconv(a).(type) {
		case *ssa.Call:
			if f := x.Call.StaticCallee(); f != nil && f.Pkg != nil && f.Pkg.Pkg.Path() == "strings" && strings.Contains(f.Name(), "Index") && len(x.Call.Args) == 2 {
				return isDot(x.Call.Args[1])
			}
		case *ssa.Phi:
			for _, e := range x.Edges {
				if fromDotIndex(e, d+1) {
					return true
				}
			}
		case *ssa.BinOp:
			return fromDotIndex(x.X, d+1) || fromDotIndex(x.Y, d+1)
		}
		return false
	}
	switch x := v.(type) {
	case *ssa.Slice:
		if x.High != nil && fromDotIndex(x.High, 0) {
			return true
		}
		return c.cutsExtension(x.X, depth+1, seen)
	case *ssa.Phi:
		for _, e := range x.Edges {
			if c.cutsExtension(e, depth+1, seen) {
				return true
			}
		}
	case *ssa.UnOp:
		if al, ok := x.X.(*ssa.Alloc); ok && x.Op == token.MUL {
			for _, ref := range *al.Referrers() {
				if st, ok := ref.(*ssa.Store); ok && st.Addr == ssa.Value(al) && c.cutsExtension(st.Val, depth+1, seen) {
					return true
				}
			}
		}
	case *ssa.Call:
		f := x.Call.StaticCallee()
		if f == nil {
			return false
		}
		if f.Pkg != nil && f.Pkg.Pkg.Path() == "strings" && f.Name() == "TrimSuffix" && len(x.Call.Args) == 2 {
			if ec, ok := x.Call.Args[1].(*ssa.Call); ok && ec.Call.StaticCallee() != nil && ec.Call.StaticCallee().Name() == "Ext" {
				return true
			}
		}
		if rel, ok := c.P.PkgOf(f); ok && rel == "testutil" && len(f.Blocks) > 0 {
			for _, ret := range core.Returns(f) {
				for _, rv := range core.ResolvedResults(ret) {
					if isBasic(rv.Type(), types.String) && c.cutsExtension(rv, depth+1, seen) {
						return true
					}
				}
			}
		}
	}
	return false
}

// isDupePredicate: the sibling-uniqueness predicate by role — func(children []DirEntry, name string) bool in testutil.
func isDupePredicate(f *ssa.Function) bool {
	if f == nil || f.Signature.Recv() != nil || f.Signature.Params().Len() != 2 || f.Signature.Results().Len() != 1 {
		return false
	}
	sl, ok := f.Signature.Params().At(0).Type().Underlying().(*types.Slice)
	if !ok || !strings.Contains(types.TypeString(sl.Elem(), nil), "DirEntry") {
		return false
	}
	return isBasic(f.Signature.Params().At(1).Type(), types.String) && isBasic(f.Signature.Results().At(0).Type(), types.Bool)
}

// checkNoChildrenReuse implements G4.
func (c *Ctx) checkNoChildrenReuse() {
	r := c.R
	n := 0
	for _, fn := range c.G.Funcs() {
		rel, ok := c.P.PkgOf(fn)
		if !ok || rel != "testutil" || fn.Synthetic != "" {
			continue
		}
		ord := 0
		for _, ci := range core.CallsIn(fn) {
			call, ok := ci.(*ssa.Call)
			if !ok || call.Call.StaticCallee() == nil || !core.InCycle(call.Block()) {
				continue
			}
			h := call.Call.StaticCallee()
			if hrel, isRepo := c.P.PkgOf(h); !isRepo || hrel != "testutil" {
				continue
			}
			// only callees that hand back an entry (and so may keep the slice as its Children), not predicates
			returnsEntry := false
			for i := 0; i < h.Signature.Results().Len(); i++ {
				if nn, _ := structOf(h.Signature.Results().At(i).Type()); nn != nil && nn.Obj().Name() == "DirEntry" {
					returnsEntry = true
				}
			}
			if !returnsEntry {
				continue
			}
			for _, a := range call.Call.Args {
				sl, isSlice := a.Type().Underlying().(*types.Slice)
				if !isSlice {
					continue
				}
				if nn, _ := structOf(sl.Elem()); nn == nil || nn.Obj().Name() != "DirEntry" {
					continue
				}
				n++
				ord++
				key := fmt.Sprintf("%s/children-slice-fresh#%d", core.FuncName(fn), ord)
				// walk back through append chains and phis to the slice's origin
				reused := ""
				seen := map[ssa.Value]bool{}
				var walk func(v ssa.Value, d int)
				walk = func(v ssa.Value, d int) {
					if v == nil || seen[v] || d > 12 || reused != "" {
						return
					}
					seen[v] = true
					switch x := v.(type) {
					case *ssa.Phi:
						for _, e := range x.Edges {
							walk(e, d+1)
						}
					case *ssa.Call:
						if b, isB := x.Call.Value.(*ssa.Builtin); isB && b.Name() == "append" && len(x.Call.Args) > 0 {
							walk(x.Call.Args[0], d+1)
						}
					case *ssa.Slice:
						// s[:0] (or any re-slice) of a slice that lives across iterations
						if _, fromArr := x.X.(*ssa.Alloc); fromArr && core.InCycle(x.Block()) && sameCycle(x.Block(), call.Block()) {
							return // a fresh array literal sliced in this iteration
						}
						reused = c.P.Pos(x.Pos())
					}
				}
				walk(a, 0)
				r.Check(reused == "", "G4", key, c.P.Pos(call.Pos()), "the children slice is built afresh in the iteration that hands it over", "the children slice is a re-slice (at "+reused+") of storage that survives the iteration: the packer keeps it as Children, so the entries described earlier are overwritten by later levels")
			}
		}
	}
	r.Floor("G4", n, 1)
}

// checkOwnOptionsLast implements G5: options are applied in order and the last one wins, so the path option a generator
// builds for a child (WithDirname(child path)) must come after the options inherited from the caller. The rule follows the
// slice that carries the child's own path option — through append, phis and fixture helpers — and reports an append that
// puts a caller-supplied []Option after it.
func (c *Ctx) checkOwnOptionsLast() {
	r := c.R
	r.Rule("G5", "a child's own path option is applied after the inherited options: the slice carrying WithDirname(child path) is never the base of an append whose appended part is a caller-supplied option list (options are applied in order, the last WithDirname wins, so a reversed concatenation generates the child under its parent's path)")
	isOptSliceParam := func(v ssa.Value) bool {
		for i := 0; i < 6; i++ {
			switch x := v.(type) {
			case *ssa.Slice:
				v = x.X
				continue
			case *ssa.UnOp:
				// a parameter captured by a closure (the default child generator) is read through its cell
				if rv := resolveLocal(x); rv != ssa.Value(x) {
					v = rv
					continue
				}
			case *ssa.Parameter:
				sl, ok := x.Type().Underlying().(*types.Slice)
				if !ok {
					return false
				}
				_, isFn := sl.Elem().Underlying().(*types.Signature)
				return isFn
			}
			break
		}
		return false
	}
	n := 0
	for _, fn := range c.G.Funcs() {
		rel, ok := c.P.PkgOf(fn)
		if !ok || rel != "testutil" {
			continue
		}
		ord := 0
		for _, ci := range core.CallsIn(fn) {
			call, ok := ci.(*ssa.Call)
			if !ok {
				continue
			}
			f := call.Call.StaticCallee()
			if f == nil || f.Name() != "WithDirname" {
				continue
			}
			if frel, ok := c.P.PkgOf(f); !ok || frel != "testutil" {
				continue
			}
			ord++
			n++
			key := fmt.Sprintf("%s/own-path-option-last#%d", core.FuncName(fn), ord)
			var bad []string
			seen := map[ssa.Value]bool{}
			var follow func(v ssa.Value, own bool, depth int)
			follow = func(v ssa.Value, own bool, depth int) {
				if v == nil || seen[v] || depth > 8 || v.Referrers() == nil {
					return
				}
				seen[v] = true
				for _, ref := range *v.Referrers() {
					switch x := ref.(type) {
					case *ssa.Store:
						// the option value stored into a varargs / literal array: follow the slices taken of it
						if x.Val != v {
							continue
						}
						if ia, ok := x.Addr.(*ssa.IndexAddr); ok {
							if al, ok := ia.X.(*ssa.Alloc); ok {
								for _, r2 := range *al.Referrers() {
									if sl, ok := r2.(*ssa.Slice); ok {
										follow(sl, true, depth+1)
									}
								}
							}
						}
					case *ssa.Slice:
						follow(x, own, depth+1)
					case *ssa.Phi:
						follow(x, own, depth+1)
					case *ssa.Call:
						if bi, ok := x.Call.Value.(*ssa.Builtin); ok && bi.Name() == "append" && len(x.Call.Args) == 2 {
							if x.Call.Args[0] == v && isOptSliceParam(x.Call.Args[1]) {
								bad = append(bad, fmt.Sprintf("append at %s puts a caller-supplied option list after the child's own path option", c.P.Pos(x.Pos())))
							}
							follow(x, own, depth+1)
							continue
						}
						if h := x.Call.StaticCallee(); h != nil && len(h.Blocks) > 0 && c.isFixtureHelper(h) {
							for i, a := range x.Call.Args {
								if a == v && i < len(h.Params) {
									follow(h.Params[i], own, depth+1)
								}
							}
						}
					}
				}
			}
			follow(call, true, 0)
			r.Check(len(bad) == 0, "G5", key, c.P.Pos(call.Pos()), "no append places inherited options after the child's own path option", uniqJoin(bad))
		}
	}
	r.Floor("G5", n, 1)
}

// checkNoChildSkipped implements G6: the packer links every child it describes. In every fixture function that ranges over
// a []DirEntry and builds a directory entry per child, each trip through the loop body either builds the entry (calls the
// entry constructor) or leaves the function; a `continue` that bypasses the constructor stores a directory with fewer
// links than the returned description lists children.
func (c *Ctx) checkNoChildSkipped() {
	r := c.R
	r.Rule("G6", "no child is skipped when links are built: in a loop over the children ([]DirEntry) that constructs a directory entry per child, every path from the loop header back to it passes the entry constructor")
	n := 0
	for _, fn := range c.G.Funcs() {
		rel, ok := c.P.PkgOf(fn)
		if !ok || rel != "testutil" || fn.Synthetic != "" {
			continue
		}
		for li, l := range rangeLoops(fn) {
			if l.kind != "slice" || l.rng == nil {
				continue
			}
			sl, ok := l.rng.Type().Underlying().(*types.Slice)
			if !ok || !strings.Contains(types.TypeString(sl.Elem(), nil), "DirEntry") {
				continue
			}
			isCtor := func(ins ssa.Instruction) bool {
				call, ok := ins.(*ssa.Call)
				return ok && call.Call.StaticCallee() != nil && isEntryCtor(call.Call.StaticCallee())
			}
			has := false
			for b := range l.body {
				for _, ins := range b.Instrs {
					if isCtor(ins) {
						has = true
					}
				}
			}
			if !has {
				continue
			}
			n++
			key := fmt.Sprintf("%s/every-child-linked#%d", core.FuncName(fn), li+1)
			r.Check(everyCyclePasses(l.header, l.body, isCtor), "G6", key, c.P.Pos(firstPos(l.header)), "every child gets its link", "a path through the loop reaches the next child without building a link for this one: the stored directory has fewer links than the description has children")
		}
	}
	r.Floor("G6", n, 1)
}
