package rules

import (
	"fmt"
	"go/constant"
	"go/token"
	"go/types"
	"sort"
	"strings"

	"golang.org/x/tools/go/ssa"

	"verifchk/internal/core"
)

func init() { Registry["C10"] = c10 }

// inC10Scope: builder packages plus the hand-written encoder of package data.
func (c *Ctx) inC10Scope(fn *ssa.Function) bool {
	rel, ok := c.P.PkgOf(fn)
	if !ok {
		return false
	}
	if core.BuilderPkgs[rel] {
		return true
	}
	if rel == "data" && !c.P.IsGenerated(fn.Pos()) && strings.HasSuffix(c.P.FileOf(fn.Pos()), "marshal.go") {
		return true
	}
	return false
}

var nondetFuncs = map[string]map[string]bool{
	"time":        {"Now": true, "Since": true, "Until": true, "After": true, "Tick": true, "NewTimer": true, "NewTicker": true, "Sleep": true},
	"os":          {"Getpid": true, "Getppid": true, "Hostname": true, "Getenv": true, "Environ": true, "Getwd": true},
	"math/rand":   nil, // any function
	"crypto/rand": nil,
	"runtime":     {"NumGoroutine": true, "NumCPU": true, "GOMAXPROCS": true},
}

func nondetCall(f *ssa.Function) string {
	if f == nil || f.Pkg == nil {
		return ""
	}
	path := f.Pkg.Pkg.Path()
	names, ok := nondetFuncs[path]
	if !ok && !strings.HasPrefix(path, "math/rand") {
		return ""
	}
	if names == nil || strings.HasPrefix(path, "math/rand") || names[f.Name()] {
		return path + "." + f.Name()
	}
	return ""
}

type loopInfo struct {
	fn     *ssa.Function
	header *ssa.BasicBlock
	body   map[*ssa.BasicBlock]bool
	kind   string // map | slice
	rng    ssa.Value
	next   *ssa.Next
	idx    *ssa.Phi // counter of an explicit index loop (nil for range loops)
}

// rangeLoops finds range-over-map loops and range-over-slice loops of fn.
func rangeLoops(fn *ssa.Function) []loopInfo {
	var out []loopInfo
	for _, h := range fn.Blocks {
		isHeader := false
		for _, p := range h.Preds {
			if h.Dominates(p) {
				isHeader = true
			}
		}
		if !isHeader {
			continue
		}
		body := map[*ssa.BasicBlock]bool{}
		for _, b := range fn.Blocks {
			if h.Dominates(b) && (b == h || blockReaches(b, h)) {
				body[b] = true
			}
		}
		li := loopInfo{fn: fn, header: h, body: body}
		for _, ins := range h.Instrs {
			if nx, ok := ins.(*ssa.Next); ok && !nx.IsString {
				if rg, ok := nx.Iter.(*ssa.Range); ok {
					if _, isMap := rg.X.Type().Underlying().(*types.Map); isMap {
						li.kind, li.rng, li.next = "map", rg.X, nx
					}
				}
			}
			if phi, ok := ins.(*ssa.Phi); ok && phi.Comment == "rangeindex" {
				li.kind = "slice"
				// the ranged slice: len(x) in the preheader compared with the index
				if iff := core.BlockIf(h); iff != nil {
					if bo, ok := iff.Cond.(*ssa.BinOp); ok {
						if lx, ok := lenOf(bo.Y); ok {
							li.rng = lx
						}
					}
				}
			}
		}
		if li.kind == "" {
			// explicit index loop over a whole slice: for i := 0; i < len(x); i++ { … x[i] … }
			if iff := core.BlockIf(h); iff != nil {
				if bo, ok := iff.Cond.(*ssa.BinOp); ok && bo.Op == token.LSS {
					if phi, ok := bo.X.(*ssa.Phi); ok && phi.Block() == h && forwardCounterFromZero(phi) {
						if lx, ok := lenOf(bo.Y); ok {
							li.kind, li.rng, li.idx = "slice", lx, phi
						}
					}
				}
			}
		}
		if li.kind != "" {
			out = append(out, li)
		}
	}
	return out
}

// forwardCounterFromZero: phi(0, phi+1).
func forwardCounterFromZero(phi *ssa.Phi) bool {
	n := 0
	for _, e := range phi.Edges {
		if k, isK := core.ConstInt(e); isK {
			if k != 0 {
				return false
			}
			n++
			continue
		}
		add, ok := e.(*ssa.BinOp)
		if !ok || add.Op != token.ADD || add.X != ssa.Value(phi) {
			return false
		}
		if k, isK := core.ConstInt(add.Y); !isK || k != 1 {
			return false
		}
	}
	return n > 0
}

// fullIndexCounter: idx is the counter of an explicit index loop that runs over the whole of slice sl.
func fullIndexCounter(fn *ssa.Function, idx ssa.Value, sl ssa.Value) bool {
	for _, li := range rangeLoops(fn) {
		if li.idx != nil && ssa.Value(li.idx) == idx && li.rng == sl {
			return true
		}
	}
	return false
}

var pureMethodNames = map[string]bool{"Must": true, "Int": true, "String": true, "Link": true, "Exists": true, "Bytes": true, "Size": true, "Name": true, "ByteLen": true, "Binary": true, "IsAbsent": true, "Length": true}

func c10(c *Ctx) {
	r := c.R
	r.Explain = "C10 (building is deterministic): inventories every source of run-to-run or order dependence in the builder packages and the encoder — range over a Go map, go/select statements, clock, random, pid/environment reads — and requires each map-range loop body to have only order-insensitive effects on what outlives the loop: integer sums whose addends do not read loop-carried state, appends/assignments of links into a list that only flows into a dag-pb block (whose encoder stable-sorts links by name — asserted in the dependency) with names that embed the unique map key, recursive builder calls, and error returns. The same classification is applied to loops over the caller's entries. The source reader of the file builder flows only into the chunker constructor and the size/buzhash splitters read only through io.ReadFull, so fragmentation of the input cannot change chunk boundaries. Not decided: insertion-order independence of the HAMT trie shape (argued by hand: the bucket path is a function of the hash alone) and the rabin chunker's internals."
	r.Rule("D1", "nondeterminism-source inventory in the builder packages and encoder: every range over a map has an order-insensitive body (see text); no go/select; no call into time.Now/…, math/rand, crypto/rand, os.Getpid/Getenv/…")
	r.Rule("D1'", "dependency assertion: go-codec-dagpb's encoder stable-sorts the links by name before writing them")
	r.Rule("D2", "loops over caller-supplied entry slices in exported builders have only order-insensitive effects (sums, links into a dag-pb list, map inserts keyed by a function of the entry, pure calls)")
	r.Rule("D4", "a build either yields the whole result or an error: in the builder packages the error of every call to a repository function and of every call through which the caller's input or the environment can fail (io, os, the chunker, hasher look-up) reaches the enclosing function's error result on every path — io.EOF compared explicitly counts as handled. A dropped error makes the output depend on where the failure fell: on the order of the entries, on how the reader fragments its data, or on map iteration order")
	r.Rule("D3", "the io.Reader parameter of the file builder is used only as the argument of the chunker constructor; boxo's size and buzhash splitters obtain bytes only through io.ReadFull")

	nmap, nslice, nfun := 0, 0, 0
	ctlSeen := map[string]bool{}
	var funcs []*ssa.Function
	for _, fn := range c.G.Funcs() {
		rel, _ := c.P.PkgOf(fn)
		if c.inC10Scope(fn) || rel == core.Rel(core.ControlPkg) {
			funcs = append(funcs, fn)
		}
	}
	nsrc := 0
	for _, fn := range funcs {
		rel, _ := c.P.PkgOf(fn)
		isCtl := rel == core.Rel(core.ControlPkg)
		if !isCtl {
			nfun++
		}
		// forbidden constructs
		for _, b := range fn.Blocks {
			for _, ins := range b.Instrs {
				bad := ""
				switch x := ins.(type) {
				case *ssa.Go:
					bad = "go statement"
				case *ssa.Select:
					bad = "select statement"
				case ssa.CallInstruction:
					if s := nondetCall(x.Common().StaticCallee()); s != "" {
						bad = "call of " + s
					}
				}
				if bad == "" {
					continue
				}
				if isCtl {
					ctlSeen[strings.Fields(bad)[0]] = true
					continue
				}
				nsrc++
				r.Violate("D1", fmt.Sprintf("%s/%s", core.FuncName(fn), strings.ReplaceAll(bad, " ", "-")), c.P.Pos(ins.Pos()), bad+" in builder code makes the result depend on scheduling, time or randomness")
			}
		}
		if isCtl {
			for _, li := range rangeLoops(fn) {
				if li.kind == "map" && strings.HasPrefix(fn.Name(), "CtlC10") {
					if ok, _ := c.orderInsensitive(li); !ok {
						ctlSeen["maprange"] = true
					}
				}
			}
			continue
		}
		k := 0
		for _, li := range rangeLoops(fn) {
			if li.kind == "map" {
				nmap++
				k++
				key := fmt.Sprintf("%s/map-range#%d", core.FuncName(fn), k)
				ok, why := c.orderInsensitive(li)
				r.Check(ok, "D1", key, c.P.Pos(firstPos(li.header)), "iteration order of the map cannot influence the result: "+why, "the loop body's effect depends on Go's randomised map iteration order: "+why)
			}
		}
	}
	if nsrc == 0 {
		r.OK("D1", "builder+encoder/*", "-", fmt.Sprintf("%d functions: no go/select statement, no clock/random/pid/environment read", nfun))
	}
	r.Floor("D1/map-range", nmap, 2)
	r.Control("D1/go-statement", ctlSeen["go"])
	r.Control("D1/clock-read", ctlSeen["call"])
	r.Control("D1/order-dependent-map-range", ctlSeen["maprange"])

	// ---- D2
	for _, fn := range funcs {
		rel, _ := c.P.PkgOf(fn)
		if rel == core.Rel(core.ControlPkg) || fn.Object() == nil || !fn.Object().Exported() {
			continue
		}
		k := 0
		for _, li := range rangeLoops(fn) {
			if li.kind != "slice" || li.rng == nil {
				continue
			}
			p, isParam := li.rng.(*ssa.Parameter)
			if !isParam {
				continue
			}
			if _, ok := p.Type().Underlying().(*types.Slice); !ok {
				continue
			}
			nslice++
			k++
			key := fmt.Sprintf("%s/entries-loop#%d", core.FuncName(fn), k)
			ok, why := c.orderInsensitive(li)
			r.Check(ok, "D2", key, c.P.Pos(firstPos(li.header)), "order of the caller's slice cannot influence the result: "+why, "the loop body's effect depends on the order of the caller's entries: "+why)
		}
	}
	// D2 (continued): every function of the builder packages that receives a slice of dag-pb links (the caller's
	// entries) may only walk it with a range loop whose body is order-insensitive; a positional access such as
	// entries[0] makes the result depend on the order the caller happened to use
	for _, fn := range funcs {
		rel, _ := c.P.PkgOf(fn)
		if rel == core.Rel(core.ControlPkg) {
			continue
		}
		for _, p := range fn.Params {
			sl, ok := p.Type().Underlying().(*types.Slice)
			if !ok || !strings.Contains(types.TypeString(sl.Elem(), nil), "PBLink") {
				continue
			}
			nslice++
			key := fmt.Sprintf("%s/entries-param:%s", core.FuncName(fn), p.Name())
			var bad []string
			for _, ref := range *p.Referrers() {
				switch x := ref.(type) {
				case *ssa.IndexAddr:
					if !c.rangeIndex(x.Index) && !fullIndexCounter(fn, x.Index, ssa.Value(p)) {
						bad = append(bad, fmt.Sprintf("positional access %s[…] at %s", p.Name(), c.P.Pos(x.Pos())))
					}
				case *ssa.Slice:
					bad = append(bad, fmt.Sprintf("sub-slice of %s at %s", p.Name(), c.P.Pos(x.Pos())))
				}
			}
			if fn.Object() == nil || !fn.Object().Exported() {
				for _, li := range rangeLoops(fn) {
					if li.kind == "slice" && li.rng == ssa.Value(p) {
						if ok, why := c.orderInsensitive(li); !ok {
							bad = append(bad, "range loop with an order-dependent body: "+why)
						}
					}
				}
			}
			r.Check(len(bad) == 0, "D2", key, c.P.Pos(fn.Pos()), "the caller's entries are only walked by range loops with order-insensitive bodies", "the result depends on the order of the caller's entries: "+strings.Join(bad, "; "))
		}
	}
	r.Floor("D2", nslice, 5)

	c.assertDagpbSort()
	c.checkReaderFlow()
	c.checkBuilderErrors()
}

// orderInsensitive classifies the effects of a range loop (see rule text).
func (c *Ctx) orderInsensitive(li loopInfo) (bool, string) {
	fn := li.fn
	var notes []string
	headerPhis := map[ssa.Value]bool{}
	for _, ins := range li.header.Instrs {
		if phi, ok := ins.(*ssa.Phi); ok {
			headerPhis[phi] = true
		}
	}
	dependsOnPhi := func(v ssa.Value, except ssa.Value) bool {
		seen := map[ssa.Value]bool{}
		var rec func(v ssa.Value, d int) bool
		rec = func(v ssa.Value, d int) bool {
			if v == nil || seen[v] || d > 20 {
				return false
			}
			seen[v] = true
			if headerPhis[v] && v != except {
				if phi := v.(*ssa.Phi); phi.Comment != "rangeindex" && !(li.idx != nil && phi == li.idx) {
					return true
				}
			}
			ins, ok := v.(ssa.Instruction)
			if !ok || !li.body[ins.Block()] {
				return false
			}
			for _, op := range ins.Operands(nil) {
				if *op != nil && rec(*op, d+1) {
					return true
				}
			}
			return false
		}
		return rec(v, 0)
	}
	// 1. loop-carried values
	for _, ins := range li.header.Instrs {
		phi, ok := ins.(*ssa.Phi)
		if !ok {
			break
		}
		if phi.Comment == "rangeindex" || (li.idx != nil && phi == li.idx) {
			continue
		}
		switch {
		case core.IsErrorType(phi.Type()):
			// an error variable assigned in the body: it only ever leads to an early error return
			notes = append(notes, "early error return")
		case isIntegerType(phi.Type()):
			for i, e := range phi.Edges {
				if !li.body[li.header.Preds[i]] {
					continue
				}
				if e == ssa.Value(phi) {
					continue
				}
				if ok, why := c.isCommutativeSum(e, phi, li, dependsOnPhi); !ok {
					return false, fmt.Sprintf("integer %s is updated order-dependently (%s)", phi.Comment, why)
				}
			}
			notes = append(notes, "sum "+phi.Comment)
		default:
			if _, isSlice := phi.Type().Underlying().(*types.Slice); isSlice {
				for i, e := range phi.Edges {
					if !li.body[li.header.Preds[i]] || e == ssa.Value(phi) {
						continue
					}
					call, ok := e.(*ssa.Call)
					bi, isB := (ssa.Value)(nil), false
					if ok {
						_, isB = call.Call.Value.(*ssa.Builtin)
						bi = call.Call.Value
					}
					if !ok || !isB || bi.Name() != "append" || call.Call.Args[0] != ssa.Value(phi) {
						return false, fmt.Sprintf("slice %s is updated by something other than append(%s, …)", phi.Comment, phi.Comment)
					}
				}
				if ok, why := c.sliceSinkIsSorted(fn, phi, li); !ok {
					return false, fmt.Sprintf("slice %s accumulates in iteration order and %s", phi.Comment, why)
				}
				notes = append(notes, "links "+phi.Comment+" → dag-pb block (sorted by the codec)")
				continue
			}
			return false, fmt.Sprintf("loop-carried %s of type %s is updated in iteration order", phi.Comment, core.TypeNameOf(phi.Type()))
		}
	}
	// 2. instructions with effects
	var blocks []*ssa.BasicBlock
	for b := range li.body {
		blocks = append(blocks, b)
	}
	sort.Slice(blocks, func(i, j int) bool { return blocks[i].Index < blocks[j].Index })
	for _, b := range blocks {
		for _, ins := range b.Instrs {
			switch x := ins.(type) {
			case *ssa.Store:
				if _, fresh := rootObject(x.Addr); fresh {
					continue
				}
				if al, ok := core.RootOfAddr(x.Addr).(*ssa.Alloc); ok {
					// captured / outer local cell: integer sum?
					if isIntegerType(al.Type().Underlying().(*types.Pointer).Elem()) {
						if bo, ok := x.Val.(*ssa.BinOp); ok && bo.Op == token.ADD {
							continue
						}
					}
					if !li.body[al.Block()] {
						return false, fmt.Sprintf("store to outer variable %s at %s in iteration order", al.Comment, c.P.Pos(x.Pos()))
					}
					continue
				}
				// out[i] = f(in[i]) with i this loop's own index and out a slice made before the loop: an order-preserving
				// map of the input; what matters is what later consumes `out` (same rule as for an appended slice)
				if ia, ok := x.Addr.(*ssa.IndexAddr); ok && (c.rangeIndex(ia.Index) || (li.idx != nil && ia.Index == ssa.Value(li.idx))) {
					if ms, isMake := ia.X.(*ssa.MakeSlice); isMake && !li.body[ms.Block()] {
						if ok2, why := c.valueConsumedOrderInsensitivelyAfter(fn, ms, li); ok2 {
							notes = append(notes, "element-wise fill of a slice that is consumed order-insensitively")
							continue
						} else {
							return false, fmt.Sprintf("slice filled in iteration order at %s and %s", c.P.Pos(x.Pos()), why)
						}
					}
				}
				return false, fmt.Sprintf("store to shared memory at %s in iteration order", c.P.Pos(x.Pos()))
			case *ssa.MapUpdate:
				if dependsOnPhi(x.Key, nil) {
					return false, fmt.Sprintf("map insert at %s keyed by loop-carried state", c.P.Pos(x.Pos()))
				}
				notes = append(notes, "map insert keyed by the element")
			case *ssa.Send, *ssa.Go, *ssa.Defer:
				return false, fmt.Sprintf("%T at %s inside the loop", ins, c.P.Pos(ins.Pos()))
			case *ssa.Call:
				ok, why := c.callOrderInsensitive(fn, x, li)
				if !ok {
					return false, fmt.Sprintf("call %s at %s: %s", shorten(strings.ReplaceAll(core.CalleeName(x), core.Module+"/", "")), c.P.Pos(x.Pos()), why)
				}
				if why != "" {
					notes = append(notes, why)
				}
			}
		}
	}
	sort.Strings(notes)
	return true, uniqJoin(notes)
}

func (c *Ctx) isCommutativeSum(e ssa.Value, phi *ssa.Phi, li loopInfo, dependsOnPhi func(ssa.Value, ssa.Value) bool) (bool, string) {
	seen := map[ssa.Value]bool{}
	var rec func(v ssa.Value) (bool, string)
	rec = func(v ssa.Value) (bool, string) {
		if v == ssa.Value(phi) {
			return true, ""
		}
		if seen[v] {
			return true, ""
		}
		seen[v] = true
		switch x := v.(type) {
		case *ssa.Phi:
			for _, e2 := range x.Edges {
				if ok, why := rec(e2); !ok {
					return false, why
				}
			}
			return true, ""
		case *ssa.BinOp:
			if x.Op != token.ADD {
				return false, "combined with " + x.Op.String()
			}
			var acc, add ssa.Value
			if okL, _ := rec(x.X); okL && reachesPhi(x.X, phi) {
				acc, add = x.X, x.Y
			} else if okR, _ := rec(x.Y); okR && reachesPhi(x.Y, phi) {
				acc, add = x.Y, x.X
			} else {
				return false, "does not add to its previous value"
			}
			_ = acc
			if dependsOnPhi(add, nil) {
				return false, "the addend reads loop-carried state"
			}
			return true, ""
		}
		return false, fmt.Sprintf("%T", v)
	}
	return rec(e)
}

func reachesPhi(v ssa.Value, phi *ssa.Phi) bool {
	seen := map[ssa.Value]bool{}
	var rec func(v ssa.Value) bool
	rec = func(v ssa.Value) bool {
		if v == ssa.Value(phi) {
			return true
		}
		if seen[v] {
			return false
		}
		seen[v] = true
		switch x := v.(type) {
		case *ssa.Phi:
			for _, e := range x.Edges {
				if rec(e) {
					return true
				}
			}
		case *ssa.BinOp:
			return rec(x.X) || rec(x.Y)
		}
		return false
	}
	return rec(v)
}

// sliceSinkIsSorted: after the loop the slice flows only into a repository builder that stores a dag-pb block,
// and every appended element is a link whose name embeds the map key (or is an element's own name).
func (c *Ctx) sliceSinkIsSorted(fn *ssa.Function, phi *ssa.Phi, li loopInfo) (bool, string) {
	sinks := 0
	for _, ref := range *phi.Referrers() {
		ins := ref
		if li.body[ins.Block()] || ins.Block() == li.header {
			continue
		}
		// re-iterated by a later range loop of the same function: that loop must itself be order-insensitive
		if isRangeUse(ins) {
			for _, l2 := range rangeLoops(fn) {
				if l2.kind == "slice" && l2.rng == ssa.Value(phi) {
					if ok, why := c.orderInsensitive(l2); !ok {
						return false, "the loop that consumes it is order-dependent: " + why
					}
					sinks++
				}
			}
			continue
		}
		call, ok := ins.(*ssa.Call)
		if !ok {
			if _, isDbg := ins.(*ssa.DebugRef); isDbg {
				continue
			}
			if ret, isRet := ins.(*ssa.Return); isRet && fn.Object() != nil && !fn.Object().Exported() && len(c.G.In[fn]) > 0 {
				// an unexported helper hands the slice back: every caller must consume it order-insensitively
				idx := -1
				for i, rv := range ret.Results {
					if rv == ssa.Value(phi) {
						idx = i
					}
				}
				allOK := idx >= 0
				for _, e := range c.G.In[fn] {
					cs, isCall := e.Site.(*ssa.Call)
					if !isCall || cs.Call.StaticCallee() != fn {
						allOK = false
						continue
					}
					var rv ssa.Value = cs
					if fn.Signature.Results().Len() > 1 {
						rv = extractOf(cs, idx)
					}
					if rv == nil {
						continue
					}
					if ok, why := c.valueConsumedOrderInsensitively(e.Caller, rv); !ok {
						return false, "it is returned to " + core.FuncName(e.Caller) + ", where " + why
					}
				}
				if allOK {
					sinks++
					continue
				}
			}
			return false, fmt.Sprintf("it is used by %T after the loop", ins)
		}
		f := call.Call.StaticCallee()
		if f == nil || len(core.StoreSites(f)) == 0 && !c.reachesDagpbStore(f) {
			return false, "it is handed to " + calleeShort(call) + ", which is not a dag-pb storing builder"
		}
		sinks++
	}
	if sinks == 0 {
		return false, "it has no dag-pb storing sink"
	}
	if li.kind == "map" {
		if !c.namesEmbedKey(li) {
			return false, "the link names do not embed the (unique) map key"
		}
	}
	return true, ""
}

func (c *Ctx) reachesDagpbStore(f *ssa.Function) bool {
	st := c.G.Storers(core.BuilderPkgs)
	reach := c.G.ReachersOf(st)
	return reach[f]
}

// namesEmbedKey: every link constructor call in the loop takes a name that is the map key or a pure formatting of it.
func (c *Ctx) namesEmbedKey(li loopInfo) bool {
	key := extractOf2(li.next, 1)
	if key == nil {
		return false
	}
	n := 0
	for b := range li.body {
		for _, ins := range b.Instrs {
			call, ok := ins.(*ssa.Call)
			if !ok || !isEntryCtor(call.Call.StaticCallee()) {
				continue
			}
			n++
			name := call.Call.Args[0]
			if name == key {
				continue
			}
			nc, ok := name.(*ssa.Call)
			if !ok {
				return false
			}
			uses := false
			for _, a := range nc.Call.Args {
				if a == key {
					uses = true
				}
			}
			if !uses {
				return false
			}
		}
	}
	if n > 0 {
		return true
	}
	// the entry is built by a repository helper that receives the key
	for b := range li.body {
		for _, ins := range b.Instrs {
			call, ok := ins.(*ssa.Call)
			if !ok {
				continue
			}
			h := call.Call.StaticCallee()
			if h == nil || len(h.Blocks) == 0 {
				continue
			}
			if _, isRepo := c.P.PkgOf(h); !isRepo {
				continue
			}
			for i, a := range call.Call.Args {
				if a != key || i >= len(h.Params) {
					continue
				}
				hp := ssa.Value(h.Params[i])
				hn, good := 0, true
				for _, hc := range core.CallsIn(h) {
					ec, ok := hc.(*ssa.Call)
					if !ok || !isEntryCtor(ec.Call.StaticCallee()) {
						continue
					}
					hn++
					name := ec.Call.Args[0]
					if name == hp {
						continue
					}
					nc, ok := name.(*ssa.Call)
					uses := false
					if ok {
						for _, na := range nc.Call.Args {
							if na == hp {
								uses = true
							}
						}
					}
					if !uses {
						good = false
					}
				}
				if hn > 0 && good {
					return true
				}
			}
		}
	}
	return false
}

// callOrderInsensitive classifies one call inside a range loop.
func (c *Ctx) callOrderInsensitive(fn *ssa.Function, call *ssa.Call, li loopInfo) (bool, string) {
	cc := call.Common()
	if b, ok := cc.Value.(*ssa.Builtin); ok {
		switch b.Name() {
		case "append", "len", "cap", "copy", "min", "max":
			return true, ""
		}
		return false, "builtin " + b.Name()
	}
	if cc.IsInvoke() {
		switch cc.Method.Name() {
		case "AssembleValue", "AssignNode", "AssignLink", "AssignString", "AssignInt", "AssembleKey", "AssignBytes":
			// assembling into a list: order matters unless the list ends in a dag-pb block
			if c.assemblerSinkSorted(fn, cc.Value, li) {
				return true, "list assembled in iteration order → dag-pb block (sorted by the codec)"
			}
			return false, "assembles in iteration order into a value that is not a dag-pb links list"
		case "Reset", "Write", "Sum":
			// hashing one element at a time (Reset before Write): per-element, order-insensitive only with Reset
			if c.hashResetInLoop(cc.Value, li) {
				return true, "per-element hash (Reset, Write, Sum)"
			}
			return false, "feeds a running hash in iteration order"
		}
		if pureMethodNames[cc.Method.Name()] {
			return true, ""
		}
		return false, "dynamic call with unknown effect"
	}
	f := cc.StaticCallee()
	if f == nil {
		// a function value: every repository function it can be (closed-world edges of this site) must compute its result
		// from its argument alone — pure, or hashing with an object it resets before every use
		ntargets := 0
		for _, e := range c.G.Out[fn] {
			if e.Site != ssa.Instruction(call) || e.Callee == nil {
				continue
			}
			ntargets++
			if ok, why := c.perCallEffectsOnly(e.Callee); !ok {
				return false, "call of a function value that can be " + core.FuncName(e.Callee) + ": " + why
			}
		}
		if ntargets > 0 {
			return true, "function value whose every target computes from its argument alone"
		}
		return false, "call of a function value with unknown effect"
	}
	if isEntryCtor(f) {
		return true, ""
	}
	if f.Pkg != nil {
		switch f.Pkg.Pkg.Path() {
		case "fmt":
			if f.Name() == "Sprintf" || f.Name() == "Errorf" || f.Name() == "Sprint" {
				return true, ""
			}
		case "path", "strings", "strconv", "errors", "math/bits":
			return true, ""
		}
	}
	if f.Signature.Recv() != nil && (pureMethodNames[f.Name()] || strings.HasPrefix(f.Name(), "Field")) {
		return true, ""
	}
	if _, isRepo := c.P.PkgOf(f); isRepo {
		if c.reachesDagpbStore(f) {
			return true, "recursive builder call (its own result is order-independent by the same rules)"
		}
		if ok, why := c.onlyKeyedInserts(f); ok {
			return true, why
		}
		if usesHashObject(f) {
			// a helper that hashes with an object handed in from outside the loop: per element only if it resets it first
			if ok, why := c.perCallEffectsOnly(f); !ok {
				return false, "calls " + core.FuncName(f) + ", which " + why
			}
			return true, "helper hashing one element at a time (Reset before Write on every path)"
		}
		if c.isPure(f, 0) {
			return true, ""
		}
		return false, "repository function with effects that are not recognised as order-insensitive"
	}
	if f.Signature.Recv() != nil && f.Pkg != nil && (strings.HasPrefix(f.Pkg.Pkg.Path(), "github.com/ipld/") || strings.HasPrefix(f.Pkg.Pkg.Path(), "github.com/ipfs/go-cid")) {
		// generated/typed accessors of ipld nodes
		return true, ""
	}
	if f.Pkg != nil && f.Pkg.Pkg.Path() == "os" && (f.Name() == "Lstat" || f.Name() == "ReadDir" || f.Name() == "Readlink" || f.Name() == "Open") {
		return true, "reads the filesystem entry named by the element (C18)"
	}
	return false, "external call with unknown effect"
}

// assemblerSinkSorted: the assembler value derives from a list builder whose Build() result is assigned into a node
// that is stored with a dag-pb store in this function; for map ranges the names must embed the key.
func (c *Ctx) assemblerSinkSorted(fn *ssa.Function, asm ssa.Value, li loopInfo) bool {
	// the function must store through a dag-pb storing callee after the loop, and contain no other kind of store
	stores := 0
	for _, ci := range core.CallsIn(fn) {
		if li.body[ci.Block()] {
			continue
		}
		f := ci.Common().StaticCallee()
		if f != nil && (len(core.StoreSites(f)) > 0 || c.reachesDagpbStore(f)) {
			if c.usesDagpbProto(ci) {
				stores++
			}
		}
	}
	if stores == 0 {
		return false
	}
	if li.kind == "map" && !c.namesEmbedKey(li) {
		return false
	}
	return true
}

// usesDagpbProto: some argument of the store call is a load of a package-level LinkPrototype whose Codec is dag-pb (0x70).
func (c *Ctx) usesDagpbProto(call ssa.CallInstruction) bool {
	for _, a := range call.Common().Args {
		v := a
		if mi, ok := v.(*ssa.MakeInterface); ok {
			v = mi.X
		}
		u, ok := v.(*ssa.UnOp)
		if !ok {
			continue
		}
		gl, ok := u.X.(*ssa.Global)
		if !ok {
			continue
		}
		// find the init store of Codec
		if gl.Pkg == nil {
			continue
		}
		initFn := gl.Pkg.Func("init")
		if initFn == nil {
			continue
		}
		for _, b := range initFn.Blocks {
			for _, ins := range b.Instrs {
				st, ok := ins.(*ssa.Store)
				if !ok {
					continue
				}
				if core.RootOfAddr(st.Addr) != ssa.Value(gl) {
					continue
				}
				if _, fv, ok := core.FieldAddrOf(st.Addr); ok && fv.Name() == "Codec" {
					if k, ok := core.ConstInt(st.Val); ok && k == 0x70 {
						return true
					}
				}
			}
		}
	}
	return false
}

func (c *Ctx) hashResetInLoop(h ssa.Value, li loopInfo) bool {
	for b := range li.body {
		for _, ins := range b.Instrs {
			if call, ok := ins.(*ssa.Call); ok && call.Call.IsInvoke() && call.Call.Method.Name() == "Reset" && call.Call.Value == h {
				return true
			}
		}
	}
	return false
}

// onlyKeyedInserts: the function's (transitive, within the repo) heap writes are map inserts into its receiver's
// structure keyed by a value computed from its argument (trie insert).
func (c *Ctx) onlyKeyedInserts(f *ssa.Function) (bool, string) {
	seen := map[*ssa.Function]bool{}
	ninserts := 0
	var rec func(f *ssa.Function) bool
	rec = func(f *ssa.Function) bool {
		if seen[f] {
			return true
		}
		seen[f] = true
		for _, b := range f.Blocks {
			for _, ins := range b.Instrs {
				switch x := ins.(type) {
				case *ssa.MapUpdate:
					ninserts++
				case *ssa.Store:
					if _, fresh := rootObject(x.Addr); !fresh {
						if al, ok := core.RootOfAddr(x.Addr).(*ssa.Alloc); ok && al.Parent() == f {
							continue
						}
						return false
					}
				case *ssa.Call:
					g := x.Call.StaticCallee()
					if g == nil {
						if _, isB := x.Call.Value.(*ssa.Builtin); isB {
							continue
						}
						return false
					}
					if _, isRepo := c.P.PkgOf(g); isRepo {
						if !rec(g) {
							return false
						}
					}
				case *ssa.Go, *ssa.Send:
					return false
				}
			}
		}
		return true
	}
	if rec(f) && ninserts > 0 {
		return true, "trie insert: map inserts keyed by hash bits of the element (shape independence of insertion order argued by hand)"
	}
	return false, ""
}

// isPure: no stores to non-local memory, no map updates, only pure callees.
func (c *Ctx) isPure(f *ssa.Function, depth int) bool {
	if depth > 4 || len(f.Blocks) == 0 {
		return false
	}
	for _, b := range f.Blocks {
		for _, ins := range b.Instrs {
			switch x := ins.(type) {
			case *ssa.MapUpdate, *ssa.Go, *ssa.Send:
				return false
			case *ssa.Store:
				if _, fresh := rootObject(x.Addr); !fresh {
					if al, ok := core.RootOfAddr(x.Addr).(*ssa.Alloc); ok && al.Parent() == f {
						continue
					}
					return false
				}
			}
		}
	}
	return true
}

// assertDagpbSort implements D1'.
func (c *Ctx) assertDagpbSort() {
	sp := c.P.DepSSAPkg("github.com/ipld/go-codec-dagpb")
	if sp == nil {
		c.R.Break("go-codec-dagpb not loaded")
		return
	}
	found := ""
	for _, name := range []string{"AppendEncode", "Encode"} {
		fn := sp.Func(name)
		if fn == nil {
			continue
		}
		// the sort may be in a helper called from the encoder: search callees inside the package, depth 2
		var search func(f *ssa.Function, d int) bool
		seen := map[*ssa.Function]bool{}
		search = func(f *ssa.Function, d int) bool {
			if f == nil || seen[f] || d > 2 {
				return false
			}
			seen[f] = true
			for _, ci := range core.CallsIn(f) {
				if core.IsCallTo(ci, "sort", "Stable") || core.IsCallTo(ci, "sort", "SliceStable") || core.IsCallTo(ci, "slices", "SortStableFunc") {
					return true
				}
				if g := ci.Common().StaticCallee(); g != nil && g.Pkg == sp {
					if search(g, d+1) {
						return true
					}
				}
			}
			return false
		}
		if search(fn, 0) {
			found = name
			break
		}
	}
	c.R.Check(found != "", "D1'", "dep:dagpb.Encode/stable-sort-links", "-", "dagpb."+found+" stable-sorts the links by name before encoding", "go-codec-dagpb's encoder does not sort links: link order would leak into the block")
}

// checkReaderFlow implements D3.
func (c *Ctx) checkReaderFlow() {
	r := c.R
	n := 0
	ioReader := func(t types.Type) bool {
		n, ok := types.Unalias(t).(*types.Named)
		return ok && n.Obj().Pkg() != nil && n.Obj().Pkg().Path() == "io" && n.Obj().Name() == "Reader"
	}
	for _, fn := range c.G.Funcs() {
		rel, ok := c.P.PkgOf(fn)
		if !ok || !core.BuilderPkgs[rel] || fn.Object() == nil || !fn.Object().Exported() {
			continue
		}
		for _, p := range fn.Params {
			if !ioReader(p.Type()) {
				continue
			}
			n++
			key := core.FuncName(fn) + "/reader:" + p.Name()
			var bad []string
			for _, ref := range *p.Referrers() {
				if _, isDbg := ref.(*ssa.DebugRef); isDbg {
					continue
				}
				call, ok := ref.(*ssa.Call)
				if !ok || call.Call.StaticCallee() == nil || call.Call.StaticCallee().Pkg == nil || !strings.HasSuffix(call.Call.StaticCallee().Pkg.Pkg.Path(), "/chunker") {
					bad = append(bad, fmt.Sprintf("used by %T at %s", ref, c.P.Pos(ref.Pos())))
				}
			}
			r.Check(len(bad) == 0, "D3", key, c.P.Pos(fn.Pos()), "the source reader is handed only to the chunker constructor", "the builder reads the source itself: "+strings.Join(bad, "; "))
		}
	}
	r.Floor("D3", n, 1)
	// dependency assertion: splitters read through io.ReadFull only
	sp := c.P.DepSSAPkg("github.com/ipfs/boxo/chunker")
	if sp == nil {
		r.Break("boxo/chunker not loaded")
		return
	}
	for _, tn := range []string{"sizeSplitterv2", "Buzhash"} {
		t := sp.Type(tn)
		if t == nil {
			r.Break("boxo/chunker.%s not found", tn)
			continue
		}
		ms := c.P.SSA.MethodSets.MethodSet(types.NewPointer(t.Type()))
		var nb *ssa.Function
		for i := 0; i < ms.Len(); i++ {
			if ms.At(i).Obj().Name() == "NextBytes" {
				nb = c.P.SSA.MethodValue(ms.At(i))
			}
		}
		if nb == nil {
			r.Break("boxo/chunker.%s.NextBytes not found", tn)
			continue
		}
		readFull, direct := false, false
		for _, ci := range core.CallsIn(nb) {
			if core.IsCallTo(ci, "io", "ReadFull") {
				readFull = true
			}
			if ci.Common().IsInvoke() && ci.Common().Method.Name() == "Read" {
				direct = true
			}
		}
		r.Check(readFull && !direct, "D3", "dep:boxo/chunker."+tn+".NextBytes/read-full", "-", "fills each chunk with io.ReadFull (short reads of the source are retried)", "splitter reads the source directly: fragmentation of the input would change chunk boundaries")
	}
	_ = constant.MakeBool
}

// isRangeUse: len(x) or &x[i] as produced by the lowering of `for … range x`.
func isRangeUse(ins ssa.Instruction) bool {
	switch x := ins.(type) {
	case *ssa.Call:
		if b, ok := x.Call.Value.(*ssa.Builtin); ok && b.Name() == "len" {
			return true
		}
	case *ssa.IndexAddr:
		return true
	}
	return false
}

// valueConsumedOrderInsensitively: slice value v of function fn is only re-iterated by order-insensitive range loops or
// handed to dag-pb storing builders.
func (c *Ctx) valueConsumedOrderInsensitively(fn *ssa.Function, v ssa.Value) (bool, string) {
	uses := 0
	for _, ref := range *v.Referrers() {
		if _, isDbg := ref.(*ssa.DebugRef); isDbg {
			continue
		}
		if isRangeUse(ref) {
			for _, l2 := range rangeLoops(fn) {
				if l2.kind == "slice" && l2.rng == v {
					if ok, why := c.orderInsensitive(l2); !ok {
						return false, "the loop that consumes it is order-dependent: " + why
					}
					uses++
				}
			}
			continue
		}
		if call, ok := ref.(*ssa.Call); ok {
			if b, isB := call.Call.Value.(*ssa.Builtin); isB && (b.Name() == "len" || b.Name() == "cap") {
				continue
			}
			f := call.Call.StaticCallee()
			if f != nil && (len(core.StoreSites(f)) > 0 || c.reachesDagpbStore(f)) {
				uses++
				continue
			}
			return false, "it is handed to " + calleeShort(call)
		}
		return false, fmt.Sprintf("it is used by %T", ref)
	}
	return uses > 0, "it is not consumed"
}

// valueConsumedOrderInsensitivelyAfter: like valueConsumedOrderInsensitively, ignoring the uses of v inside loop li (the
// element stores that fill it).
func (c *Ctx) valueConsumedOrderInsensitivelyAfter(fn *ssa.Function, v ssa.Value, li loopInfo) (bool, string) {
	uses := 0
	for _, ref := range *v.Referrers() {
		if _, isDbg := ref.(*ssa.DebugRef); isDbg {
			continue
		}
		if li.body[ref.Block()] {
			if _, isIdx := ref.(*ssa.IndexAddr); isIdx {
				continue
			}
		}
		if isRangeUse(ref) {
			for _, l2 := range rangeLoops(fn) {
				if l2.kind == "slice" && l2.rng == v {
					if ok, why := c.orderInsensitive(l2); !ok {
						return false, "the loop that consumes it is order-dependent: " + why
					}
					uses++
				}
			}
			continue
		}
		if call, ok := ref.(*ssa.Call); ok {
			if b, isB := call.Call.Value.(*ssa.Builtin); isB && (b.Name() == "len" || b.Name() == "cap") {
				continue
			}
			f := call.Call.StaticCallee()
			if f != nil && (len(core.StoreSites(f)) > 0 || c.reachesDagpbStore(f)) {
				uses++
				continue
			}
			return false, "it is handed to " + calleeShort(call)
		}
		if _, isIdx := ref.(*ssa.IndexAddr); isIdx {
			return false, "it is indexed outside the filling loop"
		}
		return false, fmt.Sprintf("it is used by %T", ref)
	}
	return uses > 0, "it is not consumed"
}

// checkBuilderErrors implements D4.
func (c *Ctx) checkBuilderErrors() {
	r := c.R
	n := 0
	for _, fn := range c.G.Funcs() {
		rel, ok := c.P.PkgOf(fn)
		if !ok || !core.BuilderPkgs[rel] || fn.Synthetic != "" || core.ErrResultIndex(fn.Signature) < 0 {
			continue
		}
		ord := map[string]int{}
		for _, ci := range core.CallsIn(fn) {
			call, ok := ci.(*ssa.Call)
			if !ok || core.ErrResultIndex(call.Call.Signature()) < 0 {
				continue
			}
			// scope: repository callees, and calls into the packages through which the caller's input or the environment
			// can fail at run time (readers, the chunker, the file system, hasher look-up). In-memory assembler calls of
			// go-ipld-prime / go-codec-dagpb and hash.Hash writes cannot fail on well-typed values and are judged by C16
			// where they carry a store.
			inScope := false
			if f := call.Call.StaticCallee(); f != nil {
				if _, isRepo := c.P.PkgOf(f); isRepo {
					inScope = true
				} else if f.Pkg != nil {
					switch pp := f.Pkg.Pkg.Path(); {
					case pp == "os" || pp == "io" || pp == "io/fs" || pp == "bufio" || strings.HasSuffix(pp, "/chunker") || strings.HasSuffix(pp, "go-multihash"):
						inScope = true
					}
				}
			} else if call.Call.IsInvoke() {
				if nn, ok := types.Unalias(call.Call.Value.Type()).(*types.Named); ok && nn.Obj().Pkg() != nil {
					switch pp := nn.Obj().Pkg().Path(); {
					case pp == "io" || pp == "io/fs" || strings.HasSuffix(pp, "/chunker"):
						inScope = true
					}
					if c.P.IsRepoPkg(nn.Obj().Pkg()) {
						inScope = true
					}
				}
			}
			if !inScope {
				continue
			}
			name := core.CalleeName(call)
			ord[name]++
			n++
			key := fmt.Sprintf("%s/err:%s#%d", core.FuncName(fn), shorten(strings.ReplaceAll(name, core.Module+"/", "")), ord[name])
			probs, _, complete := core.CheckErrPropagatedOpt(fn, call, true)
			if !complete {
				r.Undecided("D4", key, c.P.Pos(call.Pos()), "path enumeration exceeded its bound")
				continue
			}
			var ss []string
			for _, p := range probs {
				ss = append(ss, fmt.Sprintf("%s [return at %s]", p.What, c.P.Pos(p.Pos)))
			}
			r.Check(len(probs) == 0, "D4", key, c.P.Pos(call.Pos()), "error propagated", "an error is dropped: the build goes on with partial state and its result depends on where the failure fell: "+uniqJoin(ss))
		}
	}
	r.Floor("D4", n, 15)
}

// usesHashObject: f writes to or sums a hash.Hash-like interface value (an interface with Reset and Sum).
func usesHashObject(f *ssa.Function) bool {
	for _, ci := range core.CallsIn(f) {
		cc := ci.Common()
		if !cc.IsInvoke() {
			continue
		}
		switch cc.Method.Name() {
		case "Write", "Sum", "Sum64", "Sum32":
			if it, ok := cc.Value.Type().Underlying().(*types.Interface); ok {
				hasReset, hasSum := false, false
				for i := 0; i < it.NumMethods(); i++ {
					switch it.Method(i).Name() {
					case "Reset":
						hasReset = true
					case "Sum":
						hasSum = true
					}
				}
				if hasReset && hasSum {
					return true
				}
			}
		}
	}
	return false
}

// freshObject: the value is the result of a call made in this very function (a hasher made per call has no history).
func freshObject(v ssa.Value) bool {
	for i := 0; i < 4; i++ {
		switch x := v.(type) {
		case *ssa.Call:
			return !x.Call.IsInvoke()
		case *ssa.Extract:
			v = x.Tuple
		case *ssa.TypeAssert:
			v = x.X
		case *ssa.ChangeInterface:
			v = x.X
		case *ssa.MakeInterface:
			v = x.X
		default:
			return false
		}
	}
	return false
}

// perCallEffectsOnly: t keeps nothing from one call to the next: it writes no captured variable, global or heap object,
// and every stateful hash object it uses (Write/Sum on an interface value) is Reset in t before the first Write.
func (c *Ctx) perCallEffectsOnly(t *ssa.Function) (bool, string) {
	if t == nil || len(t.Blocks) == 0 {
		return false, "no body"
	}
	if !c.isPure(t, 0) {
		return false, "writes state that outlives the call"
	}
	// the object a method is invoked on: a captured variable is reloaded at every use
	obj := func(v ssa.Value) ssa.Value {
		if u, ok := v.(*ssa.UnOp); ok && u.Op == token.MUL {
			if fv, ok := u.X.(*ssa.FreeVar); ok {
				return fv
			}
		}
		return v
	}
	resets := map[ssa.Value]*ssa.Call{}
	for _, ci := range core.CallsIn(t) {
		call, ok := ci.(*ssa.Call)
		if ok && call.Call.IsInvoke() && call.Call.Method.Name() == "Reset" {
			resets[obj(call.Call.Value)] = call
		}
	}
	for _, ci := range core.CallsIn(t) {
		call, ok := ci.(*ssa.Call)
		if !ok {
			return false, "defer/go"
		}
		cc := call.Common()
		if _, isB := cc.Value.(*ssa.Builtin); isB {
			continue
		}
		if cc.IsInvoke() {
			switch cc.Method.Name() {
			case "Reset":
				continue
			case "Write", "Sum", "Sum64", "Sum32":
				if freshObject(cc.Value) {
					continue
				}
				rc := resets[obj(cc.Value)]
				if rc == nil || !(rc.Block() == call.Block() && rc.Pos() < call.Pos() || rc.Block() != call.Block() && rc.Block().Dominates(call.Block())) {
					return false, "feeds a hash object kept between calls without resetting it first (the result depends on the names hashed before)"
				}
				continue
			}
			if pureMethodNames[cc.Method.Name()] {
				continue
			}
			return false, "dynamic call " + cc.Method.Name()
		}
		f := cc.StaticCallee()
		if f == nil {
			return false, "nested function value"
		}
		if _, isRepo := c.P.PkgOf(f); isRepo {
			if !c.isPure(f, 1) {
				return false, "calls " + f.Name()
			}
			continue
		}
		// dependency / library functions applied to the argument: hashing, encoding, conversions
		if f.Pkg != nil {
			switch f.Pkg.Pkg.Path() {
			case "encoding/binary", "strings", "strconv", "fmt", "bytes", "math/bits", "unicode/utf8", "github.com/spaolacci/murmur3":
				continue
			}
		}
		return false, "external call " + core.CalleeName(call)
	}
	return true, ""
}
