package rules

import (
	"fmt"
	"go/ast"
	"go/constant"
	"go/token"
	"go/types"
	"sort"
	"strings"

	"golang.org/x/tools/go/ssa"

	"verifchk/internal/core"
)

// ---------------------------------------------------------------------------
// R9.4: finite-state exploration of a decoder loop over conformant presentations
// ---------------------------------------------------------------------------

type absv int

const (
	aUnknown absv = iota
	aTrue
	aFalse
	aNil
	aNonNil
)

// small integer constants (an enum-typed state variable) are absv values from aConstBase upwards
const aConstBase absv = 100

func (a absv) String() string {
	if a >= aConstBase {
		return fmt.Sprintf("k%d", int(a-aConstBase))
	}
	return [...]string{"?", "T", "F", "nil", "set"}[a]
}

type symb struct {
	name string
	num  int64
	wt   int64
	kind string // "O" other, "V" unpacked occurrence of the repeated field, "P" packed run
}

type mstate struct {
	phis  map[*ssa.Phi]absv
	cells map[*ssa.Alloc]absv
	count int
	shape int // 0 none, 1 V seen, 2 P seen
	trace []string
}

func (s *mstate) key(order []*ssa.Phi, corder []*ssa.Alloc) string {
	var sb strings.Builder
	for _, p := range order {
		sb.WriteString(s.phis[p].String())
		sb.WriteByte(',')
	}
	for _, a := range corder {
		sb.WriteString(s.cells[a].String())
		sb.WriteByte(',')
	}
	fmt.Fprintf(&sb, "c%d,s%d", s.count, s.shape)
	return sb.String()
}

func trackedType(t types.Type) bool {
	if b, ok := t.Underlying().(*types.Basic); ok {
		return b.Kind() == types.Bool || b.Info()&types.IsInteger != 0
	}
	return nilable(t)
}

type interp struct {
	c        *Ctx
	d        *decoder
	repKey   string
	more     bool
	sym      symb
	bytePhis map[ssa.Value]bool // header phis of type []byte (the input cursor)
}

// eval returns the abstract value and where it came from: "state", "scenario", "assume", "unknown".
func (it *interp) eval(v ssa.Value, env map[ssa.Value]absv, cells map[*ssa.Alloc]absv) (absv, string) {
	if a, ok := env[v]; ok {
		return a, "state"
	}
	switch x := v.(type) {
	case *ssa.Const:
		if x.Value == nil {
			return aNil, "state"
		}
		if x.Value.Kind() == constant.Bool {
			if constant.BoolVal(x.Value) {
				return aTrue, "state"
			}
			return aFalse, "state"
		}
		if k, ok := core.ConstInt(x); ok && k >= 0 && k < 64 {
			return aConstBase + absv(k), "state"
		}
		return aUnknown, "unknown"
	case *ssa.Convert:
		if a, src := it.eval(x.X, env, cells); a >= aConstBase {
			return a, src
		}
		return aUnknown, "unknown"
	case *ssa.ChangeType:
		if a, src := it.eval(x.X, env, cells); a >= aConstBase {
			return a, src
		}
		return aUnknown, "unknown"
	case *ssa.UnOp:
		if x.Op == token.NOT {
			a, src := it.eval(x.X, env, cells)
			switch a {
			case aTrue:
				return aFalse, src
			case aFalse:
				return aTrue, src
			}
			return aUnknown, "unknown"
		}
		if x.Op == token.MUL {
			if al, ok := x.X.(*ssa.Alloc); ok {
				if a, ok := cells[al]; ok {
					return a, "state"
				}
			}
		}
		return aUnknown, "unknown"
	case *ssa.MakeInterface, *ssa.Alloc, *ssa.MakeClosure, *ssa.MakeMap, *ssa.MakeSlice:
		return aNonNil, "state"
	case *ssa.Call:
		if core.IsErrorType(x.Type()) {
			return aNil, "assume"
		}
		if nilable(x.Type()) {
			return aNonNil, "assume"
		}
		return aUnknown, "unknown"
	case *ssa.Extract:
		if core.IsErrorType(x.Type()) {
			return aNil, "assume"
		}
		if nilable(x.Type()) {
			return aNonNil, "assume"
		}
		return aUnknown, "unknown"
	case *ssa.BinOp:
		// scenario: field number / wire type
		if x.Op == token.EQL || x.Op == token.NEQ {
			for _, pair := range [][2]ssa.Value{{x.X, x.Y}, {x.Y, x.X}} {
				if k, ok := core.ConstInt(pair[1]); ok {
					var cur int64
					match := false
					if core.Unconv(pair[0]) == it.d.fieldNum {
						cur, match = it.sym.num, true
					} else if core.Unconv(pair[0]) == it.d.wireType {
						cur, match = it.sym.wt, true
					}
					if match {
						if (cur == k) == (x.Op == token.EQL) {
							return aTrue, "scenario"
						}
						return aFalse, "scenario"
					}
				}
			}
			// two known small constants (enum-typed state variable against one of its values)
			{
				la, ls := it.eval(x.X, env, cells)
				ra, rs := it.eval(x.Y, env, cells)
				if la >= aConstBase && ra >= aConstBase {
					src := ls
					if rs != "state" {
						src = rs
					}
					if (la == ra) == (x.Op == token.EQL) {
						return aTrue, src
					}
					return aFalse, src
				}
			}
			if y, trueMeansNil, ok := core.NilCmp(x); ok {
				a, src := it.eval(y, env, cells)
				switch a {
				case aNil:
					if trueMeansNil {
						return aTrue, src
					}
					return aFalse, src
				case aNonNil:
					if trueMeansNil {
						return aFalse, src
					}
					return aTrue, src
				}
				return aUnknown, "unknown"
			}
		}
		// more input?
		if call, ok := x.X.(*ssa.Call); ok {
			if b, ok := call.Call.Value.(*ssa.Builtin); ok && b.Name() == "len" && it.bytePhis[call.Call.Args[0]] {
				if k, ok := core.ConstInt(x.Y); ok && k == 0 {
					switch x.Op {
					case token.NEQ, token.GTR:
						if it.more {
							return aTrue, "scenario"
						}
						return aFalse, "scenario"
					case token.EQL, token.LEQ:
						if it.more {
							return aFalse, "scenario"
						}
						return aTrue, "scenario"
					}
				}
			}
		}
		// parse succeeded: n < 0 is false for lengths returned by protowire.Consume*
		if t, onT, onF, ok := core.SignTest(x); ok {
			if isConsumeLen(t) {
				if onT == "neg" {
					return aFalse, "assume"
				}
				if onF == "neg" {
					return aTrue, "assume"
				}
			}
		}
		return aUnknown, "unknown"
	}
	return aUnknown, "unknown"
}

func isConsumeLen(v ssa.Value) bool {
	if ex, ok := v.(*ssa.Extract); ok {
		if call, ok := ex.Tuple.(*ssa.Call); ok {
			return strings.HasPrefix(pwName(call), "Consume")
		}
	}
	if call, ok := v.(*ssa.Call); ok {
		return strings.HasPrefix(pwName(call), "Consume")
	}
	return false
}

type outcome struct {
	toHeader bool
	st       *mstate
	retNil   bool
	stateRej bool
	retPos   token.Pos
}

// runIteration explores all paths from the loop header (phis already bound from st) to the header again or to a return.
func (it *interp) runIteration(st *mstate, order []*ssa.Phi) ([]outcome, bool) {
	var outs []outcome
	header := it.d.header
	budget := 20000
	complete := true
	type frame struct {
		env     map[ssa.Value]absv
		cells   map[*ssa.Alloc]absv
		count   int
		lastSrc string
	}
	var walk func(b, pred *ssa.BasicBlock, f frame, visits map[*ssa.BasicBlock]int, first bool)
	walk = func(b, pred *ssa.BasicBlock, f frame, visits map[*ssa.BasicBlock]int, first bool) {
		budget--
		if budget < 0 {
			complete = false
			return
		}
		if b == header && !first {
			ns := &mstate{phis: map[*ssa.Phi]absv{}, cells: map[*ssa.Alloc]absv{}, count: f.count, shape: st.shape}
			for _, p := range order {
				e := core.PhiValueOnPath(p, pred)
				a, _ := it.eval(e, f.env, f.cells)
				ns.phis[p] = a
			}
			for k, v := range f.cells {
				ns.cells[k] = v
			}
			outs = append(outs, outcome{toHeader: true, st: ns})
			return
		}
		if visits[b] >= 2 {
			return
		}
		visits[b]++
		defer func() { visits[b]-- }()
		env := f.env
		if !first || b != header {
			// bind phis of this block
			newEnv := make(map[ssa.Value]absv, len(env)+4)
			for k, v := range env {
				newEnv[k] = v
			}
			for _, ins := range b.Instrs {
				phi, ok := ins.(*ssa.Phi)
				if !ok {
					break
				}
				if trackedType(phi.Type()) {
					a, _ := it.eval(core.PhiValueOnPath(phi, pred), env, f.cells)
					newEnv[phi] = a
				}
			}
			env = newEnv
		}
		cells := f.cells
		count := f.count
		for _, ins := range b.Instrs {
			switch x := ins.(type) {
			case *ssa.Store:
				if al, ok := x.Addr.(*ssa.Alloc); ok && trackedType(al.Type().Underlying().(*types.Pointer).Elem()) {
					a, _ := it.eval(x.Val, env, cells)
					nc := make(map[*ssa.Alloc]absv, len(cells)+1)
					for k, v := range cells {
						nc[k] = v
					}
					nc[al] = a
					cells = nc
				}
			case *ssa.Call:
				if core.IsCallTo(x, qpPath, "MapEntry") {
					if k, ok := x.Call.Args[1].(*ssa.Const); ok && k.Value != nil && k.Value.Kind() == constant.String && constant.StringVal(k.Value) == it.repKey {
						if count < 2 {
							count++
						}
					}
				} else if it.c.assemblesKeyOnce(x.Call.StaticCallee(), it.repKey) {
					if count < 2 {
						count++
					}
				}
			case *ssa.Return:
				last := x.Results[len(x.Results)-1]
				if core.IsNilConst(last) {
					outs = append(outs, outcome{retNil: true, st: &mstate{count: count, shape: st.shape}, retPos: x.Pos()})
				} else {
					outs = append(outs, outcome{retNil: false, stateRej: f.lastSrc == "state", st: &mstate{count: count, shape: st.shape}, retPos: x.Pos()})
				}
				return
			case *ssa.Panic:
				return
			}
		}
		nf := frame{env: env, cells: cells, count: count, lastSrc: f.lastSrc}
		if iff := core.BlockIf(b); iff != nil && len(b.Succs) == 2 {
			a, src := it.eval(iff.Cond, env, cells)
			switch a {
			case aTrue:
				nf.lastSrc = src
				walk(b.Succs[0], b, nf, visits, false)
			case aFalse:
				nf.lastSrc = src
				walk(b.Succs[1], b, nf, visits, false)
			default:
				nf.lastSrc = "unknown"
				walk(b.Succs[0], b, nf, visits, false)
				walk(b.Succs[1], b, nf, visits, false)
			}
			return
		}
		for _, s := range b.Succs {
			walk(s, b, nf, visits, false)
		}
	}
	env := map[ssa.Value]absv{}
	for p, a := range st.phis {
		env[p] = a
	}
	walk(header, nil, frame{env: env, cells: st.cells, count: st.count, lastSrc: "scenario"}, map[*ssa.BasicBlock]int{}, true)
	return outs, complete
}

func (c *Ctx) checkMultiplicity(d *decoder, rep *decCase, ref map[int64]refField) {
	key := fmt.Sprintf("data.%s/repeated#%d", d.fn.Name(), rep.num)
	pos := c.P.Pos(d.fn.Pos())
	if d.header == nil {
		c.R.Undecided("R9.4", key, pos, "decoder loop header not found")
		return
	}
	if len(rep.fields) != 1 {
		c.R.Undecided("R9.4", key, pos, "cannot name the schema key of the repeated field")
		return
	}
	it := &interp{c: c, d: d, repKey: keysOf(rep.fields), bytePhis: map[ssa.Value]bool{}}
	nsites := 0
	for _, ci := range core.CallsIn(d.fn) {
		if call, ok := ci.(*ssa.Call); ok && core.IsCallTo(call, qpPath, "MapEntry") {
			if k, ok := call.Call.Args[1].(*ssa.Const); ok && k.Value != nil && k.Value.Kind() == constant.String && constant.StringVal(k.Value) == it.repKey {
				nsites++
			}
		}
	}
	for _, ci := range core.CallsIn(d.fn) {
		if call, ok := ci.(*ssa.Call); ok && c.assemblesKeyOnce(call.Call.StaticCallee(), it.repKey) {
			nsites++
		}
	}
	c.R.Analysed["R9.4_assembly_sites"] = nsites
	if nsites == 0 {
		c.R.Undecided("R9.4", key, pos, "no direct assembly site of the repeated key in the decoder")
		return
	}
	var order []*ssa.Phi
	for _, ins := range d.header.Instrs {
		phi, ok := ins.(*ssa.Phi)
		if !ok {
			break
		}
		if sl, ok := phi.Type().Underlying().(*types.Slice); ok && isBasic(sl.Elem(), types.Byte) {
			it.bytePhis[phi] = true
			continue
		}
		if trackedType(phi.Type()) {
			order = append(order, phi)
		}
	}
	var corder []*ssa.Alloc
	for _, b := range d.fn.Blocks {
		for _, ins := range b.Instrs {
			if al, ok := ins.(*ssa.Alloc); ok && trackedType(al.Type().Underlying().(*types.Pointer).Elem()) {
				corder = append(corder, al)
			}
		}
	}
	// alphabet
	var syms []symb
	for _, dc := range d.cases {
		rf, ok := ref[dc.num]
		if !ok {
			continue
		}
		if dc == rep {
			syms = append(syms, symb{name: fmt.Sprintf("#%d/unpacked", dc.num), num: dc.num, wt: rf.WT, kind: "V"})
			syms = append(syms, symb{name: fmt.Sprintf("#%d/packed", dc.num), num: dc.num, wt: wtBytes, kind: "P"})
		} else {
			syms = append(syms, symb{name: fmt.Sprintf("#%d", dc.num), num: dc.num, wt: rf.WT, kind: "O"})
		}
	}
	syms = append(syms, symb{name: "unknown-field", num: 1 << 20, wt: wtVarint, kind: "O"})
	// initial state: header phis from the entry edge
	init := &mstate{phis: map[*ssa.Phi]absv{}, cells: map[*ssa.Alloc]absv{}}
	var entryPred *ssa.BasicBlock
	for _, p := range d.header.Preds {
		if !d.header.Dominates(p) {
			entryPred = p
		}
	}
	if entryPred == nil {
		c.R.Undecided("R9.4", key, pos, "loop entry edge not found")
		return
	}
	for _, p := range order {
		a, _ := it.eval(core.PhiValueOnPath(p, entryPred), map[ssa.Value]absv{}, nil)
		init.phis[p] = a
	}
	for _, al := range corder {
		init.cells[al] = aUnknown
		// zero value of a declared local: false / nil
		if b, ok := al.Type().Underlying().(*types.Pointer).Elem().Underlying().(*types.Basic); ok && b.Kind() == types.Bool {
			init.cells[al] = aFalse
		} else if ok && b.Info()&types.IsInteger != 0 {
			init.cells[al] = aConstBase
		} else {
			init.cells[al] = aNil
		}
	}
	seen := map[string]bool{init.key(order, corder): true}
	queue := []*mstate{init}
	var viol []string
	nstates, ntrans := 0, 0
	undecided := false
	for len(queue) > 0 && len(viol) < 4 {
		st := queue[0]
		queue = queue[1:]
		nstates++
		// exit action
		it.more = false
		it.sym = symb{name: "<end>", num: -1, wt: -1}
		outs, ok := it.runIteration(st, order)
		if !ok {
			undecided = true
		}
		ntrans++
		for _, o := range outs {
			tr := strings.Join(append(append([]string{}, st.trace...), "<end>"), " ")
			if o.toHeader {
				continue
			}
			if o.retNil && o.st.count != 1 {
				viol = append(viol, fmt.Sprintf("presentation [%s]: returns nil at %s having assembled %q %d time(s) (want exactly 1)", tr, c.P.Pos(o.retPos), it.repKey, o.st.count))
			}
			if !o.retNil && o.stateRej {
				viol = append(viol, fmt.Sprintf("presentation [%s]: conformant input rejected at %s by a guard on decoder state", tr, c.P.Pos(o.retPos)))
			}
		}
		// steps
		for _, sy := range syms {
			if sy.kind == "V" && st.shape == 2 {
				continue
			}
			if sy.kind == "P" && st.shape != 0 {
				continue
			}
			it.more = true
			it.sym = sy
			outs, ok := it.runIteration(st, order)
			if !ok {
				undecided = true
			}
			ntrans++
			for _, o := range outs {
				tr := append(append([]string{}, st.trace...), sy.name)
				if !o.toHeader {
					if !o.retNil && o.stateRej {
						viol = append(viol, fmt.Sprintf("presentation [%s …]: conformant input rejected at %s by a guard on decoder state", strings.Join(tr, " "), c.P.Pos(o.retPos)))
					}
					if o.retNil {
						viol = append(viol, fmt.Sprintf("presentation [%s …]: returns nil at %s before the input is exhausted", strings.Join(tr, " "), c.P.Pos(o.retPos)))
					}
					continue
				}
				ns := o.st
				switch sy.kind {
				case "V":
					ns.shape = 1
				case "P":
					ns.shape = 2
				default:
					ns.shape = st.shape
				}
				ns.trace = tr
				k := ns.key(order, corder)
				if !seen[k] {
					seen[k] = true
					queue = append(queue, ns)
				}
			}
		}
	}
	c.R.Analysed["R9.4_states"] = nstates
	c.R.Analysed["R9.4_transitions"] = ntrans
	if undecided {
		c.R.Undecided("R9.4", key, pos, "path budget exceeded inside one loop iteration")
		return
	}
	if len(viol) > 0 {
		c.R.Violate("R9.4", key, pos, uniqJoin(viol))
	} else {
		c.R.OK("R9.4", key, pos, fmt.Sprintf("%d abstract states × %d presentations: %q assembled exactly once on every accepted conformant presentation", nstates, len(syms)+1, it.repKey))
	}
}

// ---------------------------------------------------------------------------
// R9.5 order and framing
// ---------------------------------------------------------------------------

func (c *Ctx) checkEncoderOrder(encs []encEntry) {
	byFn := map[*ssa.Function]map[*ssa.Call]int64{}
	for _, e := range encs {
		if byFn[e.fn] == nil {
			byFn[e.fn] = map[*ssa.Call]int64{}
		}
		byFn[e.fn][e.call] = e.num
	}
	var fns []*ssa.Function
	for f := range byFn {
		fns = append(fns, f)
	}
	sort.Slice(fns, func(i, j int) bool { return fns[i].Name() < fns[j].Name() })
	for _, fn := range fns {
		tags := byFn[fn]
		key := "data." + fn.Name() + "/field-order"
		var bad []string
		npaths := 0
		complete := core.EnumPaths(fn, 2, 200000, func(path []*ssa.BasicBlock) {
			npaths++
			var lastNum int64 = -1
			var lastCall *ssa.Call
			for _, b := range path {
				for _, ins := range b.Instrs {
					call, ok := ins.(*ssa.Call)
					if !ok {
						continue
					}
					n, ok := tags[call]
					if !ok {
						continue
					}
					if n < lastNum || (n == lastNum && call != lastCall) {
						bad = append(bad, fmt.Sprintf("field #%d emitted after #%d (at %s)", n, lastNum, c.P.Pos(call.Pos())))
					}
					lastNum, lastCall = n, call
				}
			}
		})
		if !complete {
			c.R.Undecided("R9.5", key, c.P.Pos(fn.Pos()), "path enumeration exceeded its bound")
		} else if len(bad) > 0 {
			c.R.Violate("R9.5", key, c.P.Pos(fn.Pos()), uniqJoin(bad))
		} else {
			c.R.OK("R9.5", key, c.P.Pos(fn.Pos()), fmt.Sprintf("%d paths: field numbers strictly increasing (repeated field loop excepted)", npaths))
		}
	}
}

type sizeAlt struct {
	conds map[string]bool
	terms []string
}

func (a sizeAlt) String() string {
	var cs []string
	for k, v := range a.conds {
		cs = append(cs, fmt.Sprintf("%s=%v", k, v))
	}
	sort.Strings(cs)
	ts := append([]string{}, a.terms...)
	sort.Strings(ts)
	return "[" + strings.Join(cs, ",") + "]{" + strings.Join(ts, "+") + "}"
}

func mergeAlt(a, b sizeAlt) (sizeAlt, bool) {
	out := sizeAlt{conds: map[string]bool{}}
	for k, v := range a.conds {
		out.conds[k] = v
	}
	for k, v := range b.conds {
		if w, ok := out.conds[k]; ok && w != v {
			return out, false
		}
		out.conds[k] = v
	}
	out.terms = append(append([]string{}, a.terms...), b.terms...)
	return out, true
}

var sizeTerm = map[string]string{"SizeVarint": "varint", "SizeFixed32": "fixed32", "SizeFixed64": "fixed64", "SizeBytes": "bytes"}
var appendTerm = map[string]string{"AppendVarint": "varint", "AppendFixed32": "fixed32", "AppendFixed64": "fixed64", "AppendBytes": "bytes", "AppendString": "bytes"}

// existsCond decodes `X.Exists()` on an accessor of package data into the accessor's field name.
func (c *Ctx) existsCond(v ssa.Value) string {
	call, ok := v.(*ssa.Call)
	if !ok {
		return ""
	}
	f := call.Call.StaticCallee()
	if f == nil || f.Name() != "Exists" || len(call.Call.Args) == 0 {
		return ""
	}
	return c.traceAccessor(call.Call.Args[0])
}

func (c *Ctx) sizeAlts(v ssa.Value, depth int) ([]sizeAlt, bool) {
	if depth > 20 {
		return nil, false
	}
	switch x := v.(type) {
	case *ssa.Const:
		if k, ok := core.ConstInt(x); ok && k == 0 {
			return []sizeAlt{{conds: map[string]bool{}}}, true
		}
		return nil, false
	case *ssa.Convert:
		return c.sizeAlts(x.X, depth+1)
	case *ssa.BinOp:
		if x.Op != token.ADD {
			return nil, false
		}
		l, ok1 := c.sizeAlts(x.X, depth+1)
		r, ok2 := c.sizeAlts(x.Y, depth+1)
		if !ok1 || !ok2 {
			return nil, false
		}
		var out []sizeAlt
		for _, a := range l {
			for _, b := range r {
				if m, ok := mergeAlt(a, b); ok {
					out = append(out, m)
				}
			}
		}
		return out, true
	case *ssa.Call:
		nm := pwName(x)
		if nm == "SizeTag" {
			if k, ok := core.ConstInt(x.Call.Args[0]); ok {
				return []sizeAlt{{conds: map[string]bool{}, terms: []string{fmt.Sprintf("tag:%d", k)}}}, true
			}
		}
		if t, ok := sizeTerm[nm]; ok {
			return []sizeAlt{{conds: map[string]bool{}, terms: []string{t}}}, true
		}
		// a repository helper that computes the size: the alternatives of its returned value
		if h := x.Call.StaticCallee(); h != nil && len(h.Blocks) > 0 {
			if rel, ok := c.P.PkgOf(h); ok && rel == "data" {
				var out []sizeAlt
				for _, ret := range core.Returns(h) {
					alts, ok := c.sizeAlts(ret.Results[0], depth+1)
					if !ok {
						return nil, false
					}
					out = append(out, alts...)
				}
				return out, len(out) > 0
			}
		}
		return nil, false
	case *ssa.Phi:
		d := x.Block().Idom()
		if d == nil {
			return nil, false
		}
		iff := core.BlockIf(d)
		if iff == nil {
			return nil, false
		}
		cname := c.existsCond(iff.Cond)
		if cname == "" {
			return nil, false
		}
		var out []sizeAlt
		for i, e := range x.Edges {
			pred := x.Block().Preds[i]
			var val bool
			switch {
			case pred == d:
				val = d.Succs[0] == x.Block()
			case d.Succs[0].Dominates(pred) && !d.Succs[1].Dominates(pred):
				val = true
			case d.Succs[1].Dominates(pred) && !d.Succs[0].Dominates(pred):
				val = false
			default:
				return nil, false
			}
			alts, ok := c.sizeAlts(e, depth+1)
			if !ok {
				return nil, false
			}
			for _, a := range alts {
				if m, ok := mergeAlt(a, sizeAlt{conds: map[string]bool{cname: val}}); ok {
					out = append(out, m)
				}
			}
		}
		return out, true
	}
	return nil, false
}

func (c *Ctx) checkFraming(encs []encEntry) {
	n := 0
	for _, e := range encs {
		if !strings.HasPrefix(e.app, "length-prefixed ") {
			continue
		}
		n++
		key := fmt.Sprintf("data.%s/framing#%d", e.fn.Name(), e.num)
		pos := c.P.Pos(e.call.Pos())
		// AppendVarint(tag, size) then callee(enc, sub)
		var sizeV ssa.Value
		var nested *ssa.Function
		for _, ref := range *e.call.Referrers() {
			if rc, ok := ref.(*ssa.Call); ok && isPW(rc, "AppendVarint") && rc.Call.Args[0] == ssa.Value(e.call) {
				sizeV = rc.Call.Args[1]
				for _, r2 := range *rc.Referrers() {
					if nc, ok := r2.(*ssa.Call); ok && len(nc.Call.Args) > 0 && nc.Call.Args[0] == ssa.Value(rc) {
						nested = nc.Call.StaticCallee()
					}
				}
			}
		}
		if sizeV == nil || nested == nil {
			c.R.Undecided("R9.5", key, pos, "cannot find the length prefix / nested encoder")
			continue
		}
		want, ok := c.sizeAlts(sizeV, 0)
		if !ok {
			c.R.Undecided("R9.5", key, pos, "length prefix is not a sum of protowire.Size* terms under Exists() conditions")
			continue
		}
		got, complete := c.writeAlts(nested, 0)
		if !complete {
			c.R.Undecided("R9.5", key, pos, "nested encoder path enumeration exceeded its bound")
			continue
		}
		ws, gs := map[string]bool{}, map[string]bool{}
		for _, a := range want {
			ws[a.String()] = true
		}
		for _, a := range got {
			gs[a.String()] = true
		}
		var diff []string
		for k := range ws {
			if !gs[k] {
				diff = append(diff, "length prefix counts "+k+" which the nested encoder never writes")
			}
		}
		for k := range gs {
			if !ws[k] {
				diff = append(diff, "nested encoder writes "+k+" which the length prefix does not count")
			}
		}
		sort.Strings(diff)
		if len(diff) > 0 {
			c.R.Violate("R9.5", key, pos, strings.Join(diff, "; "))
		} else {
			c.R.OK("R9.5", key, pos, fmt.Sprintf("length prefix pairs with %s on %d presence combinations", nested.Name(), len(got)))
		}
	}
	c.R.Floor("R9.5/framing", n, 1)
}

// ---------------------------------------------------------------------------
// R9.6 permission table
// ---------------------------------------------------------------------------

func andMask(v ssa.Value) (other ssa.Value, mask int64, ok bool) {
	bo, isBin := core.Unconv(v).(*ssa.BinOp)
	if !isBin || bo.Op != token.AND {
		return nil, 0, false
	}
	if k, ok := core.ConstInt(bo.Y); ok {
		return bo.X, k, true
	}
	if k, ok := core.ConstInt(bo.X); ok {
		return bo.Y, k, true
	}
	return nil, 0, false
}

func (c *Ctx) dataConst(name string) (int64, bool) {
	pk := c.P.Repo[core.Module+"/data"]
	if pk == nil {
		return 0, false
	}
	obj, ok := pk.Types.Scope().Lookup(name).(*types.Const)
	if !ok {
		return 0, false
	}
	return constant.Int64Val(obj.Val())
}

func (c *Ctx) checkPermissions() {
	r := c.R
	nmask := 0
	var defFn *ssa.Function
	// (a) reader side
	for _, fn := range c.P.MethodsNamed("data", "Permissions") {
		if !c.P.HandWritten(fn) {
			continue
		}
		key := "data." + recvName(fn) + ".Permissions"
		pos := c.P.Pos(fn.Pos())
		var bad []string
		maskOK, fallback := false, false
		for _, ret := range core.Returns(fn) {
			v := ret.Results[0]
			if x, m, ok := andMask(v); ok {
				nmask++
				if m == 0xFFF && c.traceAccessor(x) == "Mode" {
					maskOK = true
				} else {
					bad = append(bad, fmt.Sprintf("mask is %#x of %s, want 0xFFF of Mode", m, c.traceAccessor(x)))
				}
				// must be under Mode.Exists()
				if !core.GuardedBy(ret.Block(), func(cond ssa.Value) (bool, bool) {
					if c.existsCond(cond) == "Mode" {
						return true, true
					}
					if u, ok := cond.(*ssa.UnOp); ok && u.Op == token.NOT && c.existsCond(u.X) == "Mode" {
						return false, true
					}
					return false, false
				}) {
					bad = append(bad, "masked mode returned without Mode.Exists()")
				}
				continue
			}
			if call, ok := core.Unconv(v).(*ssa.Call); ok {
				if f := call.Call.StaticCallee(); f != nil {
					if _, isRepo := c.P.PkgOf(f); isRepo {
						defFn = f
						fallback = true
						continue
					}
				}
			}
			bad = append(bad, fmt.Sprintf("return at %s is neither the masked mode nor the default table", c.P.Pos(ret.Pos())))
		}
		if !maskOK {
			bad = append(bad, "no return of Mode & 0xFFF")
		}
		if !fallback {
			bad = append(bad, "no fallback to the default-permission function")
		}
		r.Check(len(bad) == 0, "R9.6", key, pos, "returns Mode&0xFFF when present, else the default table", strings.Join(bad, "; "))
	}
	// (b) builder side: every MapEntry(_, "Mode", qp.Int(x)) in data/builder has x = … & 0xFFF. The key and the value may
	// reach the MapEntry through parameters of setter helpers: they are then resolved at every call site of the helper.
	for _, fn := range c.P.RepoFuncs {
		rel, ok := c.P.PkgOf(fn)
		if !ok || rel != "data/builder" {
			continue
		}
		for _, ci := range core.CallsIn(fn) {
			call, ok := ci.(*ssa.Call)
			if !ok || !core.IsCallTo(call, qpPath, "MapEntry") {
				continue
			}
			ic, ok := call.Call.Args[2].(*ssa.Call)
			if !ok || len(ic.Call.Args) != 1 {
				if k, isC := call.Call.Args[1].(*ssa.Const); isC && k.Value != nil && k.Value.Kind() == constant.String && constant.StringVal(k.Value) == "Mode" {
					r.Violate("R9.6", "data/builder."+fn.Name()+"/sets-Mode", c.P.Pos(call.Pos()), "mode stored through an unrecognised value constructor")
				}
				continue
			}
			relevant, okMask, nm := c.modeMaskOK(fn, call.Call.Args[1], ic.Call.Args[0], false, 0)
			if !relevant {
				continue
			}
			nmask += nm
			r.Check(okMask, "R9.6", "data/builder."+fn.Name()+"/sets-Mode", c.P.Pos(call.Pos()), "mode masked with 0xFFF before it is stored", "mode stored without & 0xFFF")
		}
	}
	r.Floor("R9.6/mask", nmask, 2)
	// (c) default table
	if defFn == nil {
		r.Violate("R9.6", "data/default-permissions", "-", "no default-permission function is reachable from Permissions()")
		return
	}
	table := map[int64]int64{}
	var deflt *int64
	for _, b := range defFn.Blocks {
		iff := core.BlockIf(b)
		if iff == nil {
			continue
		}
		bo, ok := iff.Cond.(*ssa.BinOp)
		if !ok || bo.Op != token.EQL {
			continue
		}
		k, ok := core.ConstInt(bo.Y)
		if !ok || c.traceAccessor(bo.X) != "DataType" {
			continue
		}
		if v, ok := constReturn(b.Succs[0]); ok {
			table[k] = v
		}
		if v, ok := constReturn(b.Succs[1]); ok {
			vv := v
			deflt = &vv
		}
	}
	if len(table) == 0 {
		// table-driven form: return tbl[DataType] with tbl a package-level map that only init writes
		for _, ret := range core.Returns(defFn) {
			lk, ok := core.Unconv(ret.Results[0]).(*ssa.Lookup)
			if !ok || c.traceAccessor(lk.Index) != "DataType" {
				continue
			}
			if gls, ok := core.TableGlobals(lk.X, nil); ok && len(gls) == 1 {
				if t, ok := c.constIntMapGlobal(gls[0]); ok {
					table = t
				}
			}
		}
	}
	want := map[string]int64{"Data_File": 0o644, "Data_Directory": 0o755, "Data_HAMTShard": 0o755}
	for name, perm := range want {
		tv, ok := c.dataConst(name)
		if !ok {
			r.Undecided("R9.6", "data."+defFn.Name()+"/"+name, c.P.Pos(defFn.Pos()), "constant not found")
			continue
		}
		got, has := table[tv]
		r.Check(has && got == perm, "R9.6", "data."+defFn.Name()+"/"+name, c.P.Pos(defFn.Pos()),
			fmt.Sprintf("%s -> %#o", name, perm), fmt.Sprintf("%s maps to %#o (present=%v), the property requires %#o", name, got, has, perm))
	}
	_ = deflt
	// (d) elision predicate of the encoder
	found := false
	for _, e := range c.encoderEntries() {
		if e.field != "Mode" {
			continue
		}
		found = true
		key := "data." + e.fn.Name() + "/mode-elision"
		isModeCmp := func(cond ssa.Value) (bool, bool) {
			bo, isBin := cond.(*ssa.BinOp)
			if !isBin || (bo.Op != token.NEQ && bo.Op != token.EQL) {
				return false, false
			}
			for _, pair := range [][2]ssa.Value{{bo.X, bo.Y}, {bo.Y, bo.X}} {
				if c.traceAccessor(pair[0]) == "Mode" {
					if call, ok := core.Unconv(pair[1]).(*ssa.Call); ok && call.Call.StaticCallee() == defFn {
						return bo.Op == token.NEQ, true
					}
				}
			}
			return false, false
		}
		ok := core.GuardedBy(e.call.Block(), func(cond ssa.Value) (bool, bool) {
			if want, rel := isModeCmp(cond); rel {
				return want, true
			}
			// a predicate helper: `if modeDiffers(node) { … }` whose result can only be true through that comparison
			if hc, isCall := cond.(*ssa.Call); isCall {
				if h := hc.Call.StaticCallee(); h != nil && len(h.Blocks) > 0 {
					if _, isRepo := c.P.PkgOf(h); isRepo && h.Signature.Results().Len() == 1 && isBasic(h.Signature.Results().At(0).Type(), types.Bool) {
						ncmp, bad := 0, false
						var leaves func(v ssa.Value, d int)
						seen := map[ssa.Value]bool{}
						leaves = func(v ssa.Value, d int) {
							if seen[v] || d > 6 {
								return
							}
							seen[v] = true
							switch x := v.(type) {
							case *ssa.Phi:
								for _, ed := range x.Edges {
									leaves(ed, d+1)
								}
							case *ssa.Const:
								if x.Value == nil || x.Value.Kind() != constant.Bool || constant.BoolVal(x.Value) {
									bad = true
								}
							default:
								if want, rel := isModeCmp(v); rel && want {
									ncmp++
								} else {
									bad = true
								}
							}
						}
						for _, ret := range core.Returns(h) {
							leaves(core.ResolvedResults(ret)[0], 0)
						}
						if ncmp > 0 && !bad {
							return true, true
						}
					}
				}
			}
			return false, false
		})
		r.Check(ok, "R9.6", key, c.P.Pos(e.call.Pos()), "mode emitted exactly when it differs from "+defFn.Name(), "mode emission is not guarded by Mode != "+defFn.Name()+"(node): a default-valued mode would not round-trip canonically")
	}
	if !found {
		r.Violate("R9.6", "data/encoder/mode-elision", "-", "no encoder site emits Mode")
	}
}

func constReturn(b *ssa.BasicBlock) (int64, bool) {
	if len(b.Instrs) == 0 {
		return 0, false
	}
	ret, ok := b.Instrs[len(b.Instrs)-1].(*ssa.Return)
	if !ok || len(ret.Results) == 0 {
		return 0, false
	}
	return core.ConstInt(ret.Results[0])
}

func recvName(fn *ssa.Function) string {
	if n := core.RecvNamed(fn); n != nil {
		return n.Obj().Name()
	}
	return "?"
}

// controlDeadLocal: positive control for R9.7 in the overlay package.
func (c *Ctx) controlDeadLocal() {
	pk := c.P.Repo[core.ControlPkg]
	if pk == nil {
		c.R.Control("R9.7/never-assigned-local", false)
		return
	}
	dead := core.NeverAssignedLocals(pk, func(fd *ast.FuncDecl) bool { return fd.Name.Name == "CtlDeadLocal" })
	c.R.Control("R9.7/never-assigned-local", len(dead) > 0)
}

// modeMaskOK resolves a qp.MapEntry(_, key, qp.Int(val)) of function fn: relevant when key can be "Mode" (a constant, or a
// parameter bound to "Mode" at some call site); ok when on every such binding val is `… & 0xFFF`, masked either here or,
// for a parameter, at the call sites. nmask counts the mask sites found.
func (c *Ctx) modeMaskOK(fn *ssa.Function, key, val ssa.Value, masked bool, depth int) (relevant, ok bool, nmask int) {
	if depth > 4 {
		return true, false, 0
	}
	if !masked && val != nil {
		if _, m, isMask := andMask(val); isMask {
			if m != 0xFFF {
				return true, false, 0
			}
			masked = true
			nmask++
		}
	}
	paramIdx := func(v ssa.Value) int {
		p, isParam := core.Unconv(v).(*ssa.Parameter)
		if !isParam {
			return -1
		}
		for i, q := range fn.Params {
			if q == p {
				return i
			}
		}
		return -1
	}
	keyIdx := -1
	if k, isC := key.(*ssa.Const); isC {
		if k.Value == nil || k.Value.Kind() != constant.String || constant.StringVal(k.Value) != "Mode" {
			return false, true, 0
		}
		if masked {
			return true, true, nmask
		}
	} else if keyIdx = paramIdx(key); keyIdx < 0 {
		return false, true, 0 // computed key: not a Mode setter by construction of the schema constants
	}
	valIdx := -1
	if !masked {
		if valIdx = paramIdx(val); valIdx < 0 && keyIdx < 0 {
			return true, false, nmask
		}
	}
	// resolve at the call sites
	ok = true
	ncs := 0
	for _, e := range c.G.In[fn] {
		cs, isCall := e.Site.(*ssa.Call)
		if !isCall || cs.Call.StaticCallee() != fn {
			continue
		}
		k2 := key
		if keyIdx >= 0 {
			k2 = cs.Call.Args[keyIdx]
		}
		var v2 ssa.Value
		m2 := masked
		if !masked {
			if valIdx >= 0 {
				v2 = cs.Call.Args[valIdx]
			} else {
				// value computed here without a mask: wrong for every binding in which the key is Mode
				v2 = nil
			}
		}
		rel, good, nm := c.modeMaskOK(e.Caller, k2, v2, m2, depth+1)
		if !rel {
			continue
		}
		ncs++
		relevant = true
		nmask += nm
		if !good || (!m2 && v2 == nil) {
			ok = false
		}
	}
	if keyIdx < 0 {
		relevant = true
		if ncs == 0 {
			ok = false
		}
	}
	return relevant, ok, nmask
}

// constIntMapGlobal reads a package-level map[int]int whose only writes are the MapUpdates of its initialiser.
func (c *Ctx) constIntMapGlobal(gl *ssa.Global) (map[int64]int64, bool) {
	out := map[int64]int64{}
	var mm *ssa.MakeMap
	for _, fn := range c.P.RepoFuncs {
		for _, b := range fn.Blocks {
			for _, ins := range b.Instrs {
				switch x := ins.(type) {
				case *ssa.Store:
					if x.Addr == ssa.Value(gl) {
						m, isMake := x.Val.(*ssa.MakeMap)
						if !isMake || fn.Name() != "init" || mm != nil {
							return nil, false
						}
						mm = m
					}
				case *ssa.MapUpdate:
					if u, isLoad := x.Map.(*ssa.UnOp); isLoad && u.X == ssa.Value(gl) {
						return nil, false // written outside its initialiser
					}
				}
			}
		}
	}
	if mm == nil {
		return nil, false
	}
	for _, ref := range *mm.Referrers() {
		mu, isUpd := ref.(*ssa.MapUpdate)
		if !isUpd {
			continue
		}
		k, ok1 := core.ConstInt(mu.Key)
		v, ok2 := core.ConstInt(mu.Value)
		if !ok1 || !ok2 {
			return nil, false
		}
		out[k] = v
	}
	return out, len(out) > 0
}

// writeAlts lists, per path of encoder function fn, the protowire terms it appends under which Exists() conditions. Calls
// of repository helpers of package data that themselves append (an optional-field helper taking the tag number and the
// accessor as parameters) are expanded at the call site with their parameters bound to the arguments.
func (c *Ctx) writeAlts(fn *ssa.Function, depth int) ([]sizeAlt, bool) {
	var got []sizeAlt
	ok := true
	complete := core.EnumPaths(fn, 2, 100000, func(path []*ssa.BasicBlock) {
		cur := []sizeAlt{{conds: map[string]bool{}}}
		addTerm := func(t string) {
			for i := range cur {
				cur[i].terms = append(append([]string{}, cur[i].terms...), t)
			}
		}
		for i, b := range path {
			for _, ins := range b.Instrs {
				call, isCall := ins.(*ssa.Call)
				if !isCall {
					continue
				}
				nm := pwName(call)
				if nm == "AppendTag" {
					numV := call.Call.Args[1]
					if p, isParam := numV.(*ssa.Parameter); isParam {
						if bv, bound := c.accBind[p]; bound {
							numV = bv
						}
					}
					if k, isK := core.ConstInt(numV); isK {
						addTerm(fmt.Sprintf("tag:%d", k))
					} else {
						ok = false
					}
					continue
				} else if t, isApp := appendTerm[nm]; isApp {
					addTerm(t)
					continue
				}
				h := call.Call.StaticCallee()
				if h == nil || depth > 2 || len(h.Blocks) == 0 || !c.appendsWire(h) {
					continue
				}
				if rel, isRepo := c.P.PkgOf(h); !isRepo || rel != "data" {
					continue
				}
				var sub []sizeAlt
				subOK := false
				c.withAccBind(h, call, func() { sub, subOK = c.writeAlts(h, depth+1) })
				if !subOK {
					ok = false
					continue
				}
				var next []sizeAlt
				for _, a := range cur {
					for _, sb := range sub {
						if m, mok := mergeAlt(a, sb); mok {
							next = append(next, m)
						}
					}
				}
				cur = next
			}
			if i+1 < len(path) {
				if cond, taken, isBr := core.BranchTaken(b, path[i+1]); isBr {
					neg := false
					if u, isNot := cond.(*ssa.UnOp); isNot && u.Op == token.NOT {
						cond, neg = u.X, true
					}
					if nmc := c.existsCond(cond); nmc != "" {
						var next []sizeAlt
						for _, a := range cur {
							if m, mok := mergeAlt(a, sizeAlt{conds: map[string]bool{nmc: taken != neg}}); mok {
								next = append(next, m)
							}
						}
						cur = next
					}
				}
			}
		}
		got = append(got, cur...)
	})
	return got, ok && complete
}

// appendsWire: h (or a helper it calls) contains a protowire.Append* call.
func (c *Ctx) appendsWire(h *ssa.Function) bool {
	for _, ci := range core.CallsIn(h) {
		if call, ok := ci.(*ssa.Call); ok && strings.HasPrefix(pwName(call), "Append") {
			return true
		}
	}
	return false
}

// dominatingConds lists the branch conditions every path to block b has taken (condition, truth value), innermost last.
func dominatingConds(b *ssa.BasicBlock) []struct {
	Cond  ssa.Value
	Taken bool
	At    *ssa.If
} {
	var out []struct {
		Cond  ssa.Value
		Taken bool
		At    *ssa.If
	}
	for d := b.Idom(); d != nil; d = d.Idom() {
		iff := core.BlockIf(d)
		if iff == nil || len(d.Succs) != 2 {
			continue
		}
		for i, s := range d.Succs {
			if len(s.Preds) == 1 && (s == b || s.Dominates(b)) {
				out = append(out, struct {
					Cond  ssa.Value
					Taken bool
					At    *ssa.If
				}{iff.Cond, i == 0, iff})
			}
		}
	}
	return out
}

// checkPresenceExact implements R9.8.
func (c *Ctx) checkPresenceExact(encs []encEntry) {
	r := c.R
	n := 0
	ord := map[string]int{}
	for _, e := range encs {
		if e.field == "" {
			continue
		}
		n++
		ord[e.fn.Name()]++
		key := fmt.Sprintf("data.%s/presence:%s#%d", e.fn.Name(), e.field, ord[e.fn.Name()])
		var bad []string
		for _, dc := range dominatingConds(e.call.Block()) {
			cond := dc.Cond
			if u, ok := cond.(*ssa.UnOp); ok && u.Op == token.NOT {
				cond = u.X
			}
			if f := c.existsCond(cond); f != "" {
				if f != e.field {
					bad = append(bad, fmt.Sprintf("emission depends on %s.Exists() at %s", f, c.P.Pos(dc.At.Pos())))
				}
				continue
			}
			bo, isBin := cond.(*ssa.BinOp)
			if !isBin {
				continue // iterator Done(), predicate helpers: judged by R9.5 / R9.6
			}
			switch bo.Op {
			case token.EQL, token.NEQ, token.LSS, token.GTR, token.LEQ, token.GEQ:
			default:
				continue
			}
			// the one admissible value comparison: Mode against the default-permission function
			if e.field == "Mode" {
				isDef := false
				for _, side := range []ssa.Value{bo.X, bo.Y} {
					if call, ok := core.Unconv(side).(*ssa.Call); ok && call.Call.StaticCallee() != nil {
						if _, isRepo := c.P.PkgOf(call.Call.StaticCallee()); isRepo && !strings.HasPrefix(call.Call.StaticCallee().Name(), "Field") && call.Call.StaticCallee().Signature.Recv() == nil {
							isDef = true
						}
					}
				}
				if isDef {
					continue
				}
			}
			bad = append(bad, fmt.Sprintf("emission of %s additionally depends on the comparison at %s: a present value can be dropped", e.field, c.P.Pos(bo.Pos())))
		}
		r.Check(len(bad) == 0, "R9.8", key, c.P.Pos(e.call.Pos()), e.field+" is emitted whenever it is present (Mode: and differs from the default)", uniqJoin(bad))
	}
	r.Floor("R9.8", n, 8)
}

// checkPackedCount implements R9.9.
func (c *Ctx) checkPackedCount() {
	r := c.R
	n := 0
	for _, fn := range c.P.RepoFuncs {
		rel, ok := c.P.PkgOf(fn)
		if !ok || rel != "data" || !c.P.HandWritten(fn) {
			continue
		}
		for _, li := range rangeLoops(fn) {
			if li.kind != "slice" {
				continue
			}
			if li.rng == nil {
				continue
			}
			isPackedPayload := func(v ssa.Value) bool {
				ex, ok := resolveLocal(v).(*ssa.Extract)
				if !ok || ex.Index != 0 {
					return false
				}
				call, ok := ex.Tuple.(*ssa.Call)
				return ok && isPW(call, "ConsumeBytes")
			}
			if p, isParam := resolveLocal(li.rng).(*ssa.Parameter); isParam && (fn.Object() == nil || !fn.Object().Exported()) {
				// the counting loop lives in a helper: the payload is the helper's parameter, bound at its call sites
				pi := -1
				for i, q := range fn.Params {
					if q == p {
						pi = i
					}
				}
				nsite, all := 0, pi >= 0
				for _, e := range c.G.In[fn] {
					cs, ok := e.Site.(ssa.CallInstruction)
					if !ok || cs.Common().StaticCallee() != fn || pi >= len(cs.Common().Args) {
						all = false
						continue
					}
					nsite++
					if !isPackedPayload(cs.Common().Args[pi]) {
						all = false
					}
				}
				if !all || nsite == 0 {
					continue
				}
			} else if !isPackedPayload(li.rng) {
				continue
			}
			// a counter incremented in the body?
			counts := false
			for _, ins := range li.header.Instrs {
				if phi, ok := ins.(*ssa.Phi); ok && phi.Comment != "rangeindex" && isIntegerType(phi.Type()) {
					counts = true
				}
			}
			for b := range li.body {
				for _, ins := range b.Instrs {
					if st, ok := ins.(*ssa.Store); ok && isIntegerType(st.Val.Type()) {
						if add, ok := st.Val.(*ssa.BinOp); ok && add.Op == token.ADD {
							if k, isK := core.ConstInt(add.Y); isK && k == 1 {
								counts = true
							}
						}
					}
				}
			}
			if !counts {
				continue
			}
			n++
			key := "data." + fn.Name() + "/packed-count"
			good, seenTest := false, false
			what := ""
			for b := range li.body {
				iff := core.BlockIf(b)
				if iff == nil {
					continue
				}
				bo, ok := iff.Cond.(*ssa.BinOp)
				if !ok {
					continue
				}
				isElem := func(v ssa.Value) bool {
					u, ok := core.Unconv(v).(*ssa.UnOp)
					if !ok || u.Op != token.MUL {
						return false
					}
					ia, ok := u.X.(*ssa.IndexAddr)
					return ok && ia.X == li.rng
				}
				kx, xIsK := core.ConstInt(bo.X)
				ky, yIsK := core.ConstInt(bo.Y)
				switch {
				case isElem(bo.X) && yIsK:
					seenTest = true
					good = (bo.Op == token.LSS && ky == 128) || (bo.Op == token.LEQ && ky == 127) || (bo.Op == token.GEQ && ky == 128) || (bo.Op == token.GTR && ky == 127)
					what = fmt.Sprintf("byte %s %d", bo.Op, ky)
				case isElem(bo.Y) && xIsK:
					seenTest = true
					good = (bo.Op == token.GTR && kx == 128) || (bo.Op == token.GEQ && kx == 127) || (bo.Op == token.LEQ && kx == 128) || (bo.Op == token.LSS && kx == 127)
					what = fmt.Sprintf("%d %s byte", kx, bo.Op)
				default:
					// (byte & 0x80) ==/!= 0
					for _, pair := range [][2]ssa.Value{{bo.X, bo.Y}, {bo.Y, bo.X}} {
						if and, ok := core.Unconv(pair[0]).(*ssa.BinOp); ok && and.Op == token.AND {
							if k0, ok := core.ConstInt(pair[1]); ok && k0 == 0 {
								m1, ok1 := core.ConstInt(and.Y)
								m2, ok2 := core.ConstInt(and.X)
								if (ok1 && m1 == 128 && isElem(and.X)) || (ok2 && m2 == 128 && isElem(and.Y)) {
									seenTest, good = true, bo.Op == token.EQL || bo.Op == token.NEQ
									what = "byte & 0x80"
								}
							}
						}
					}
				}
			}
			r.Check(seenTest && good, "R9.9", key, c.P.Pos(firstPos(li.header)), "elements of the packed run are counted as the bytes with the continuation bit clear ("+what+")", "the packed run's element count does not test the continuation bit exactly (found: "+what+"): runs containing a 0x80 byte are miscounted")
		}
	}
	r.Floor("R9.9", n, 1)
}

// assemblesKeyOnce: repository helper h of package data assembles the map entry `key` exactly once on every path to a
// return that may carry a nil error (one qp.MapEntry site with that constant key, dominating all such returns, outside
// any loop).
func (c *Ctx) assemblesKeyOnce(h *ssa.Function, key string) bool {
	if h == nil || len(h.Blocks) == 0 {
		return false
	}
	if rel, ok := c.P.PkgOf(h); !ok || rel != "data" || !c.P.HandWritten(h) {
		return false
	}
	errIdx := core.ErrResultIndex(h.Signature)
	var site *ssa.Call
	for _, ci := range core.CallsIn(h) {
		call, ok := ci.(*ssa.Call)
		if !ok || !core.IsCallTo(call, qpPath, "MapEntry") {
			continue
		}
		k, ok := call.Call.Args[1].(*ssa.Const)
		if !ok || k.Value == nil || k.Value.Kind() != constant.String || constant.StringVal(k.Value) != key {
			continue
		}
		if site != nil {
			return false
		}
		site = call
	}
	if site == nil || core.InCycle(site.Block()) {
		return false
	}
	n := 0
	for _, ret := range core.Returns(h) {
		if errIdx >= 0 {
			ev := core.ResolvedResults(ret)[errIdx]
			if core.ErrKnownNonNil(ev, nil) || core.GuardedBy(ret.Block(), func(cond ssa.Value) (bool, bool) {
				x, trueMeansNil, ok := core.NilCmp(cond)
				if !ok || x != ev {
					return false, false
				}
				return !trueMeansNil, true
			}) {
				continue
			}
			// protowire.ParseError(n) under n < 0 is a non-nil error
			if pe, ok := ev.(*ssa.Call); ok && isPW(pe, "ParseError") && len(pe.Call.Args) == 1 {
				nv := pe.Call.Args[0]
				if core.GuardedBy(ret.Block(), func(cond ssa.Value) (bool, bool) {
					v, onT, onF, ok := core.SignTest(cond)
					if !ok || v != nv {
						return false, false
					}
					if onT == "neg" {
						return true, true
					}
					if onF == "neg" {
						return false, true
					}
					return false, false
				}) {
					continue
				}
			}
		}
		n++
		if !(site.Block() == ret.Block() || site.Block().Dominates(ret.Block())) {
			return false
		}
	}
	return n > 0
}
