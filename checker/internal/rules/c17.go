package rules

import (
	"fmt"
	"go/token"
	"go/types"
	"sort"
	"strings"

	"golang.org/x/tools/go/ssa"

	"verifchk/internal/core"
)

func init() { Registry["C17"] = c17 }

func (c *Ctx) nodeIface() *types.Interface {
	if pk := c.P.All["github.com/ipld/go-ipld-prime/datamodel"]; pk != nil {
		if o := pk.Types.Scope().Lookup("Node"); o != nil {
			it, _ := o.Type().Underlying().(*types.Interface)
			return it
		}
	}
	return nil
}

func structOf(t types.Type) (*types.Named, *types.Struct) {
	t = types.Unalias(t)
	if pt, ok := t.(*types.Pointer); ok {
		t = types.Unalias(pt.Elem())
	}
	n, ok := t.(*types.Named)
	if !ok {
		return nil, nil
	}
	st, _ := n.Underlying().(*types.Struct)
	return n, st
}

// sharedTypes: struct types of the reader packages implementing datamodel.Node that flow out of an exported
// package-level function or a reifier-table function (transitively through repository callees).
func (c *Ctx) sharedTypes() map[*types.Named]bool {
	node := c.nodeIface()
	out := map[*types.Named]bool{}
	if node == nil {
		return out
	}
	consider := func(t types.Type) {
		n, st := structOf(t)
		if n == nil || st == nil || n.Obj().Pkg() == nil || !c.P.IsRepoPkg(n.Obj().Pkg()) {
			return
		}
		if !core.ReaderPkgs[core.Rel(n.Obj().Pkg().Path())] {
			return
		}
		if types.Implements(types.NewPointer(n), node) || types.Implements(n, node) {
			out[n] = true
		}
	}
	var roots []*ssa.Function
	for _, fn := range c.G.Funcs() {
		rel, ok := c.P.PkgOf(fn)
		if !ok || !core.ReaderPkgs[rel] || fn.Synthetic != "" || fn.Parent() != nil {
			continue
		}
		if fn.Object() != nil && fn.Object().Exported() && fn.Signature.Recv() == nil {
			roots = append(roots, fn)
		}
	}
	for _, ents := range c.G.Tables {
		for _, e := range ents {
			if e.Fn != nil {
				roots = append(roots, e.Fn)
			}
		}
	}
	for _, ents := range c.G.FieldTables {
		for _, e := range ents {
			if e.Fn != nil {
				roots = append(roots, e.Fn)
			}
		}
	}
	for _, fn := range roots {
		for i := 0; i < fn.Signature.Results().Len(); i++ {
			if _, isIface := fn.Signature.Results().At(i).Type().Underlying().(*types.Interface); !isIface {
				consider(fn.Signature.Results().At(i).Type())
				continue
			}
			for _, ret := range core.Returns(fn) {
				ts, _ := c.G.ConcreteTypesOf(core.ResolvedResults(ret)[i])
				for _, t := range ts {
					consider(t)
				}
			}
		}
	}
	return out
}

// mutableTypes: hand-written struct types of the reader packages with a pointer-receiver method that stores into a field
// of its receiver and that carry no sync.Mutex / RWMutex / Once of their own: objects that change under the hands of
// whoever holds them (lazy resolvers, cursors). Synchronised types are governed by R17.1 instead.
func (c *Ctx) mutableTypes() map[*types.Named]bool {
	if c.mutTypes != nil {
		return c.mutTypes
	}
	out := map[*types.Named]bool{}
	for _, fn := range c.G.Funcs() {
		rel, ok := c.P.PkgOf(fn)
		if !ok || !core.ReaderPkgs[rel] || fn.Synthetic != "" || len(fn.Params) == 0 || fn.Signature.Recv() == nil || !c.P.HandWritten(fn) {
			continue
		}
		n, st := structOf(fn.Params[0].Type())
		if n == nil || st == nil || out[n] {
			continue
		}
		if _, isPtr := types.Unalias(fn.Params[0].Type()).(*types.Pointer); !isPtr {
			continue
		}
		synced := false
		for i := 0; i < st.NumFields(); i++ {
			ts := types.TypeString(st.Field(i).Type(), nil)
			if ts == "sync.Mutex" || ts == "sync.RWMutex" || ts == "sync.Once" || ts == "*sync.Mutex" || ts == "*sync.RWMutex" {
				synced = true
			}
		}
		if synced {
			continue
		}
		for _, b := range fn.Blocks {
			for _, ins := range b.Instrs {
				if x, ok := ins.(*ssa.Store); ok {
					if _, isFA := x.Addr.(*ssa.FieldAddr); isFA && core.RootOfAddr(x.Addr) == ssa.Value(fn.Params[0]) {
						out[n] = true
					}
				}
			}
		}
	}
	c.mutTypes = out
	return out
}

// carriesCursor: t is a cursor type, a self-mutating type, or a composite (struct, pointer, slice, map, array) that holds
// one — a struct{size; rdr io.ReadSeeker} parked in a node shares the reader just like the bare reader would.
func (c *Ctx) carriesCursor(t types.Type, depth int, withMutable bool) bool {
	if t == nil || depth > 4 {
		return false
	}
	if isCursorT(t) {
		return true
	}
	if n, _ := structOf(t); withMutable && n != nil && c.mutableTypes()[n] {
		return true
	}
	switch u := types.Unalias(t).Underlying().(type) {
	case *types.Pointer:
		return c.carriesCursor(u.Elem(), depth+1, withMutable)
	case *types.Slice:
		return c.carriesCursor(u.Elem(), depth+1, withMutable)
	case *types.Array:
		return c.carriesCursor(u.Elem(), depth+1, withMutable)
	case *types.Map:
		return c.carriesCursor(u.Elem(), depth+1, withMutable)
	case *types.Struct:
		if n, _ := structOf(t); n != nil {
			if n.Obj().Pkg() == nil || !c.P.IsRepoPkg(n.Obj().Pkg()) {
				return false // foreign struct types (LinkSystem, contexts): not ours to classify
			}
		}
		for i := 0; i < u.NumFields(); i++ {
			if c.carriesCursor(u.Field(i).Type(), depth+1, withMutable) {
				return true
			}
		}
	}
	return false
}

// valueCarriesCursor applies carriesCursor to the static type of v and, for interface-typed values, to every concrete
// type the closed-world analysis finds for it.
func (c *Ctx) valueCarriesCursor(v ssa.Value, withMutable bool) (bool, types.Type) {
	if core.IsNilConst(v) {
		return false, nil
	}
	vt := v.Type()
	if mi, ok := v.(*ssa.MakeInterface); ok {
		vt = mi.X.Type()
	}
	if c.carriesCursor(vt, 0, withMutable) {
		return true, vt
	}
	if _, isIface := vt.Underlying().(*types.Interface); isIface {
		if ts, ok := c.G.ConcreteTypesOf(v); ok {
			for _, t := range ts {
				if c.carriesCursor(t, 0, withMutable) {
					return true, t
				}
			}
		}
	}
	return false, nil
}

// isCursorT: io.Reader / io.Seeker implementations and iterator-like types (Next+Done).
func isCursorT(t types.Type) bool {
	if t == nil {
		return false
	}
	if _, isIface := t.Underlying().(*types.Interface); isIface {
		ms := types.NewMethodSet(t)
		return cursorMethods(ms)
	}
	return cursorMethods(types.NewMethodSet(t)) || cursorMethods(types.NewMethodSet(types.NewPointer(t)))
}

func cursorMethods(ms *types.MethodSet) bool {
	has := map[string]*types.Signature{}
	for i := 0; i < ms.Len(); i++ {
		if sig, ok := ms.At(i).Type().(*types.Signature); ok {
			has[ms.At(i).Obj().Name()] = sig
		}
	}
	if s, ok := has["Read"]; ok && s.Params().Len() == 1 && s.Results().Len() == 2 {
		return true
	}
	if s, ok := has["Seek"]; ok && s.Params().Len() == 2 && s.Results().Len() == 2 {
		return true
	}
	if _, ok := has["Next"]; ok {
		return true // anything that advances: iterators, bit readers
	}
	return false
}

// lockState computes, for every instruction of fn, whether a Lock (or RLock) on the mutex at access path mpath is
// held on all paths reaching it (forward must-analysis; a deferred Unlock keeps it held to the end).
func (c *Ctx) lockHeldAt(fn *ssa.Function, mpath string, exclusive bool) map[ssa.Instruction]bool {
	held := map[ssa.Instruction]bool{}
	in := map[*ssa.BasicBlock]int{} // 0 unknown(top), 1 held, 2 not held
	classify := func(ins ssa.Instruction) int {
		call, ok := ins.(*ssa.Call)
		if !ok {
			return 0
		}
		f := call.Call.StaticCallee()
		if f == nil || f.Pkg == nil || f.Pkg.Pkg.Path() != "sync" || len(call.Call.Args) == 0 {
			return 0
		}
		if c.accessPath(call.Call.Args[0], 0) != mpath {
			return 0
		}
		switch f.Name() {
		case "Lock":
			return 1
		case "RLock":
			// a read lock admits other readers: it protects reads, never writes
			if exclusive {
				return 0
			}
			return 1
		case "Unlock", "RUnlock":
			return 2
		}
		return 0
	}
	if len(fn.Blocks) == 0 {
		return held
	}
	in[fn.Blocks[0]] = 2
	for changed := true; changed; {
		changed = false
		for _, b := range fn.Blocks {
			st := in[b]
			if b != fn.Blocks[0] {
				st = 0
				for _, p := range b.Preds {
					o, ok := outState(p, in, classify)
					if !ok {
						continue
					}
					if st == 0 {
						st = o
					} else if st != o {
						st = 2
					}
				}
				if st != in[b] {
					in[b] = st
					changed = true
				}
			}
		}
	}
	for _, b := range fn.Blocks {
		st := in[b]
		for _, ins := range b.Instrs {
			held[ins] = st == 1
			if k := classify(ins); k != 0 {
				st = k
			}
		}
	}
	return held
}

func outState(b *ssa.BasicBlock, in map[*ssa.BasicBlock]int, classify func(ssa.Instruction) int) (int, bool) {
	st, ok := in[b]
	if !ok || st == 0 {
		// not yet computed
		st = 0
	}
	for _, ins := range b.Instrs {
		if k := classify(ins); k != 0 {
			st = k
		}
	}
	if st == 0 {
		return 0, false
	}
	return st, true
}

type fieldAccess struct {
	fn    *ssa.Function
	ins   ssa.Instruction
	field *types.Var
	owner *types.Named
	root  ssa.Value
	write bool
	what  string
}

// rootObject follows an address back to the object it belongs to and reports whether that object was freshly
// allocated in this function (construction) or reached through a parameter / captured variable / load (shared).
func rootObject(addr ssa.Value) (root ssa.Value, fresh bool) {
	root = core.RootOfAddr(addr)
	switch x := root.(type) {
	case *ssa.Alloc:
		return root, true
	case *ssa.UnOp:
		// load of a local cell holding a fresh pointer
		if al, ok := x.X.(*ssa.Alloc); ok {
			fresh = true
			for _, ref := range *al.Referrers() {
				if st, ok := ref.(*ssa.Store); ok && st.Addr == ssa.Value(al) {
					if _, isAlloc := st.Val.(*ssa.Alloc); !isAlloc {
						fresh = false
					}
				}
			}
			return root, fresh
		}
	}
	return root, false
}

func c17(c *Ctx) {
	r := c.R
	r.Explain = "C17 (concurrent read-only use): identifies the shared node types (struct types of the reader packages implementing datamodel.Node that flow out of exported constructors or the reifier tables) and decides that (R17.1) every write to their state after construction — field store, map update, element store through a receiver/parameter/captured pointer — and every read of a field that has such a write, happens inside the closure of a sync.Once.Do on the same object / after that Do call, or while a sync.Mutex/RWMutex field of the same object is held on all paths (forward must-analysis over the CFG); (R17.2) no cursor (Reader/Seeker/iterator) is stored into a shared node or a package variable; (R17.3) no package variable of the reader packages is written outside init. These make a data race on node state impossible; equality of results under every interleaving is not decided."
	r.Rule("R17.1", "post-construction accesses to mutable fields of shared node types are synchronised: inside/after sync.Once.Do of the same object, or under a mutex field of the same object held on all paths")
	r.Rule("R17.2", "no value of a cursor type (io.Reader/io.Seeker implementation, iterator with Next+Done) is stored into a field of a shared node type or into a package-level variable")
	r.Rule("R17.3", "(writes are found directly and through repository functions that write through a parameter the variable is handed to) no package-level variable of the reader packages is written (store, map update, element store) outside package initialisation")
	r.Assumes = append(r.Assumes, "the substrate node and decoded UnixFS data handed to an ADL are immutable values of go-ipld-prime/go-codec-dagpb", "sync.Once and sync.Mutex provide their documented happens-before edges")

	shared := c.sharedTypes()
	var names []string
	for n := range shared {
		names = append(names, core.TypeNameOf(n))
	}
	sort.Strings(names)
	r.Extra["shared_node_types"] = names
	r.Floor("R17.1/shared-types", len(shared), 5)

	// collect accesses
	var accs []fieldAccess
	for _, fn := range c.G.Funcs() {
		rel, ok := c.P.PkgOf(fn)
		if !ok || !core.ReaderPkgs[rel] || c.P.IsGenerated(fn.Pos()) {
			continue
		}
		for _, b := range fn.Blocks {
			for _, ins := range b.Instrs {
				switch x := ins.(type) {
				case *ssa.Store:
					if fa := fieldAddrChain(x.Addr); fa != nil {
						if acc, ok := c.mkAccess(fn, ins, fa, shared, true, "field store"); ok {
							accs = append(accs, acc)
						}
					}
				case *ssa.UnOp:
					if x.Op == token.MUL {
						if fa, ok := x.X.(*ssa.FieldAddr); ok {
							if acc, ok := c.mkAccess(fn, ins, fa, shared, false, "field load"); ok {
								accs = append(accs, acc)
							}
						}
					}
				case *ssa.MapUpdate:
					if fa := loadedField(x.Map); fa != nil {
						if acc, ok := c.mkAccess(fn, ins, fa, shared, true, "map update"); ok {
							accs = append(accs, acc)
						}
					}
				case *ssa.Lookup:
					if fa := loadedField(x.X); fa != nil {
						if acc, ok := c.mkAccess(fn, ins, fa, shared, false, "map lookup"); ok {
							accs = append(accs, acc)
						}
					}
				case *ssa.Range:
					if fa := loadedField(x.X); fa != nil {
						if acc, ok := c.mkAccess(fn, ins, fa, shared, false, "map range"); ok {
							accs = append(accs, acc)
						}
					}
				}
			}
		}
	}
	// fields with a post-construction write
	mutable := map[*types.Var]bool{}
	for _, a := range accs {
		if a.write {
			if _, fresh := rootObject(addrOfAccess(a)); !fresh {
				mutable[a.field] = true
			}
		}
	}
	var mnames []string
	for f := range mutable {
		mnames = append(mnames, f.Name())
	}
	sort.Strings(mnames)
	r.Extra["fields_written_after_construction"] = mnames
	r.Floor("R17.1/mutable-fields", len(mutable), 3)

	heldCache := map[string]map[ssa.Instruction]bool{}
	nacc := 0
	ord := map[string]int{}
	for _, a := range accs {
		if !mutable[a.field] {
			continue
		}
		_, fresh := rootObject(addrOfAccess(a))
		if fresh {
			continue // construction
		}
		nacc++
		base := fmt.Sprintf("%s/%s:%s", core.FuncName(a.fn), strings.ReplaceAll(a.what, " ", "-"), a.field.Name())
		ord[base]++
		key := fmt.Sprintf("%s#%d", base, ord[base])
		pos := c.P.Pos(a.ins.Pos())
		ok, how := c.synchronised(a, heldCache)
		r.Check(ok, "R17.1", key, pos, a.what+" of "+a.field.Name()+": "+how, a.what+" of "+a.field.Name()+" on a shared "+a.owner.Obj().Name()+" is unsynchronised: "+how)
	}
	r.Floor("R17.1", nacc, 6)

	// ---- R17.2
	n172 := 0
	nviol := 0
	ctlFired := false
	for _, fn := range c.G.Funcs() {
		rel, ok := c.P.PkgOf(fn)
		isCtl := rel == core.Rel(core.ControlPkg)
		if !ok || !(core.ReaderPkgs[rel] || isCtl) || c.P.IsGenerated(fn.Pos()) {
			continue
		}
		for _, b := range fn.Blocks {
			for _, ins := range b.Instrs {
				var stVal ssa.Value
				var stAddr ssa.Value
				var stPos token.Pos
				switch x := ins.(type) {
				case *ssa.Store:
					stVal, stAddr, stPos = x.Val, x.Addr, x.Pos()
				case *ssa.MapUpdate:
					// a cursor parked in a map held by a shared node / package variable
					if u, ok := x.Map.(*ssa.UnOp); ok {
						stVal, stAddr, stPos = x.Value, u.X, x.Pos()
					}
				}
				if stVal == nil {
					continue
				}
				st := struct {
					Val  ssa.Value
					Addr ssa.Value
				}{stVal, stAddr}
				target := ""
				if fa := fieldAddrChain(st.Addr); fa != nil {
					_, fv, _ := core.FieldAddrOf(fa)
					owner, _ := structOf(fa.X.Type())
					if owner != nil && shared[owner] {
						target = "field " + fv.Name() + " of shared node type " + owner.Obj().Name()
					}
				} else if gl, ok := st.Addr.(*ssa.Global); ok {
					target = "package variable " + gl.Name()
				}
				if target == "" {
					continue
				}
				n172++
				carries, vt := c.valueCarriesCursor(st.Val, true)
				if !carries {
					continue
				}
				// a node type that is itself a Node and a cursor? cursors never implement Node here; report
				if isCtl {
					ctlFired = true
					continue
				}
				nviol++
				r.Violate("R17.2", fmt.Sprintf("%s/stores-cursor:%s", core.FuncName(fn), strings.Fields(target)[1]), c.P.Pos(stPos), "a "+core.TypeNameOf(vt)+" (a cursor, a self-mutating object, or a composite holding one) is stored into "+target+": separately obtained readers/iterators would share mutable state")
			}
		}
	}
	r.Control("R17.2/cursor-in-package-variable", ctlFired)
	if nviol == 0 {
		r.OK("R17.2", "reader-packages/*", "-", fmt.Sprintf("%d stores into shared-node fields and package variables examined: none stores a cursor", n172))
	}

	// ---- R17.3
	n173 := 0
	ctl3 := false
	pk173 := map[string]bool{core.Rel(core.ControlPkg): true}
	for k := range core.ReaderPkgs {
		pk173[k] = true
	}
	for _, m := range c.G.GlobalMutations(pk173) {
		rel, _ := c.P.PkgOf(m.Fn)
		if rel == core.Rel(core.ControlPkg) {
			ctl3 = true
			continue
		}
		n173++
		r.Violate("R17.3", fmt.Sprintf("%s/writes-global:%s", core.FuncName(m.Fn), m.Global.Name()), c.P.Pos(m.Ins.Pos()), m.What+" to package variable "+m.Global.Name()+" outside init: shared mutable state")
	}
	r.Control("R17.3/global-write-outside-init", ctl3)
	if n173 == 0 {
		r.OK("R17.3", "reader-packages/*", "-", "no package-level variable is written outside package initialisation")
	}
}

func addrOfAccess(a fieldAccess) ssa.Value {
	switch x := a.ins.(type) {
	case *ssa.Store:
		return x.Addr
	case *ssa.UnOp:
		return x.X
	case *ssa.MapUpdate:
		if u, ok := x.Map.(*ssa.UnOp); ok {
			return u.X
		}
	case *ssa.Lookup:
		if u, ok := x.X.(*ssa.UnOp); ok {
			return u.X
		}
	case *ssa.Range:
		if u, ok := x.X.(*ssa.UnOp); ok {
			return u.X
		}
	}
	return nil
}

// fieldAddrChain returns the innermost FieldAddr whose struct is the owner of the stored-to location
// (direct field store, or element store into an array/slice held in a field).
func fieldAddrChain(addr ssa.Value) *ssa.FieldAddr {
	switch x := addr.(type) {
	case *ssa.FieldAddr:
		return x
	case *ssa.IndexAddr:
		if u, ok := x.X.(*ssa.UnOp); ok {
			if fa, ok := u.X.(*ssa.FieldAddr); ok {
				return fa
			}
		}
		if fa, ok := x.X.(*ssa.FieldAddr); ok {
			return fa
		}
	}
	return nil
}

func loadedField(v ssa.Value) *ssa.FieldAddr {
	if u, ok := v.(*ssa.UnOp); ok && u.Op == token.MUL {
		if fa, ok := u.X.(*ssa.FieldAddr); ok {
			return fa
		}
	}
	return nil
}

func (c *Ctx) mkAccess(fn *ssa.Function, ins ssa.Instruction, fa *ssa.FieldAddr, shared map[*types.Named]bool, write bool, what string) (fieldAccess, bool) {
	owner, st := structOf(fa.X.Type())
	if owner == nil || st == nil || !shared[owner] {
		return fieldAccess{}, false
	}
	fv := st.Field(fa.Field)
	// synchronisation primitives themselves are not data
	if n, ok := types.Unalias(fv.Type()).(*types.Named); ok && n.Obj().Pkg() != nil && n.Obj().Pkg().Path() == "sync" {
		return fieldAccess{}, false
	}
	return fieldAccess{fn: fn, ins: ins, field: fv, owner: owner, root: core.RootOfAddr(fa), write: write, what: what}, true
}

// synchronised decides R17.1 for one access.
func (c *Ctx) synchronised(a fieldAccess, heldCache map[string]map[ssa.Instruction]bool) (bool, string) {
	st := a.owner.Underlying().(*types.Struct)
	rootPath := c.accessPath(a.root, 0)
	// (a) mutex fields of the same object
	for i := 0; i < st.NumFields(); i++ {
		f := st.Field(i)
		n, ok := types.Unalias(f.Type()).(*types.Named)
		if !ok || n.Obj().Pkg() == nil || n.Obj().Pkg().Path() != "sync" || (n.Obj().Name() != "Mutex" && n.Obj().Name() != "RWMutex") {
			continue
		}
		mpath := rootPath + "." + f.Name()
		k := fmt.Sprintf("%p|%s|%v", a.fn, mpath, a.write)
		if heldCache[k] == nil {
			heldCache[k] = c.lockHeldAt(a.fn, mpath, a.write)
		}
		if heldCache[k][a.ins] {
			return true, "mutex " + f.Name() + " of the same object is held on every path"
		}
	}
	// (b) inside the closure handed to sync.Once.Do on the same object
	if a.fn.Parent() != nil {
		var fvr *ssa.FreeVar
		if f, ok := a.root.(*ssa.FreeVar); ok {
			fvr = f
		} else if u, ok := a.root.(*ssa.UnOp); ok && u.Op == token.MUL {
			fvr, _ = u.X.(*ssa.FreeVar) // variable captured by reference
		}
		if fvr != nil {
			if onceName, ok := c.closureUnderOnce(a.fn, fvr, a.owner); ok {
				return true, "inside the function run by " + onceName + ".Do of the same object"
			}
		}
	}
	// (b') inside a method of the object that is only ever called, on that object, from the function run by its Once.Do
	if a.fn.Parent() == nil && len(a.fn.Params) > 0 && a.root == ssa.Value(a.fn.Params[0]) && len(c.G.In[a.fn]) > 0 {
		all := true
		onceName := ""
		ncallers := 0
		for _, e := range c.G.In[a.fn] {
			cs, isCall := e.Site.(*ssa.Call)
			cl := e.Caller
			// promoted-method wrappers of an unexported method that nothing calls exist only in method sets
			if cl.Synthetic != "" && len(c.G.In[cl]) == 0 && a.fn.Object() != nil && !a.fn.Object().Exported() {
				continue
			}
			ncallers++
			if !isCall || cs.Call.StaticCallee() != a.fn || cl.Parent() == nil || len(cs.Call.Args) == 0 {
				all = false
				break
			}
			// the receiver handed to the method is the closure's captured object
			var fvr *ssa.FreeVar
			switch rv := cs.Call.Args[0].(type) {
			case *ssa.FreeVar:
				fvr = rv
			case *ssa.UnOp:
				fvr, _ = rv.X.(*ssa.FreeVar)
			}
			if fvr == nil {
				all = false
				break
			}
			nm, ok := c.closureUnderOnce(cl, fvr, a.owner)
			if !ok {
				all = false
				break
			}
			onceName = nm
		}
		if all && ncallers > 0 {
			return true, "inside a method that only the function run by " + onceName + ".Do of the same object calls"
		}
	}
	// (c) read ordered after Once.Do on the same object in this function
	if !a.write {
		for _, ci := range core.CallsIn(a.fn) {
			call, ok := ci.(*ssa.Call)
			if !ok {
				continue
			}
			f := call.Call.StaticCallee()
			if f == nil || f.Pkg == nil || f.Pkg.Pkg.Path() != "sync" || f.Name() != "Do" || len(call.Call.Args) < 2 {
				continue
			}
			if !strings.HasPrefix(c.accessPath(call.Call.Args[0], 0), rootPath+".") {
				continue
			}
			// the Do closure must be the (only) writer of this field
			if cl := funcOfValueR(call.Call.Args[1]); cl != nil && writesField(cl, a.field) && dominatesInstr(call, a.ins) {
				return true, "read after sync.Once.Do of the same object whose function is the writer"
			}
		}
	}
	return false, "not under a mutex of the same object, not inside/after its sync.Once.Do"
}

func funcOfValueR(v ssa.Value) *ssa.Function {
	switch x := v.(type) {
	case *ssa.Function:
		return x
	case *ssa.MakeClosure:
		f, _ := x.Fn.(*ssa.Function)
		return f
	}
	return nil
}

func writesField(fn *ssa.Function, fv *types.Var) bool {
	return writesFieldDepth(fn, fv, 0)
}

func writesFieldDepth(fn *ssa.Function, fv *types.Var, depth int) bool {
	for _, b := range fn.Blocks {
		for _, ins := range b.Instrs {
			if st, ok := ins.(*ssa.Store); ok {
				if _, f, ok := core.FieldAddrOf(st.Addr); ok && f == fv {
					return true
				}
			}
			// the write may sit in a method the function delegates to
			if call, ok := ins.(*ssa.Call); ok && depth < 2 {
				if h := call.Call.StaticCallee(); h != nil && h.Signature.Recv() != nil && len(h.Blocks) > 0 && h != fn {
					if writesFieldDepth(h, fv, depth+1) {
						return true
					}
				}
			}
		}
	}
	return false
}

// closureUnderOnce: closure cl (capturing free variable fv bound to object O in its parent) is passed only to O.<once>.Do.
func (c *Ctx) closureUnderOnce(cl *ssa.Function, fv *ssa.FreeVar, owner *types.Named) (string, bool) {
	parent := cl.Parent()
	idx := -1
	for i, f := range cl.FreeVars {
		if f == fv {
			idx = i
		}
	}
	if idx < 0 {
		return "", false
	}
	for _, b := range parent.Blocks {
		for _, ins := range b.Instrs {
			mc, ok := ins.(*ssa.MakeClosure)
			if !ok || mc.Fn != ssa.Value(cl) {
				continue
			}
			bound := mc.Bindings[idx]
			name := ""
			for _, ref := range *mc.Referrers() {
				if _, isDbg := ref.(*ssa.DebugRef); isDbg {
					continue
				}
				call, ok := ref.(*ssa.Call)
				if !ok {
					return "", false
				}
				f := call.Call.StaticCallee()
				if f == nil || f.Pkg == nil || f.Pkg.Pkg.Path() != "sync" || f.Name() != "Do" {
					return "", false
				}
				// receiver &O.once with O == bound
				fa, ok := call.Call.Args[0].(*ssa.FieldAddr)
				if !ok {
					return "", false
				}
				same := fa.X == bound
				if u, isLoad := fa.X.(*ssa.UnOp); isLoad && u.Op == token.MUL && u.X == bound {
					same = true // captured by reference: the closure sees the cell the receiver was spilled to
				}
				if !same {
					return "", false
				}
				_, of, _ := core.FieldAddrOf(fa)
				name = of.Name()
			}
			if name != "" {
				return name, true
			}
		}
	}
	return "", false
}
