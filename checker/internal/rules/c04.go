package rules

import (
	"fmt"
	"go/token"
	"go/types"
	"sort"

	"golang.org/x/tools/go/ssa"

	"verifchk/internal/core"
)

func init() { Registry["C04"] = c04 }

// seekSig reports whether fn is a method Seek(int64,int)(int64,error).
func seekSig(fn *ssa.Function) bool {
	s := fn.Signature
	if s.Recv() == nil || fn.Name() != "Seek" || s.Params().Len() != 2 || s.Results().Len() != 2 {
		return false
	}
	return isBasic(s.Params().At(0).Type(), types.Int64) && isBasic(s.Params().At(1).Type(), types.Int) &&
		isBasic(s.Results().At(0).Type(), types.Int64) && core.IsErrorType(s.Results().At(1).Type())
}

func readSig(fn *ssa.Function) bool {
	s := fn.Signature
	if s.Recv() == nil || fn.Name() != "Read" || s.Params().Len() != 1 || s.Results().Len() != 2 {
		return false
	}
	sl, ok := s.Params().At(0).Type().Underlying().(*types.Slice)
	return ok && isBasic(sl.Elem(), types.Byte) && isBasic(s.Results().At(0).Type(), types.Int) && core.IsErrorType(s.Results().At(1).Type())
}

func isBasic(t types.Type, k types.BasicKind) bool {
	b, ok := t.Underlying().(*types.Basic)
	if !ok {
		return false
	}
	if k == types.Byte {
		return b.Kind() == types.Uint8
	}
	return b.Kind() == k
}

// fieldStores returns the stores in fn whose address is a field of the receiver (root = receiver parameter).
type fstore struct {
	st    *ssa.Store
	field *types.Var
}

func recvFieldStores(fn *ssa.Function) []fstore {
	if len(fn.Params) == 0 || fn.Signature.Recv() == nil {
		return nil
	}
	recv := fn.Params[0]
	var out []fstore
	for _, b := range fn.Blocks {
		for _, ins := range b.Instrs {
			st, ok := ins.(*ssa.Store)
			if !ok {
				continue
			}
			_, fv, ok := core.FieldAddrOf(st.Addr)
			if !ok {
				continue
			}
			if core.RootOfAddr(st.Addr) == ssa.Value(recv) {
				out = append(out, fstore{st, fv})
			}
		}
	}
	return out
}

func isIntegerField(v *types.Var) bool {
	b, ok := v.Type().Underlying().(*types.Basic)
	return ok && b.Info()&types.IsInteger != 0
}

// readerType groups the Seek/Read methods of one reader type with its position field(s).
type readerType struct {
	named *types.Named
	seek  *ssa.Function
	read  *ssa.Function
	pos   []*types.Var // integer receiver fields stored in Seek
}

func findReaderTypes(c *Ctx, pkgs map[string]bool) []*readerType {
	byType := map[*types.Named]*readerType{}
	for _, f := range c.P.RepoFuncs {
		rel, ok := c.P.PkgOf(f)
		if !ok || !pkgs[rel] || f.Synthetic != "" {
			continue
		}
		n := core.RecvNamed(f)
		if n == nil {
			continue
		}
		if seekSig(f) || readSig(f) {
			rt := byType[n]
			if rt == nil {
				rt = &readerType{named: n}
				byType[n] = rt
			}
			if seekSig(f) {
				rt.seek = f
			} else {
				rt.read = f
			}
		}
	}
	var out []*readerType
	for _, rt := range byType {
		if rt.seek == nil {
			continue
		}
		seen := map[*types.Var]bool{}
		for _, fs := range recvFieldStores(rt.seek) {
			if isIntegerField(fs.field) && !seen[fs.field] {
				seen[fs.field] = true
				rt.pos = append(rt.pos, fs.field)
			}
		}
		// a position field may also be advanced only in Read (Seek delegating to a helper is undecided below)
		out = append(out, rt)
	}
	sort.Slice(out, func(i, j int) bool { return out[i].named.Obj().Name() < out[j].named.Obj().Name() })
	return out
}

// posState tracks, along one path, what the position field currently holds.
type posState struct {
	cur      ssa.Value          // nil = unchanged since entry
	stored   bool               // a store happened on this path
	nonneg   map[ssa.Value]bool // values known >= 0 on this path
	alias    map[ssa.Value]ssa.Value
	aliasEnt map[ssa.Value]bool // loads that alias the entry value
	negTaken []ssa.Value        // values for which a "negative" branch was taken
}

func (c *Ctx) nonNeg(st *posState, v ssa.Value, pred map[*ssa.Phi]*ssa.BasicBlock, depth int) bool {
	if depth > 12 {
		return false
	}
	if st.nonneg[v] {
		return true
	}
	if st.aliasEnt[v] {
		return true // entry value of the position field: inductive invariant position >= 0
	}
	if a, ok := st.alias[v]; ok {
		return c.nonNeg(st, a, pred, depth+1)
	}
	switch x := v.(type) {
	case *ssa.Const:
		i, ok := core.ConstInt(x)
		return ok && i >= 0
	case *ssa.Convert:
		src, dst := c.P.IntSize(x.X.Type()), c.P.IntSize(x.Type())
		if src == 0 || dst == 0 {
			return false
		}
		sb := x.X.Type().Underlying().(*types.Basic)
		if sb.Info()&types.IsUnsigned != 0 {
			return dst > src // unsigned -> wider signed keeps value
		}
		if dst >= src {
			return c.nonNeg(st, x.X, pred, depth+1)
		}
		return false // narrowing may wrap
	case *ssa.ChangeType:
		return c.nonNeg(st, x.X, pred, depth+1)
	case *ssa.Call:
		if b, ok := x.Call.Value.(*ssa.Builtin); ok && (b.Name() == "len" || b.Name() == "cap" || b.Name() == "copy" || b.Name() == "min" && false) {
			return true
		}
		return false
	case *ssa.BinOp:
		if x.Op == token.ADD || x.Op == token.MUL {
			return c.nonNeg(st, x.X, pred, depth+1) && c.nonNeg(st, x.Y, pred, depth+1)
		}
		return false
	case *ssa.Phi:
		if pb, ok := pred[x]; ok {
			if e := core.PhiValueOnPath(x, pb); e != nil {
				return c.nonNeg(st, e, pred, depth+1)
			}
		}
		for _, e := range x.Edges {
			if !c.nonNeg(st, e, pred, depth+1) {
				return false
			}
		}
		return true
	}
	return false
}

func c04(c *Ctx) {
	r := c.R
	r.Explain = "C04 (io.ReadSeeker model): decides four structural necessary conditions over every reader type of package file — R4.1 a Seek commits a position only after it is known non-negative and rejects before-start targets with an error (all paths × all whence/offset, by induction on the invariant position>=0); R4.2 a Seek that moves the position drops the lazily built stream; R4.3 Read advances the position by exactly the count it returns; R4.4 every AsLargeBytes hands out a freshly allocated cursor. Not decided: that bytes equal the content, the end-relative length value, exact EOF position."
	r.Rule("R4.1", "path-sensitive dataflow over Seek's CFG: at every return the position field is unchanged or holds a value proven >= 0 on that path (sign tests, len/copy, non-negative constants, sums of non-negatives, non-narrowing conversions); a negativity test on the prospective position leads only to error returns")
	r.Rule("R4.13", "a boolean receiver field that Read both sets and branches on (an end-of-data / state gate derived from the position) is known false on every path of another method that stores the position field")
	r.Rule("R4.2", "if Read lazily builds a stream field (store guarded by field==nil), every path of another method that stores the position field ends with that stream field nil")
	r.Rule("R4.3", "on every path of Read returning a count n that may be non-zero, the position field is stored old+n with n the returned SSA value")
	r.Rule("R4.6", "a Seek answers for the whence it was given: every path of a file reader's Seek to a return that may carry a nil error has branched on the whence parameter, or returns the results of an inner Seek that received (offset, whence) unchanged — a shortcut that looks only at the offset is wrong for two of the three origins")
	r.Rule("R4.7", "a reader handed out by the size query is positioned at the start: on every return of a non-nil reader the last Seek issued on it is Seek(0, io.SeekStart) (the stream builder splices that reader in as the child's segment)")
	r.Rule("R4.8", "reading at or past the end is an end-of-data result, never a panic: every slice/index expression in the Read and Seek methods of the file readers is discharged by C13's guard recognition (a position beyond len(buf) must be caught by a >= comparison before buf[pos:])")
	r.Rule("R4.9", "the length computed from the links is the sum of the per-link sizes: the value returned by the function that loops over the links calling the size query is a loop-carried accumulator updated only by acc + size")
	r.Rule("R4.10", "the single-block (childless) reader is chosen exactly when the node has no links: the comparison of the links' Length() that selects the wrapped-node constructor is equivalent to Length() == 0")
	r.Rule("R4.5", "no Reader/Seeker is ever stored into the state of a file node type (field, map entry or slice element of a type that hands out readers but is not itself a reader): cursors obtained separately share nothing mutable")
	r.Rule("R4.4", "every AsLargeBytes in package file returns an object allocated in that call (or the result of another AsLargeBytes); never a value loaded from a field or global; no Reader/Seeker loaded from the receiver is embedded in it")
	r.Assumes = append(r.Assumes, "integer overflow of position arithmetic is not modelled (sum of non-negatives treated as non-negative)", "entry value of the position field is >= 0 (inductive hypothesis; base case: allocation sites store constants)")

	pk := map[string]bool{"file": true}
	rts := findReaderTypes(c, pk)
	nSeekOwn, nRead, nLazy := 0, 0, 0
	for _, rt := range rts {
		tname := rt.named.Obj().Name()
		if len(rt.pos) == 0 {
			// delegating Seek: must not reach a store to any integer field itself; recorded as exempt
			r.ExemptOb("R4.1", "file."+tname+".Seek", c.P.Pos(rt.seek.Pos()), "owns no position field: Seek stores no integer receiver field (delegates to the wrapped ReadSeeker)")
			continue
		}
		nSeekOwn++
		for _, pf := range rt.pos {
			c.checkSeek(rt, pf)
		}
		if rt.read != nil {
			nRead++
			for _, pf := range rt.pos {
				c.checkReadAdvance(rt, pf)
			}
			nLazy += c.checkInvalidate(rt)
			c.checkGateFlags(rt)
		}
	}
	r.Floor("R4.1", nSeekOwn, 2)
	r.Floor("R4.3", nRead, 2)
	r.Floor("R4.2", nLazy, 1)
	// R4.4
	n44 := 0
	for _, f := range c.P.MethodsNamed("file", "AsLargeBytes") {
		n44++
		c.checkFreshCursor(f)
	}
	r.Floor("R4.4", n44, 3)
	r.Analysed["reader_types"] = len(rts)
	c.checkNoCursorInNode()
	c.checkWhenceExamined()
	c.checkSizeQueryRewinds("R4.7")
	c.checkReaderBounds()
	c.checkLengthIsSum()
	c.checkChildlessDispatch("R4.10")
	c.checkFastForward()
	c.checkNoFabricatedSize("R4.12")
}

func (c *Ctx) fieldOfAddr(fn *ssa.Function, addr ssa.Value) *types.Var {
	_, fv, ok := core.FieldAddrOf(addr)
	if !ok || len(fn.Params) == 0 {
		return nil
	}
	if core.RootOfAddr(addr) != ssa.Value(fn.Params[0]) {
		return nil
	}
	return fv
}

// checkSeek implements R4.1 for one position field.
func (c *Ctx) checkSeek(rt *readerType, pf *types.Var) {
	fn := rt.seek
	key := fmt.Sprintf("file.%s.Seek/field:%s", rt.named.Obj().Name(), pf.Name())
	pos := c.P.Pos(fn.Pos())
	type bad struct{ what, at string }
	var bads []bad
	storedVals := map[ssa.Value]bool{}
	for _, fs := range recvFieldStores(fn) {
		if fs.field == pf {
			storedVals[core.Unconv(fs.st.Val)] = true
			storedVals[fs.st.Val] = true
		}
	}
	negLeadsToErrOnly := map[ssa.Value]bool{} // tested values whose negative branch was seen
	negViolated := false
	errReturnAfterNeg := false
	npaths := 0
	complete := core.EnumPaths(fn, 2, 50000, func(path []*ssa.BasicBlock) {
		npaths++
		st := &posState{nonneg: map[ssa.Value]bool{}, alias: map[ssa.Value]ssa.Value{}, aliasEnt: map[ssa.Value]bool{}}
		phiPred := map[*ssa.Phi]*ssa.BasicBlock{}
		var relevantNeg bool
		for i, b := range path {
			if i > 0 {
				for _, ins := range b.Instrs {
					if phi, ok := ins.(*ssa.Phi); ok {
						phiPred[phi] = path[i-1]
					} else {
						break
					}
				}
			}
			for _, ins := range b.Instrs {
				switch x := ins.(type) {
				case *ssa.UnOp:
					if x.Op == token.MUL && c.fieldOfAddr(fn, x.X) == pf {
						if st.cur == nil {
							st.aliasEnt[x] = true
						} else {
							st.alias[x] = st.cur
						}
					}
				case *ssa.Store:
					if c.fieldOfAddr(fn, x.Addr) == pf {
						st.cur = x.Val
						st.stored = true
					}
				case *ssa.Return:
					isErr := !core.IsNilConst(x.Results[len(x.Results)-1])
					okPos := st.cur == nil || c.nonNeg(st, st.cur, phiPred, 0)
					if !okPos {
						kind := "nil-error"
						if isErr {
							kind = "error"
						}
						bads = append(bads, bad{fmt.Sprintf("%s return leaves position field %s holding a value not proven >= 0 (stored at %s)", kind, pf.Name(), c.P.Pos(posOf(st.cur))), c.P.Pos(x.Pos())})
					}
					if relevantNeg {
						if isErr {
							errReturnAfterNeg = true
						} else {
							negViolated = true
							bads = append(bads, bad{"a path on which the prospective position tested negative returns a nil error", c.P.Pos(x.Pos())})
						}
					}
				}
			}
			if i+1 < len(path) {
				if cond, taken, ok := core.BranchTaken(b, path[i+1]); ok {
					if x, onT, onF, ok := core.SignTest(cond); ok {
						res := onF
						if taken {
							res = onT
						}
						targets := []ssa.Value{x}
						if a, ok := st.alias[x]; ok {
							targets = append(targets, a)
						}
						if res == "nonneg" {
							for _, t := range targets {
								st.nonneg[t] = true
								st.nonneg[core.Unconv(t)] = true
							}
						} else if res == "neg" {
							for _, t := range targets {
								if storedVals[t] || storedVals[core.Unconv(t)] || c.flowsToStore(t, storedVals) {
									relevantNeg = true
									negLeadsToErrOnly[t] = true
								}
							}
						}
					}
				}
			}
		}
	})
	c.R.Analysed["R4.1_paths_"+rt.named.Obj().Name()] = npaths
	if !complete {
		c.R.Undecided("R4.1", key, pos, "path enumeration exceeded its bound")
		return
	}
	if len(bads) > 0 {
		seen := map[string]bool{}
		msg := ""
		for _, b := range bads {
			s := b.what + " [return at " + b.at + "]"
			if !seen[s] {
				seen[s] = true
				if msg != "" {
					msg += "; "
				}
				msg += s
			}
		}
		c.R.Violate("R4.1", key, pos, msg)
	} else {
		c.R.OK("R4.1", key, pos, fmt.Sprintf("%d paths: position unchanged or proven >= 0 at every return", npaths))
	}
	key2 := fmt.Sprintf("file.%s.Seek/rejects-before-start:%s", rt.named.Obj().Name(), pf.Name())
	if errReturnAfterNeg && !negViolated {
		c.R.OK("R4.1", key2, pos, "a negativity test on the prospective position leads only to error returns")
	} else if !negViolated {
		c.R.Violate("R4.1", key2, pos, "no path tests the prospective position for negativity and returns an error: a before-start Seek is not rejected")
	}
}

// flowsToStore: t is an operand-equivalent of a stored value (e.g. the stored value is a conversion of t).
func (c *Ctx) flowsToStore(t ssa.Value, stored map[ssa.Value]bool) bool {
	for sv := range stored {
		if core.Unconv(sv) == core.Unconv(t) {
			return true
		}
	}
	return false
}

func posOf(v ssa.Value) token.Pos {
	if v == nil {
		return token.NoPos
	}
	if ins, ok := v.(ssa.Instruction); ok && ins.Pos().IsValid() {
		return ins.Pos()
	}
	return v.Pos()
}

// checkReadAdvance implements R4.3.
func (c *Ctx) checkReadAdvance(rt *readerType, pf *types.Var) {
	fn := rt.read
	key := fmt.Sprintf("file.%s.Read/field:%s", rt.named.Obj().Name(), pf.Name())
	pos := c.P.Pos(fn.Pos())
	var bads []string
	npaths := 0
	complete := core.EnumPaths(fn, 2, 50000, func(path []*ssa.BasicBlock) {
		npaths++
		var added []ssa.Value // values added to the field on this path
		var other bool        // store that is not old+x
		loads := map[ssa.Value]bool{}
		for _, b := range path {
			for _, ins := range b.Instrs {
				switch x := ins.(type) {
				case *ssa.UnOp:
					if x.Op == token.MUL && c.fieldOfAddr(fn, x.X) == pf {
						loads[x] = true
					}
				case *ssa.Store:
					if c.fieldOfAddr(fn, x.Addr) != pf {
						continue
					}
					if bo, ok := x.Val.(*ssa.BinOp); ok && bo.Op == token.ADD {
						if loads[bo.X] {
							added = append(added, core.Unconv(bo.Y))
							continue
						}
						if loads[bo.Y] {
							added = append(added, core.Unconv(bo.X))
							continue
						}
					}
					other = true
				case *ssa.Return:
					n := core.Unconv(x.Results[0])
					if i, ok := core.ConstInt(n); ok && i == 0 && len(added) == 0 && !other {
						continue
					}
					if other || len(added) != 1 || added[0] != n {
						bads = append(bads, fmt.Sprintf("return at %s: count returned is not the single value added to %s on this path", c.P.Pos(x.Pos()), pf.Name()))
					}
				}
			}
		}
	})
	if !complete {
		c.R.Undecided("R4.3", key, pos, "path enumeration exceeded its bound")
		return
	}
	if len(bads) > 0 {
		c.R.Violate("R4.3", key, pos, uniqJoin(bads))
	} else {
		c.R.OK("R4.3", key, pos, fmt.Sprintf("%d paths: position advanced by exactly the returned count", npaths))
	}
}

func uniqJoin(ss []string) string {
	seen := map[string]bool{}
	out := ""
	for _, s := range ss {
		if seen[s] {
			continue
		}
		seen[s] = true
		if out != "" {
			out += "; "
		}
		out += s
	}
	return out
}

// checkInvalidate implements R4.2; returns the number of lazily built stream fields found.
func (c *Ctx) checkInvalidate(rt *readerType) int {
	read := rt.read
	// lazily initialised fields: store to a nilable receiver field in a block guarded by load(field)==nil
	lazy := map[*types.Var]bool{}
	for _, fs := range recvFieldStores(read) {
		if !nilable(fs.field.Type()) || core.IsNilConst(fs.st.Val) {
			continue
		}
		fv := fs.field
		if core.GuardedBy(fs.st.Block(), func(cond ssa.Value) (bool, bool) {
			if f2, tmn, ok := c.fieldNilPredicate(read, cond); ok && f2 == fv {
				return tmn, true
			}
			x, trueMeansNil, ok := core.NilCmp(cond)
			if !ok {
				return false, false
			}
			if u, ok := x.(*ssa.UnOp); ok && u.Op == token.MUL && c.fieldOfAddr(read, u.X) == fv {
				return trueMeansNil, true
			}
			return false, false
		}) {
			lazy[fv] = true
		}
	}
	if len(lazy) == 0 {
		return 0
	}
	posSet := map[*types.Var]bool{}
	for _, p := range rt.pos {
		posSet[p] = true
	}
	// every other declared method of the type that stores a position field
	for _, m := range c.P.RepoFuncs {
		if m == read || m.Synthetic != "" || core.RecvNamed(m) != rt.named {
			continue
		}
		storesPos := false
		for _, fs := range recvFieldStores(m) {
			if posSet[fs.field] {
				storesPos = true
			}
		}
		if !storesPos {
			continue
		}
		for lf := range lazy {
			key := fmt.Sprintf("file.%s.%s/invalidates:%s", rt.named.Obj().Name(), m.Name(), lf.Name())
			var bads []string
			complete := core.EnumPaths(m, 2, 50000, func(path []*ssa.BasicBlock) {
				state := "unknown"
				moved := false
				loads := map[ssa.Value]bool{}
				for i, b := range path {
					for _, ins := range b.Instrs {
						switch x := ins.(type) {
						case *ssa.UnOp:
							if x.Op == token.MUL && c.fieldOfAddr(m, x.X) == lf {
								loads[x] = true
							}
						case *ssa.Store:
							f := c.fieldOfAddr(m, x.Addr)
							if f == lf {
								if core.IsNilConst(x.Val) {
									state = "nil"
								} else {
									state = "set"
								}
							} else if f != nil && posSet[f] {
								moved = true
							}
						case *ssa.Return:
							if moved && state != "nil" {
								bads = append(bads, fmt.Sprintf("return at %s: position stored but stream field %s not known nil", c.P.Pos(x.Pos()), lf.Name()))
							}
						}
					}
					if i+1 < len(path) {
						if cond, taken, ok := core.BranchTaken(b, path[i+1]); ok {
							if f2, tmn, ok := c.fieldNilPredicate(m, cond); ok && f2 == lf {
								if taken == tmn {
									state = "nil"
								} else if state != "nil" {
									state = "set"
								}
							}
							if x, trueMeansNil, ok := core.NilCmp(cond); ok && loads[x] {
								if taken == trueMeansNil {
									state = "nil"
								} else if state != "nil" {
									state = "set"
								}
							}
						}
					}
				}
			})
			if !complete {
				c.R.Undecided("R4.2", key, c.P.Pos(m.Pos()), "path enumeration exceeded its bound")
			} else if len(bads) > 0 {
				c.R.Violate("R4.2", key, c.P.Pos(m.Pos()), uniqJoin(bads))
			} else {
				c.R.OK("R4.2", key, c.P.Pos(m.Pos()), "every path that moves the position leaves the lazily built stream nil")
			}
		}
	}
	return len(lazy)
}

// checkGateFlags implements R4.13: boolean state that Read derives from the position and consults before reading must be
// dropped by every method that moves the position, on every path (a gate left standing makes Read answer for the old position).
func (c *Ctx) checkGateFlags(rt *readerType) {
	read := rt.read
	posSet := map[*types.Var]bool{}
	for _, p := range rt.pos {
		posSet[p] = true
	}
	isBool := func(v *types.Var) bool {
		b, ok := v.Type().Underlying().(*types.Basic)
		return ok && b.Kind() == types.Bool
	}
	gates := map[*types.Var]bool{}
	for _, fs := range recvFieldStores(read) {
		if isBool(fs.field) && !posSet[fs.field] {
			gates[fs.field] = true
		}
	}
	// … and consulted by Read in a branch condition
	loadOfGate := func(fn *ssa.Function, v ssa.Value) (*types.Var, bool) {
		neg := false
		for {
			u, ok := v.(*ssa.UnOp)
			if !ok {
				return nil, false
			}
			if u.Op == token.NOT {
				neg = !neg
				v = u.X
				continue
			}
			if u.Op == token.MUL {
				if f := c.fieldOfAddr(fn, u.X); f != nil && gates[f] {
					return f, neg
				}
			}
			return nil, false
		}
	}
	consulted := map[*types.Var]bool{}
	for _, b := range read.Blocks {
		if iff := core.BlockIf(b); iff != nil {
			if f, _ := loadOfGate(read, iff.Cond); f != nil {
				consulted[f] = true
			}
		}
	}
	for g := range gates {
		if !consulted[g] {
			delete(gates, g)
		}
	}
	if len(gates) == 0 {
		return
	}
	for _, m := range c.P.RepoFuncs {
		if m == read || m.Synthetic != "" || core.RecvNamed(m) != rt.named {
			continue
		}
		storesPos := false
		for _, fs := range recvFieldStores(m) {
			if posSet[fs.field] {
				storesPos = true
			}
		}
		if !storesPos {
			continue
		}
		for g := range gates {
			key := fmt.Sprintf("file.%s.%s/clears-gate:%s", rt.named.Obj().Name(), m.Name(), g.Name())
			var bads []string
			complete := core.EnumPaths(m, 2, 50000, func(path []*ssa.BasicBlock) {
				state := "unknown"
				moved := false
				for i, b := range path {
					for _, ins := range b.Instrs {
						switch x := ins.(type) {
						case *ssa.Store:
							f := c.fieldOfAddr(m, x.Addr)
							if f == g {
								state = "set"
								if k, ok := x.Val.(*ssa.Const); ok && k.Value != nil && k.Value.String() == "false" {
									state = "false"
								}
							} else if f != nil && posSet[f] {
								moved = true
							}
						case *ssa.Return:
							if moved && state != "false" {
								bads = append(bads, fmt.Sprintf("return at %s: position stored but the gate %s that Read consults is not known false", c.P.Pos(x.Pos()), g.Name()))
							}
						}
					}
					if i+1 < len(path) {
						if cond, taken, ok := core.BranchTaken(b, path[i+1]); ok {
							if f, neg := loadOfGate(m, cond); f == g {
								if taken == neg {
									state = "false"
								} else if state != "false" {
									state = "set"
								}
							}
						}
					}
				}
			})
			if !complete {
				c.R.Undecided("R4.13", key, c.P.Pos(m.Pos()), "path enumeration exceeded its bound")
			} else if len(bads) > 0 {
				c.R.Violate("R4.13", key, c.P.Pos(m.Pos()), uniqJoin(bads))
			} else {
				c.R.OK("R4.13", key, c.P.Pos(m.Pos()), "every path that moves the position leaves the gate false")
			}
		}
	}
}

func nilable(t types.Type) bool {
	switch t.Underlying().(type) {
	case *types.Interface, *types.Pointer, *types.Slice, *types.Map, *types.Signature, *types.Chan:
		return true
	}
	return false
}

// checkFreshCursor implements R4.4 for one AsLargeBytes method.
func (c *Ctx) checkFreshCursor(fn *ssa.Function) {
	n := core.RecvNamed(fn)
	tn := "?"
	if n != nil {
		tn = n.Obj().Name()
	}
	key := "file." + tn + ".AsLargeBytes"
	pos := c.P.Pos(fn.Pos())
	if fn.Synthetic != "" {
		return
	}
	var bads []string
	var recv ssa.Value
	if len(fn.Params) > 0 {
		recv = fn.Params[0]
	}
	var checkVal func(v ssa.Value, depth int)
	checkVal = func(v ssa.Value, depth int) {
		if depth > 8 {
			bads = append(bads, "value provenance too deep")
			return
		}
		switch x := v.(type) {
		case *ssa.MakeInterface:
			checkVal(x.X, depth+1)
		case *ssa.ChangeInterface:
			checkVal(x.X, depth+1)
		case *ssa.Alloc:
			if !x.Heap {
				bads = append(bads, "returns a non-heap allocation")
			}
			// stores into the fresh object
			for _, ref := range *x.Referrers() {
				fa, ok := ref.(*ssa.FieldAddr)
				if !ok {
					continue
				}
				for _, r2 := range *fa.Referrers() {
					st, ok := r2.(*ssa.Store)
					if !ok || st.Addr != ssa.Value(fa) {
						continue
					}
					if isCursorType(st.Val.Type()) && !core.IsNilConst(st.Val) && derivesFromReceiverLoad(st.Val, recv) {
						bads = append(bads, fmt.Sprintf("embeds a Reader/Seeker loaded from the receiver (store at %s)", c.P.Pos(st.Pos())))
					}
				}
			}
		case *ssa.Phi:
			for _, e := range x.Edges {
				checkVal(e, depth+1)
			}
		case *ssa.Extract:
			checkVal(x.Tuple, depth+1)
		case *ssa.Call:
			cc := x.Common()
			if cc.IsInvoke() && cc.Method.Name() == "AsLargeBytes" {
				return
			}
			if callee := cc.StaticCallee(); callee != nil && callee.Name() == "AsLargeBytes" {
				return
			}
			bads = append(bads, fmt.Sprintf("returns the result of %s, which is not an AsLargeBytes", core.CalleeName(x)))
		case *ssa.Const:
			// nil reader with error
		default:
			bads = append(bads, fmt.Sprintf("returns a value that is not allocated in this call (%T at %s)", v, c.P.Pos(posOf(v))))
		}
	}
	for _, ret := range core.Returns(fn) {
		checkVal(ret.Results[0], 0)
	}
	if len(bads) > 0 {
		c.R.Violate("R4.4", key, pos, uniqJoin(bads))
	} else {
		c.R.OK("R4.4", key, pos, "returns a cursor allocated in this call on every return")
	}
}

func isCursorType(t types.Type) bool {
	for _, tt := range []types.Type{t, types.NewPointer(t)} {
		ms := types.NewMethodSet(tt)
		for i := 0; i < ms.Len(); i++ {
			name := ms.At(i).Obj().Name()
			if name == "Read" || name == "Seek" {
				if sig, ok := ms.At(i).Type().(*types.Signature); ok && sig.Results().Len() == 2 {
					return true
				}
			}
		}
	}
	return false
}

func derivesFromReceiverLoad(v ssa.Value, recv ssa.Value) bool {
	for i := 0; i < 8; i++ {
		switch x := v.(type) {
		case *ssa.MakeInterface:
			v = x.X
		case *ssa.ChangeInterface:
			v = x.X
		case *ssa.UnOp:
			if x.Op == token.MUL {
				return core.RootOfAddr(x.X) == recv
			}
			return false
		case *ssa.Field:
			v = x.X
		default:
			return false
		}
	}
	return false
}

// checkNoCursorInNode implements R4.5.
func (c *Ctx) checkNoCursorInNode() {
	r := c.R
	isNodeType := func(n *types.Named) bool {
		if n == nil {
			return false
		}
		pt := types.NewPointer(n)
		ms := types.NewMethodSet(pt)
		has := map[string]bool{}
		for i := 0; i < ms.Len(); i++ {
			has[ms.At(i).Obj().Name()] = true
		}
		return has["AsLargeBytes"] && !has["Read"] && !has["Seek"]
	}
	nstores, nviol := 0, 0
	for _, fn := range c.G.Funcs() {
		rel, ok := c.P.PkgOf(fn)
		if !ok || rel != "file" {
			continue
		}
		for _, b := range fn.Blocks {
			for _, ins := range b.Instrs {
				var val, addr ssa.Value
				switch x := ins.(type) {
				case *ssa.Store:
					val, addr = x.Val, x.Addr
				case *ssa.MapUpdate:
					if u, ok := x.Map.(*ssa.UnOp); ok {
						val, addr = x.Value, u.X
					}
				}
				if val == nil {
					continue
				}
				fa := fieldAddrChain(addr)
				if fa == nil {
					continue
				}
				owner, _ := structOf(fa.X.Type())
				if !isNodeType(owner) {
					continue
				}
				nstores++
				carries, vt := c.valueCarriesCursor(val, false)
				if !carries {
					continue
				}
				nviol++
				_, fv, _ := core.FieldAddrOf(fa)
				r.Violate("R4.5", fmt.Sprintf("%s/cursor-in-node:%s.%s", core.FuncName(fn), owner.Obj().Name(), fv.Name()), c.P.Pos(ins.Pos()), fmt.Sprintf("a %s (stateful cursor) is stored into %s.%s: readers obtained separately from the node would share it", core.TypeNameOf(vt), owner.Obj().Name(), fv.Name()))
			}
		}
	}
	if nviol == 0 {
		r.OK("R4.5", "file/node-state", "-", fmt.Sprintf("%d stores into file node state examined: none stores a Reader/Seeker", nstores))
	}
	r.Floor("R4.5", nstores, 4)
}

// checkWhenceExamined implements R4.6.
func (c *Ctx) checkWhenceExamined() {
	r := c.R
	n := 0
	for _, fn := range c.G.Funcs() {
		rel, ok := c.P.PkgOf(fn)
		if !ok || rel != "file" || fn.Synthetic != "" || !seekSig(fn) || len(fn.Params) < 3 {
			continue
		}
		n++
		offsetP, whenceP := ssa.Value(fn.Params[1]), ssa.Value(fn.Params[2])
		key := core.FuncName(fn) + "/whence-examined"
		mentions := func(v ssa.Value, p ssa.Value) bool {
			seen := map[ssa.Value]bool{}
			var rec func(v ssa.Value, d int) bool
			rec = func(v ssa.Value, d int) bool {
				if v == nil || seen[v] || d > 6 {
					return false
				}
				seen[v] = true
				if v == p {
					return true
				}
				switch x := v.(type) {
				case *ssa.BinOp:
					return rec(x.X, d+1) || rec(x.Y, d+1)
				case *ssa.UnOp:
					return rec(x.X, d+1)
				case *ssa.Convert:
					return rec(x.X, d+1)
				}
				return false
			}
			return rec(v, 0)
		}
		var bad []string
		complete := core.EnumPaths(fn, 2, 60000, func(path []*ssa.BasicBlock) {
			examined := false
			for i, b := range path {
				if i+1 < len(path) {
					if cond, _, ok := core.BranchTaken(b, path[i+1]); ok && mentions(cond, whenceP) {
						examined = true
					}
				}
				// whence handed to a repository helper that branches on it (the origin arithmetic in a helper)
				for _, ins := range b.Instrs {
					call, isCall := ins.(*ssa.Call)
					if !isCall {
						continue
					}
					h := call.Call.StaticCallee()
					if h == nil || len(h.Blocks) == 0 {
						continue
					}
					if _, isRepo := c.P.PkgOf(h); !isRepo {
						continue
					}
					for ai, a := range call.Call.Args {
						if a != whenceP || ai >= len(h.Params) {
							continue
						}
						for _, hb := range h.Blocks {
							if iff := core.BlockIf(hb); iff != nil && mentions(iff.Cond, ssa.Value(h.Params[ai])) {
								examined = true
							}
						}
					}
				}
				if len(b.Instrs) == 0 {
					continue
				}
				ret, isRet := b.Instrs[len(b.Instrs)-1].(*ssa.Return)
				if !isRet || examined {
					continue
				}
				rr := core.ResolvedResults(ret)
				if core.ErrKnownNonNil(rr[1], core.PathNonNil(path, i)) {
					continue
				}
				// delegation: both results come from one inner Seek call that received offset and whence unchanged
				if ex, isEx := rr[1].(*ssa.Extract); isEx {
					if call, isCall := ex.Tuple.(*ssa.Call); isCall {
						name, _ := methodCall(call)
						args := call.Call.Args
						if name == "Seek" && len(args) >= 2 && args[len(args)-1] == whenceP && args[len(args)-2] == offsetP {
							continue
						}
					}
				}
				bad = append(bad, fmt.Sprintf("return at %s may report success without having looked at whence", c.P.Pos(ret.Pos())))
			}
		})
		if !complete {
			r.Undecided("R4.6", key, c.P.Pos(fn.Pos()), "path enumeration exceeded its bound")
			continue
		}
		r.Check(len(bad) == 0, "R4.6", key, c.P.Pos(fn.Pos()), "every successful path branches on whence or delegates (offset, whence) to an inner Seek", uniqJoin(bad))
	}
	r.Floor("R4.6", n, 3)
}

// sizeQueries: functions of package file that return an integer size together with a ReadSeeker (the child opened to
// measure it) and an error.
func (c *Ctx) sizeQueries() []*ssa.Function {
	var out []*ssa.Function
	for _, fn := range c.G.Funcs() {
		rel, ok := c.P.PkgOf(fn)
		if !ok || rel != "file" || fn.Synthetic != "" {
			continue
		}
		res := fn.Signature.Results()
		if res.Len() < 2 || !core.IsErrorType(res.At(res.Len()-1).Type()) {
			continue
		}
		hasInt, hasRdr := false, false
		for i := 0; i < res.Len()-1; i++ {
			t := res.At(i).Type()
			if isIntegerType(t) {
				hasInt = true
			}
			if isCursorT(t) {
				hasRdr = true
			}
			// the pair carried in a small struct result
			if _, st := structOf(t); st != nil {
				for k := 0; k < st.NumFields(); k++ {
					if isIntegerType(st.Field(k).Type()) {
						hasInt = true
					}
					if _, isIface := st.Field(k).Type().Underlying().(*types.Interface); isIface && isCursorT(st.Field(k).Type()) {
						hasRdr = true
					}
				}
			}
		}
		if !hasInt || !hasRdr {
			continue
		}
		out = append(out, fn)
	}
	return out
}

// checkSizeQueryRewinds implements R4.7 (and R6.6 under C06).
func (c *Ctx) checkSizeQueryRewinds(rule string) {
	r := c.R
	n := 0
	for _, q := range c.sizeQueries() {
		n++
		key := core.FuncName(q) + "/reader-rewound"
		var bad []string
		complete := core.EnumPaths(q, 2, 100000, func(path []*ssa.BasicBlock) {
			state := map[ssa.Value]string{}
			// reader-typed fields of local struct values, as stored along this path
			type fkey struct {
				al  *ssa.Alloc
				idx int
			}
			fieldVal := map[fkey]ssa.Value{}
			for _, b := range path {
				for _, ins := range b.Instrs {
					switch x := ins.(type) {
					case *ssa.Store:
						if fa, ok := x.Addr.(*ssa.FieldAddr); ok {
							if al, ok := fa.X.(*ssa.Alloc); ok {
								fieldVal[fkey{al, fa.Field}] = x.Val
							}
						}
					case *ssa.Call:
						name, recv := methodCall(x)
						if name != "Seek" || recv == nil {
							continue
						}
						args := x.Call.Args
						off, ok1 := core.ConstInt(args[len(args)-2])
						wh, ok2 := core.ConstInt(args[len(args)-1])
						switch {
						case ok1 && ok2 && off == 0 && wh == 0:
							state[recv] = "start"
						default:
							state[recv] = "moved"
						}
					case *ssa.Return:
						rr := core.ResolvedResults(x)
						// the readers handed out: reader-typed results, and reader-typed fields of a struct result built here
						var handed []ssa.Value
						for _, rv := range rr {
							if core.IsNilConst(rv) {
								continue
							}
							if isCursorT(rv.Type()) {
								handed = append(handed, rv)
								continue
							}
							if u, ok := rv.(*ssa.UnOp); ok && u.Op == token.MUL {
								if al, ok := u.X.(*ssa.Alloc); ok {
									for k, fv := range fieldVal {
										if k.al == al && fv != nil && !core.IsNilConst(fv) && isCursorT(fv.Type()) {
											handed = append(handed, fv)
										}
									}
								}
							}
						}
						for _, rd := range handed {
							if st, seen := state[rd]; seen && st != "start" {
								bad = append(bad, fmt.Sprintf("return at %s hands out a reader that was moved and not put back with Seek(0, io.SeekStart)", c.P.Pos(x.Pos())))
							}
						}
					}
				}
			}
		})
		if !complete {
			r.Undecided(rule, key, c.P.Pos(q.Pos()), "path enumeration exceeded its bound")
			continue
		}
		r.Check(len(bad) == 0, rule, key, c.P.Pos(q.Pos()), "every reader handed out was last positioned with Seek(0, io.SeekStart)", uniqJoin(bad))
	}
	r.Floor(rule, n, 1)
}

// fieldNilPredicate: cond is (the negation of) a call, on fn's receiver, of a one-line accessor method that returns
// `recv.F == nil` or `recv.F != nil`; returns F and whether a true condition means the field is nil.
func (c *Ctx) fieldNilPredicate(fn *ssa.Function, cond ssa.Value) (*types.Var, bool, bool) {
	neg := false
	if u, ok := cond.(*ssa.UnOp); ok && u.Op == token.NOT {
		cond, neg = u.X, true
	}
	call, ok := cond.(*ssa.Call)
	if !ok || len(fn.Params) == 0 {
		return nil, false, false
	}
	h := call.Call.StaticCallee()
	if h == nil || len(h.Blocks) != 1 || len(h.Params) != 1 || len(call.Call.Args) != 1 || call.Call.Args[0] != ssa.Value(fn.Params[0]) {
		return nil, false, false
	}
	rets := core.Returns(h)
	if len(rets) != 1 || len(rets[0].Results) != 1 {
		return nil, false, false
	}
	x, trueMeansNil, ok := core.NilCmp(rets[0].Results[0])
	if !ok {
		return nil, false, false
	}
	u, ok := x.(*ssa.UnOp)
	if !ok || u.Op != token.MUL {
		return nil, false, false
	}
	fv := c.fieldOfAddr(h, u.X)
	if fv == nil {
		return nil, false, false
	}
	return fv, trueMeansNil != neg, true
}

// checkReaderBounds implements R4.8.
func (c *Ctx) checkReaderBounds() {
	r := c.R
	d := newDischarger(c)
	n := 0
	for _, fn := range c.G.Funcs() {
		rel, ok := c.P.PkgOf(fn)
		if !ok || rel != "file" || fn.Synthetic != "" || !(seekSig(fn) || readSig(fn)) {
			continue
		}
		for _, s := range c.enumeratePanicSites(fn) {
			if s.kind != "slice" && s.kind != "index" {
				continue
			}
			n++
			ok2, how := d.discharge(s)
			r.Check(ok2, "R4.8", "bounds:"+c.siteKey(s), c.P.Pos(s.ins.Pos()), s.desc+": "+how, s.desc+" in a reader method may panic for a position at or beyond the end instead of reporting end of data: "+how)
		}
	}
	r.Floor("R4.8", n, 1)
}

// checkLengthIsSum implements R4.9.
func (c *Ctx) checkLengthIsSum() {
	r := c.R
	queries := map[*ssa.Function]bool{}
	for _, q := range c.sizeQueries() {
		queries[q] = true
	}
	n := 0
	for _, fn := range c.G.Funcs() {
		rel, ok := c.P.PkgOf(fn)
		if !ok || rel != "file" || fn.Synthetic != "" || len(fn.Blocks) == 0 {
			continue
		}
		res := fn.Signature.Results()
		if res.Len() != 2 || !isIntegerType(res.At(0).Type()) || !core.IsErrorType(res.At(1).Type()) {
			continue
		}
		// calls the size query inside a loop, and is not the stream builder
		var qcall *ssa.Call
		builder := false
		for _, ci := range core.CallsIn(fn) {
			if call, ok := ci.(*ssa.Call); ok {
				if queries[call.Call.StaticCallee()] && core.InCycle(call.Block()) {
					qcall = call
				}
				if core.IsCallTo(call, "io", "MultiReader") {
					builder = true
				}
			}
		}
		if qcall == nil || builder {
			continue
		}
		n++
		key := core.FuncName(fn) + "/length-is-sum"
		var bad []string
		for _, ret := range core.Returns(fn) {
			rr := core.ResolvedResults(ret)
			if !core.IsNilConst(rr[1]) {
				continue
			}
			phi, ok := core.Unconv(rr[0]).(*ssa.Phi)
			if !ok {
				if k, isK := core.ConstInt(rr[0]); isK && k == 0 {
					continue
				}
				bad = append(bad, fmt.Sprintf("return at %s does not return the accumulated sum", c.P.Pos(ret.Pos())))
				continue
			}
			for i, e := range phi.Edges {
				if k, isK := core.ConstInt(e); isK && k == 0 {
					continue
				}
				if e == ssa.Value(phi) {
					continue
				}
				add, isAdd := e.(*ssa.BinOp)
				okAdd := false
				if isAdd && add.Op == token.ADD {
					for _, pair := range [][2]ssa.Value{{add.X, add.Y}, {add.Y, add.X}} {
						if pair[0] == ssa.Value(phi) {
							// the addend: the size result of the query call of this iteration
							if c2 := callFeeding(pair[1], 0); c2 != nil && queries[c2.Call.StaticCallee()] {
								okAdd = true
							}
						}
					}
				}
				if !okAdd {
					bad = append(bad, fmt.Sprintf("the running length is updated with something other than length + size(link) (edge %d of the accumulator at %s)", i, c.P.Pos(phi.Pos())))
				}
			}
		}
		r.Check(len(bad) == 0, "R4.9", key, c.P.Pos(fn.Pos()), "the length is the sum of the per-link sizes", uniqJoin(bad))
	}
	r.Floor("R4.9", n, 1)
}

// checkChildlessDispatch implements R4.10 (and R20.5).
func (c *Ctx) checkChildlessDispatch(rule string) {
	r := c.R
	n := 0
	for _, fn := range c.G.Funcs() {
		rel, ok := c.P.PkgOf(fn)
		if !ok || rel != "file" || fn.Synthetic != "" || fn.Signature.Recv() != nil || fn.Object() == nil || !fn.Object().Exported() {
			continue
		}
		for _, b := range fn.Blocks {
			iff := core.BlockIf(b)
			if iff == nil {
				continue
			}
			bo, ok := iff.Cond.(*ssa.BinOp)
			if !ok {
				continue
			}
			isLen := func(v ssa.Value) bool {
				call, ok := core.Unconv(v).(*ssa.Call)
				if !ok {
					return false
				}
				name, _ := methodCall(call)
				return name == "Length"
			}
			var op token.Token
			var k int64
			switch {
			case isLen(bo.X):
				kk, isK := core.ConstInt(bo.Y)
				if !isK {
					continue
				}
				op, k = bo.Op, kk
			case isLen(bo.Y):
				kk, isK := core.ConstInt(bo.X)
				if !isK {
					continue
				}
				k = kk
				switch bo.Op {
				case token.LSS:
					op = token.GTR
				case token.GTR:
					op = token.LSS
				case token.LEQ:
					op = token.GEQ
				case token.GEQ:
					op = token.LEQ
				default:
					op = bo.Op
				}
			default:
				continue
			}
			// does one arm construct the childless node and the other the sharded one?
			n++
			key := core.FuncName(fn) + "/childless-iff-no-links"
			// accepted: len == 0, len <= 0, len < 1 (true arm = childless); len != 0, len > 0, len >= 1 (false arm = childless)
			exact := (op == token.EQL && k == 0) || (op == token.LEQ && k == 0) || (op == token.LSS && k == 1) || (op == token.NEQ && k == 0) || (op == token.GTR && k == 0) || (op == token.GEQ && k == 1)
			r.Check(exact, rule, key, c.P.Pos(bo.Pos()), "the node is treated as childless exactly when it has no links", fmt.Sprintf("the links' Length() is compared with %s %d: a node that has links can be treated as childless (its children are never read)", op, k))
		}
	}
	r.Floor(rule, n, 1)
}
