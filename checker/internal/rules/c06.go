package rules

import (
	"fmt"
	"go/constant"
	"go/token"
	"go/types"
	"sort"
	"strings"

	"golang.org/x/tools/go/ssa"

	"verifchk/internal/core"
)

func init() { Registry["C06"] = c06 }

// dataTypeConsts returns the Data_* constants of package data: name -> value.
func (c *Ctx) dataTypeConsts() map[string]int64 {
	out := map[string]int64{}
	pk := c.P.Repo[core.Module+"/data"]
	if pk == nil {
		return out
	}
	sc := pk.Types.Scope()
	for _, name := range sc.Names() {
		k, ok := sc.Lookup(name).(*types.Const)
		if !ok || !strings.HasPrefix(name, "Data_") || strings.HasSuffix(name, "WireNum") {
			continue
		}
		if b, ok := k.Type().Underlying().(*types.Basic); !ok || b.Kind() != types.Int64 {
			continue
		}
		if v, ok := constant.Int64Val(k.Val()); ok {
			out[name] = v
		}
	}
	return out
}

func entryFor(ents []core.TableEntry, key int64) *ssa.Function {
	for _, e := range ents {
		if e.Key != nil {
			if v, ok := constant.Int64Val(e.Key); ok && v == key {
				return e.Fn
			}
		}
	}
	return nil
}

// followForwarders: while fn merely forwards a static repository call (single block), descend into the callee.
func (c *Ctx) followForwarders(fn *ssa.Function) *ssa.Function {
	for i := 0; i < 5 && fn != nil; i++ {
		if len(fn.Blocks) != 1 {
			return fn
		}
		var only *ssa.Function
		n := 0
		for _, ci := range core.CallsIn(fn) {
			if f := ci.Common().StaticCallee(); f != nil {
				if _, isRepo := c.P.PkgOf(f); isRepo {
					only = f
					n++
				}
			}
		}
		if n != 1 {
			return fn
		}
		fn = only
	}
	return fn
}

func stripAssert(v ssa.Value) ssa.Value {
	for {
		switch x := v.(type) {
		case *ssa.TypeAssert:
			v = x.X
		case *ssa.Extract:
			// the value half of a comma-ok assertion
			if ta, ok := x.Tuple.(*ssa.TypeAssert); ok && ta.CommaOk && x.Index == 0 {
				v = ta.X
				continue
			}
			return v
		case *ssa.ChangeInterface:
			v = x.X
		case *ssa.MakeInterface:
			v = x.X
		default:
			return v
		}
	}
}

func c06(c *Ctx) {
	r := c.R
	r.Explain = "C06 (preload fetches the whole entity or fails): decides that the \"unixfs-preload\" reifier dispatches through a table with exactly the six data types whose File and HAMTShard entries are constructors that cannot succeed without a complete traversal — the file constructor's every nil-error return passes a full drain (io.Copy / io.ReadAll) of the reader obtained from the very node it returns, with the drain's error propagated; the shard constructor's every nil-error return passes the walk function on the node it returns, and that walk function loops over the shard's links until the iterator is exhausted, loads every non-value link and recurses into the loaded child in the same iteration, returns every error, never loads value (entry) links, and memoises only after a complete walk. Selector names used with InterpretAs are registered keys. Not decided: what go-ipld-prime's traversal loads for the entity selector."
	r.Rule("R6.1", "registry and exhaustiveness: \"unixfs-preload\" and \"unixfs\" dispatch through two tables whose key sets equal the Data_* constants of package data; the preload table's File and HAMTShard entries resolve to constructors checked by R6.2/R6.3")
	r.Rule("R6.2", "must-drain: on every path of the file preload constructor to a nil-error return there is a call io.Copy/io.ReadAll whose source is AsLargeBytes() of the node that is returned; the drain's error is propagated on every path")
	r.Rule("R6.3", "must-walk: every nil-error return of the shard preload constructor passes a call of the walk function W on the returned node; W iterates the shard's links to exhaustion (no other nil-error exit, memo written only after the loop), loads each non-value link and recurses into W on the loaded child before the next advance, propagates errors, and loads nothing for value links")
	r.Rule("R6.4", "every ADL name passed to ExploreInterpretAs in this repository is a key registered in LinkSystem.KnownReifiers")

	lazy, preload, lazyName, preloadName, ok := c.lazyAndPreloadTables()
	if !ok {
		// the lazy table was found but no second one: does "unixfs-preload" dispatch through the lazy reifier's own table?
		if lazy != nil && preload == nil {
			reg, _ := c.reifierRegistry()
			if fp := reg["unixfs-preload"]; fp != nil {
				out := map[*ssa.Function]bool{}
				for _, e := range c.G.Out[fp] {
					out[e.Callee] = true
				}
				n := 0
				for _, e := range lazy {
					if e.Fn != nil && out[e.Fn] {
						n++
					}
				}
				if n == len(lazy) && n > 0 {
					r.Violate("R6.1", "registry/preload-table-distinct", c.P.Pos(fp.Pos()), fmt.Sprintf("the \"unixfs-preload\" reifier %s dispatches through %s, the table of the lazy \"unixfs\" reifier, and through no table of its own: nothing is preloaded and no load error can surface at reification", core.FuncName(fp), lazyName))
				}
			}
		}
		r.Break("cannot identify the lazy and preload reifier tables from the KnownReifiers registry")
		return
	}
	consts := c.dataTypeConsts()
	r.Floor("R6.1/data-types", len(consts), 6)
	// ---- R6.1
	for _, t := range []struct {
		name string
		ents []core.TableEntry
	}{{lazyName, lazy}, {preloadName, preload}} {
		have := map[int64]bool{}
		for _, e := range t.ents {
			if e.Key != nil {
				if v, ok := constant.Int64Val(e.Key); ok {
					have[v] = true
				}
			}
		}
		var missing, extra []string
		want := map[int64]string{}
		for n, v := range consts {
			want[v] = n
			if !have[v] {
				missing = append(missing, n)
			}
		}
		for v := range have {
			if _, ok := want[v]; !ok {
				extra = append(extra, fmt.Sprint(v))
			}
		}
		sort.Strings(missing)
		r.Check(len(missing) == 0 && len(extra) == 0, "R6.1", "table:"+t.name+"/keys", "-", fmt.Sprintf("%d keys = all Data_* constants", len(have)), fmt.Sprintf("missing %v, unknown keys %v", missing, extra))
	}
	fileKey, okF := consts["Data_File"]
	shardKey, okS := consts["Data_HAMTShard"]
	if !okF || !okS {
		r.Break("Data_File / Data_HAMTShard constants not found")
		return
	}
	fileCtor := c.followForwarders(entryFor(preload, fileKey))
	shardCtor := c.followForwarders(entryFor(preload, shardKey))
	lazyFile := c.followForwarders(entryFor(lazy, fileKey))
	lazyShard := c.followForwarders(entryFor(lazy, shardKey))
	r.Check(fileCtor != nil && fileCtor != lazyFile, "R6.1", "table:"+preloadName+"/File", "-", "preload File entry resolves to "+core.FuncName(fileCtor)+", distinct from the lazy constructor", "preload File entry is missing or identical to the lazy one")
	r.Check(shardCtor != nil && shardCtor != lazyShard, "R6.1", "table:"+preloadName+"/HAMTShard", "-", "preload HAMTShard entry resolves to "+core.FuncName(shardCtor)+", distinct from the lazy constructor", "preload HAMTShard entry is missing or identical to the lazy one")

	// ---- R6.2
	if fileCtor != nil {
		c.checkMustDrain(fileCtor)
	}
	// ---- R6.3
	if shardCtor != nil {
		c.checkMustWalk(shardCtor)
	}
	// ---- R6.4
	reg, _ := c.reifierRegistry()
	n64 := 0
	for _, fn := range c.G.Funcs() {
		if _, ok := c.P.PkgOf(fn); !ok {
			continue
		}
		for _, ci := range core.CallsIn(fn) {
			cc := ci.Common()
			name := ""
			if cc.IsInvoke() {
				name = cc.Method.Name()
			} else if f := cc.StaticCallee(); f != nil {
				name = f.Name()
			}
			if name != "ExploreInterpretAs" {
				continue
			}
			args := cc.Args
			if !cc.IsInvoke() && len(args) > 0 {
				args = args[1:]
			}
			if len(args) == 0 {
				continue
			}
			k, ok := args[0].(*ssa.Const)
			if !ok || k.Value == nil || k.Value.Kind() != constant.String {
				continue
			}
			n64++
			adl := constant.StringVal(k.Value)
			_, known := reg[adl]
			r.Check(known, "R6.4", fmt.Sprintf("%s/InterpretAs:%s#%d", core.FuncName(fn), adl, n64), c.P.Pos(ci.Pos()), "ADL name is registered", "ADL name \""+adl+"\" is not registered by AddUnixFSReificationToLinkSystem")
		}
	}
	r.Floor("R6.4", n64, 4)
	c.checkNoReaderGlobals()
	c.checkPreloadDispatchError()
	c.checkPreloadErrorFlow()
	c.R.Rule("R6.6", "a reader handed out by the size query is positioned at the start (same check as R4.7): the preload drains the stream the builder splices together, and a child reader left at its end contributes nothing — its blocks would never be fetched")
	c.checkSizeQueryRewinds("R6.6")
	c.checkNoFabricatedSize("R6.9")
}

func (c *Ctx) checkMustDrain(fn *ssa.Function) {
	r := c.R
	key := core.FuncName(fn) + "/must-drain"
	pos := c.P.Pos(fn.Pos())
	errIdx := core.ErrResultIndex(fn.Signature)
	if errIdx < 0 {
		r.Violate("R6.2", key, pos, "file preload constructor has no error result: a failed load cannot be reported")
		return
	}
	var bad []string
	npaths, nsucc := 0, 0
	complete, drains := c.drainPaths(fn, 0, func(ret *ssa.Return, rr []ssa.Value, drained []ssa.Value, failing bool) {
		if failing {
			return
		}
		nsucc++
		node := stripAssert(rr[0])
		okd := false
		for _, d := range drained {
			if d == node {
				okd = true
			}
		}
		if !okd {
			bad = append(bad, fmt.Sprintf("return at %s can report success without draining the reader of the returned node", c.P.Pos(ret.Pos())))
		}
	}, &npaths)
	if !complete {
		r.Undecided("R6.2", key, pos, "path enumeration exceeded its bound")
		return
	}
	if nsucc == 0 {
		bad = append(bad, "constructor has no nil-error return")
	}
	r.Check(len(bad) == 0, "R6.2", key, pos, fmt.Sprintf("%d paths, %d successful: each drains AsLargeBytes() of the node it returns", npaths, nsucc), uniqJoin(bad))
	seen := map[*ssa.Call]bool{}
	for _, d := range drains {
		if seen[d] {
			continue
		}
		seen[d] = true
		probs, _, _ := core.CheckErrPropagated(fn, d)
		var ss []string
		for _, p := range probs {
			ss = append(ss, fmt.Sprintf("%s [return at %s]", p.What, c.P.Pos(p.Pos)))
		}
		r.Check(len(probs) == 0, "R6.2", key+"/drain-error", c.P.Pos(d.Pos()), "the drain's error reaches the caller", "a failed drain is not reported: "+uniqJoin(ss))
	}
}

// drainPaths enumerates the paths of fn; for each return it reports the nodes whose AsLargeBytes() reader has been drained
// to the end (io.Copy / io.ReadAll, directly or inside a repository helper that drains one of its parameters on every
// successful path) and whether the return certainly carries a non-nil error on that path.
func (c *Ctx) drainPaths(fn *ssa.Function, depth int, visit func(ret *ssa.Return, rr []ssa.Value, drained []ssa.Value, failing bool), npaths *int) (bool, []*ssa.Call) {
	errIdx := core.ErrResultIndex(fn.Signature)
	var drains []*ssa.Call
	complete := core.EnumPaths(fn, 2, 100000, func(path []*ssa.BasicBlock) {
		*npaths++
		var drained []ssa.Value
		for i, b := range path {
			for _, ins := range b.Instrs {
				switch x := ins.(type) {
				case *ssa.Call:
					var src ssa.Value
					if core.IsCallTo(x, "io", "Copy") && len(x.Call.Args) == 2 {
						src = x.Call.Args[1]
					} else if core.IsCallTo(x, "io", "ReadAll") && len(x.Call.Args) == 1 {
						src = x.Call.Args[0]
					}
					if src != nil {
						if node := readerOrigin(src); node != nil {
							drained = append(drained, stripAssert(node))
							drains = append(drains, x)
						}
						continue
					}
					if h := x.Call.StaticCallee(); h != nil && depth < 2 && h != fn {
						if _, isRepo := c.P.PkgOf(h); isRepo && len(h.Blocks) > 0 {
							for _, pi := range c.drainSummary(h, depth+1) {
								if pi < len(x.Call.Args) {
									drained = append(drained, stripAssert(x.Call.Args[pi]))
									drains = append(drains, x)
								}
							}
						}
					}
				case *ssa.Return:
					rr := core.ResolvedResults(x)
					failing := errIdx >= 0 && core.ErrKnownNonNil(rr[errIdx], core.PathNonNil(path, i))
					visit(x, rr, drained, failing)
				}
			}
		}
	})
	return complete, drains
}

// drainSummary: indices of the parameters of helper h whose AsLargeBytes() reader is drained on every path on which h may
// return a nil error (and whose drain error h propagates).
func (c *Ctx) drainSummary(h *ssa.Function, depth int) []int {
	if c.drainMemo == nil {
		c.drainMemo = map[*ssa.Function][]int{}
	}
	if v, ok := c.drainMemo[h]; ok {
		return v
	}
	c.drainMemo[h] = nil
	if core.ErrResultIndex(h.Signature) < 0 {
		return nil
	}
	cand := map[int]bool{}
	for i := range h.Params {
		cand[i] = true
	}
	n, nsucc := 0, 0
	complete, drains := c.drainPaths(h, depth, func(ret *ssa.Return, rr []ssa.Value, drained []ssa.Value, failing bool) {
		if failing {
			return
		}
		nsucc++
		for i, p := range h.Params {
			found := false
			for _, d := range drained {
				if d == ssa.Value(p) {
					found = true
				}
			}
			if !found {
				delete(cand, i)
			}
		}
	}, &n)
	if !complete || nsucc == 0 {
		return nil
	}
	for _, d := range drains {
		if probs, _, _ := core.CheckErrPropagated(h, d); len(probs) > 0 {
			return nil
		}
	}
	var out []int
	for i := range h.Params {
		if cand[i] {
			out = append(out, i)
		}
	}
	c.drainMemo[h] = out
	return out
}

// readerOrigin: src is (an extract of) X.AsLargeBytes(); returns X.
func readerOrigin(src ssa.Value) ssa.Value {
	for i := 0; i < 6; i++ {
		switch x := src.(type) {
		case *ssa.Extract:
			src = x.Tuple
		case *ssa.ChangeInterface:
			src = x.X
		case *ssa.MakeInterface:
			src = x.X
		case *ssa.Call:
			cc := x.Common()
			if cc.IsInvoke() && cc.Method.Name() == "AsLargeBytes" {
				return cc.Value
			}
			if f := cc.StaticCallee(); f != nil && f.Name() == "AsLargeBytes" && len(cc.Args) > 0 {
				return cc.Args[0]
			}
			return nil
		default:
			return nil
		}
	}
	return nil
}

func (c *Ctx) checkMustWalk(fn *ssa.Function) {
	r := c.R
	key := core.FuncName(fn) + "/must-walk"
	pos := c.P.Pos(fn.Pos())
	errIdx := core.ErrResultIndex(fn.Signature)
	if errIdx < 0 {
		r.Violate("R6.3", key, pos, "shard preload constructor has no error result")
		return
	}
	fetch := c.G.Loaders(map[string]bool{"hamt": true})
	reach := c.G.ReachersOf(fetch)
	// candidate walk calls: static calls to methods of the shard type that reach a loader
	var W *ssa.Function
	var bad []string
	nsucc := 0
	var walkCalls []*ssa.Call
	complete := core.EnumPaths(fn, 2, 100000, func(path []*ssa.BasicBlock) {
		var walked []ssa.Value
		for pi, b := range path {
			for _, ins := range b.Instrs {
				switch x := ins.(type) {
				case *ssa.Call:
					f := x.Call.StaticCallee()
					if f == nil || f.Signature.Recv() == nil || !reach[f] || len(x.Call.Args) == 0 {
						continue
					}
					if rel, ok := c.P.PkgOf(f); !ok || rel != "hamt" {
						continue
					}
					W = f
					walked = append(walked, stripAssert(x.Call.Args[0]))
					walkCalls = append(walkCalls, x)
				case *ssa.Return:
					rr := core.ResolvedResults(x)
					// a return counts as (possibly) successful unless its error is known non-nil on this path
					if core.ErrKnownNonNil(rr[errIdx], core.PathNonNil(path, pi)) {
						continue
					}
					nsucc++
					node := stripAssert(rr[0])
					okw := false
					for _, w := range walked {
						if w == node {
							okw = true
						}
					}
					if !okw {
						bad = append(bad, fmt.Sprintf("nil-error return at %s is reachable without walking the returned node", c.P.Pos(x.Pos())))
					}
				}
			}
		}
	})
	if !complete {
		r.Undecided("R6.3", key, pos, "path enumeration exceeded its bound")
		return
	}
	if nsucc == 0 {
		bad = append(bad, "constructor has no nil-error return")
	}
	r.Check(len(bad) == 0, "R6.3", key, pos, fmt.Sprintf("every one of %d successful path(s) walks the node it returns", nsucc), uniqJoin(bad))
	seen := map[*ssa.Call]bool{}
	for _, w := range walkCalls {
		if seen[w] {
			continue
		}
		seen[w] = true
		probs, _, _ := core.CheckErrPropagated(fn, w)
		var ss []string
		for _, p := range probs {
			ss = append(ss, fmt.Sprintf("%s [return at %s]", p.What, c.P.Pos(p.Pos)))
		}
		r.Check(len(probs) == 0, "R6.3", key+"/walk-error", c.P.Pos(w.Pos()), "the walk's error reaches the caller", "a failed walk is not reported: "+uniqJoin(ss))
	}
	if W == nil {
		r.Violate("R6.3", key+"/walk-function", pos, "no call of a loader-reaching method of the shard on the constructed node")
		return
	}
	c.checkWalkComplete(W, fetch)
}

// checkWalkComplete verifies the shape of the walk function W (see rule text).
func (c *Ctx) checkWalkComplete(W *ssa.Function, fetch map[*ssa.Function]bool) {
	r := c.R
	key := core.FuncName(W) + "/walk-complete"
	pos := c.P.Pos(W.Pos())
	errIdx := core.ErrResultIndex(W.Signature)
	if errIdx < 0 || len(W.Params) == 0 {
		r.Violate("R6.3", key, pos, "walk function has no error result")
		return
	}
	recv := W.Params[0]
	// the links loop: header whose condition is Done() of an iterator derived from recv.FieldLinks()
	var header *ssa.BasicBlock
	var itr ssa.Value
	for _, b := range W.Blocks {
		iff := core.BlockIf(b)
		if iff == nil {
			continue
		}
		isHeader := false
		for _, p := range b.Preds {
			if b.Dominates(p) {
				isHeader = true
			}
		}
		if !isHeader {
			continue
		}
		cond := iff.Cond
		if u, ok := cond.(*ssa.UnOp); ok {
			cond = u.X
		}
		call, ok := cond.(*ssa.Call)
		if !ok {
			continue
		}
		name, rv := methodCall(call)
		if name != "Done" || rv == nil {
			continue
		}
		p := c.accessPath(rv, 0)
		if ic, ok := rv.(*ssa.Call); ok {
			// itr := X.FieldLinks().Iterator()
			if f := ic.Call.StaticCallee(); f != nil && f.Name() == "Iterator" && len(ic.Call.Args) == 1 {
				p = c.accessPath(ic.Call.Args[0], 0)
			}
		}
		if strings.Contains(p, "Links") && strings.HasPrefix(p, "param:"+recv.Name()) {
			header, itr = b, rv
		}
	}
	// alternative loop form: an index loop `for i := 0; i < links.Length(); i++ { l := links.Lookup(i) … }`
	var idxPhi *ssa.Phi
	var idxList ssa.Value
	if header == nil {
		for _, b := range W.Blocks {
			iff := core.BlockIf(b)
			if iff == nil {
				continue
			}
			bo, ok := iff.Cond.(*ssa.BinOp)
			if !ok || bo.Op != token.LSS {
				continue
			}
			phi, ok := core.Unconv(bo.X).(*ssa.Phi)
			if !ok || phi.Block() != b || !isCounterFromNonNeg(phi) {
				continue
			}
			lc, ok := core.Unconv(bo.Y).(*ssa.Call)
			if !ok {
				continue
			}
			name, lrecv := methodCall(lc)
			if name != "Length" || lrecv == nil {
				continue
			}
			if p := c.accessPath(lrecv, 0); strings.Contains(p, "Links") && strings.HasPrefix(p, "param:"+recv.Name()) {
				// the counter starts at 0 and steps by 1
				okStep := true
				for _, e := range phi.Edges {
					if k, isK := core.ConstInt(e); isK {
						okStep = okStep && k == 0
					} else if add, isAdd := e.(*ssa.BinOp); isAdd {
						k, isK := core.ConstInt(add.Y)
						okStep = okStep && isK && k == 1
					}
				}
				if okStep {
					header, idxPhi, idxList = b, phi, lrecv
				}
			}
		}
	}
	if header == nil {
		// W may be the memoising front of the function that holds the loop (length() -> countEntries())
		if D, why := c.walkCoreOf(W); D != nil {
			if len(why) > 0 {
				r.Violate("R6.3", key, pos, "the walk is delegated to "+core.FuncName(D)+", but "+uniqJoin(why))
				return
			}
			c.checkWalkComplete(D, fetch)
			return
		}
		r.Violate("R6.3", key, pos, "no loop over the receiver's links driven by the links iterator's Done() (or by an index running over their Length())")
		return
	}
	isFront := map[*ssa.Function]bool{}
	for _, e := range c.G.In[W] {
		if e.Caller == W || isFront[e.Caller] {
			continue
		}
		if D, why := c.walkCoreOf(e.Caller); D == W && len(why) == 0 {
			isFront[e.Caller] = true
		}
	}
	iff := core.BlockIf(header)
	exitIdx := 0 // successor taken when Done() is true
	if _, neg := iff.Cond.(*ssa.UnOp); neg {
		exitIdx = 1
	}
	if idxPhi != nil {
		exitIdx = 1 // i < Length() false: the list is exhausted
	}
	exit := header.Succs[exitIdx]
	bodyEntry := header.Succs[1-exitIdx]
	inLoop := map[*ssa.BasicBlock]bool{}
	for _, b := range W.Blocks {
		if header.Dominates(b) && (b == header || blockReaches(b, header)) {
			inLoop[b] = true
		}
	}
	var bad []string
	// (b) every other edge leaving the loop leads only to non-nil-error returns
	for b := range inLoop {
		for _, s := range b.Succs {
			if inLoop[s] || (b == header && s == exit) {
				continue
			}
			for _, ret := range core.Returns(W) {
				if s.Dominates(ret.Block()) || s == ret.Block() {
					if core.IsNilConst(core.ResolvedResults(ret)[errIdx]) {
						bad = append(bad, fmt.Sprintf("the loop can be left at %s towards a nil-error return at %s before the links are exhausted", c.P.Pos(firstPos(s)), c.P.Pos(ret.Pos())))
					}
				}
			}
		}
	}
	// (e) nil-error returns not passing the normal exit must return a memo written only after the loop
	for _, ret := range core.Returns(W) {
		rr := core.ResolvedResults(ret)
		if !core.IsNilConst(rr[errIdx]) {
			continue
		}
		if core.EdgeDominates(header, exit, ret.Block()) || exit == ret.Block() && len(exit.Preds) == 1 {
			continue
		}
		// early success: value must come from a receiver field stored only after the loop
		fv := c.memoFieldOf(W, rr[0])
		if fv == nil {
			fv = c.memoFieldViaGetter(W, rr[0])
		}
		if fv == nil {
			bad = append(bad, fmt.Sprintf("nil-error return at %s bypasses the walk and does not return a memo", c.P.Pos(ret.Pos())))
			continue
		}
		for _, fn := range c.G.Funcs() {
			for _, b := range fn.Blocks {
				for _, ins := range b.Instrs {
					st, ok := ins.(*ssa.Store)
					if !ok {
						continue
					}
					_, sf, ok := core.FieldAddrOf(st.Addr)
					if !ok || sf != fv {
						continue
					}
					if _, fresh := rootObject(st.Addr); fresh {
						continue // constructor initialisation (sentinel)
					}
					if fn == W && (core.EdgeDominates(header, exit, st.Block()) || st.Block() == exit) {
						continue
					}
					// a setter method of the same type: every call of it inside W must come after the loop, and nobody else may call it
					if fn != W && core.RecvNamed(fn) == core.RecvNamed(W) && fn.Parent() == nil {
						okSetter := len(c.G.In[fn]) > 0
						for _, e := range c.G.In[fn] {
							if e.Caller != W || e.Site == nil || !(core.EdgeDominates(header, exit, e.Site.Block()) || e.Site.Block() == exit) {
								okSetter = false
							}
						}
						if okSetter {
							continue
						}
					}
					bad = append(bad, fmt.Sprintf("memo field %s is written at %s before the walk is complete", fv.Name(), c.P.Pos(st.Pos())))
				}
			}
		}
	}
	// (a) the element: Next() on the same iterator in the body
	var link ssa.Value
	for b := range inLoop {
		for _, ins := range b.Instrs {
			if call, ok := ins.(*ssa.Call); ok {
				if name, rv := methodCall(call); name == "Next" && rv == itr {
					link = extractOf(call, 1)
					if link == nil {
						link = call
					}
				}
			}
		}
	}
	if link == nil && idxPhi != nil {
		for b := range inLoop {
			for _, ins := range b.Instrs {
				if call, ok := ins.(*ssa.Call); ok {
					if name, rv := methodCall(call); name == "Lookup" && rv != nil && c.sameValue(rv, idxList) && len(call.Call.Args) >= 2 && core.Unconv(call.Call.Args[len(call.Call.Args)-1]) == ssa.Value(idxPhi) {
						link = call
					}
				}
			}
		}
	}
	if link == nil {
		bad = append(bad, "the loop does not take the next link from the links iterator")
	}
	// (c)/(d) value test and the non-value branch. The per-link step may live in the loop body or in a helper method that
	// the loop hands the link to; in the latter case the helper is analysed as the loop body.
	pred, _ := newDischarger(c).findLinkPredicate()
	findValueIf := func(region map[*ssa.BasicBlock]bool, lnk ssa.Value) *ssa.If {
		var found *ssa.If
		for b := range region {
			iff2 := core.BlockIf(b)
			if iff2 == nil {
				continue
			}
			ex, ok := iff2.Cond.(*ssa.Extract)
			if !ok || ex.Index != 0 {
				continue
			}
			call, ok := ex.Tuple.(*ssa.Call)
			if !ok || pred == nil || call.Call.StaticCallee() != pred {
				continue
			}
			if lnk != nil && unbox(call.Call.Args[0]) != unbox(lnk) {
				continue
			}
			if found == nil || iff2.Pos() < found.Pos() {
				found = iff2
			}
		}
		return found
	}
	stepFn, stepLink, region := W, link, inLoop
	var stepCall *ssa.Call
	valueIf := findValueIf(inLoop, link)
	if valueIf == nil && link != nil {
		reach := c.G.ReachersOf(fetch)
		var cands []*ssa.Call
		for b := range inLoop {
			for _, ins := range b.Instrs {
				call, ok := ins.(*ssa.Call)
				if !ok {
					continue
				}
				h := call.Call.StaticCallee()
				if h == nil || h == pred || h == W || !reach[h] || len(h.Blocks) == 0 || fetch[h] {
					continue
				}
				if rel, isRepo := c.P.PkgOf(h); !isRepo || rel != "hamt" {
					continue
				}
				cands = append(cands, call)
			}
		}
		sort.Slice(cands, func(i, j int) bool { return cands[i].Pos() < cands[j].Pos() })
		for _, call := range cands {
			h := call.Call.StaticCallee()
			for i, a := range call.Call.Args {
				if a != link || i >= len(h.Params) {
					continue
				}
				hregion := map[*ssa.BasicBlock]bool{}
				for _, hb := range h.Blocks {
					hregion[hb] = true
				}
				if vi := findValueIf(hregion, h.Params[i]); vi != nil && stepCall == nil {
					stepFn, stepLink, region, stepCall, valueIf = h, h.Params[i], hregion, call, vi
				}
			}
		}
	}
	stepErrIdx := core.ErrResultIndex(stepFn.Signature)
	// isEnd: the point where one link's step is over — the loop header (inline step) or a return of the helper that can
	// report success
	isEnd := func(b *ssa.BasicBlock) bool {
		if stepFn == W {
			return b == header
		}
		if len(b.Instrs) == 0 {
			return false
		}
		ret, ok := b.Instrs[len(b.Instrs)-1].(*ssa.Return)
		if !ok || stepErrIdx < 0 {
			return false
		}
		ev := core.ResolvedResults(ret)[stepErrIdx]
		if core.ErrKnownNonNil(ev, nil) {
			return false
		}
		if core.GuardedBy(b, func(cond ssa.Value) (bool, bool) {
			x, trueMeansNil, ok := core.NilCmp(cond)
			if !ok || x != ev {
				return false, false
			}
			return !trueMeansNil, true
		}) {
			return false
		}
		return true
	}
	if valueIf == nil {
		bad = append(bad, "the loop does not classify each link with the value-link predicate")
	} else {
		notValue := valueIf.Block().Succs[1]
		var loadCall, recCall *ssa.Call
		for b := range region {
			for _, ins := range b.Instrs {
				call, ok := ins.(*ssa.Call)
				if !ok {
					continue
				}
				f := call.Call.StaticCallee()
				if f == nil {
					continue
				}
				if fetch[f] && len(call.Call.Args) >= 2 && call.Call.Args[1] == stepLink {
					if loadCall == nil || call.Pos() < loadCall.Pos() {
						loadCall = call
					}
				}
			}
		}
		for b := range region {
			for _, ins := range b.Instrs {
				call, ok := ins.(*ssa.Call)
				if !ok || loadCall == nil {
					continue
				}
				if (call.Call.StaticCallee() == W || isFront[call.Call.StaticCallee()]) && len(call.Call.Args) > 0 && call.Call.Args[0] == ssa.Value(extractOf(loadCall, 0)) {
					if recCall == nil || call.Pos() < recCall.Pos() {
						recCall = call
					}
				}
			}
		}
		if loadCall == nil {
			bad = append(bad, "non-value links are not loaded with the link yielded in the same iteration")
		} else {
			if !core.EdgeDominates(valueIf.Block(), notValue, loadCall.Block()) {
				bad = append(bad, fmt.Sprintf("the load at %s is not confined to non-value links (entry blocks could be fetched)", c.P.Pos(loadCall.Pos())))
			}
			passes := func(from *ssa.BasicBlock, call *ssa.Call, reg map[*ssa.BasicBlock]bool, end func(*ssa.BasicBlock) bool) bool {
				// search a path from -> end avoiding call's block
				seen := map[*ssa.BasicBlock]bool{}
				stack := []*ssa.BasicBlock{from}
				for len(stack) > 0 {
					x := stack[len(stack)-1]
					stack = stack[:len(stack)-1]
					if x == call.Block() || seen[x] || !reg[x] {
						continue
					}
					if end(x) {
						return false
					}
					seen[x] = true
					stack = append(stack, x.Succs...)
				}
				return true
			}
			if !passes(notValue, loadCall, region, isEnd) {
				bad = append(bad, "some non-value link is skipped without being loaded")
			}
			if recCall == nil {
				bad = append(bad, "the loaded child is not walked recursively")
			} else if !passes(notValue, recCall, region, isEnd) {
				bad = append(bad, "some loaded child is not walked before the next link")
			}
			for _, call := range []*ssa.Call{loadCall, recCall} {
				if call == nil {
					continue
				}
				probs, _, _ := core.CheckErrPropagated(stepFn, call)
				for _, p := range probs {
					bad = append(bad, fmt.Sprintf("error of %s not propagated: %s [return at %s]", calleeShort(call), p.What, c.P.Pos(p.Pos)))
				}
			}
			if stepCall != nil {
				// the loop hands every link to the step helper and reports its error
				if !passes(bodyEntry, stepCall, inLoop, func(b *ssa.BasicBlock) bool { return b == header }) {
					bad = append(bad, fmt.Sprintf("some link is not handed to %s before the next one is taken", calleeShort(stepCall)))
				}
				probs, _, _ := core.CheckErrPropagated(W, stepCall)
				for _, p := range probs {
					bad = append(bad, fmt.Sprintf("error of %s not propagated: %s [return at %s]", calleeShort(stepCall), p.What, c.P.Pos(p.Pos)))
				}
			}
		}
	}
	r.Check(len(bad) == 0, "R6.3", key, pos, "walks the shard's links to exhaustion, loads and recurses into every non-value link in the same iteration, propagates errors, loads nothing for value links, memoises only after the loop", uniqJoin(bad))
}

// memoFieldOf: v is (a copy of) a load of a receiver field.
func (c *Ctx) memoFieldOf(fn *ssa.Function, v ssa.Value) *types.Var {
	for i := 0; i < 4; i++ {
		switch x := v.(type) {
		case *ssa.UnOp:
			if fv := c.fieldOfAddr(fn, x.X); fv != nil {
				return fv
			}
			return nil
		case *ssa.Convert:
			v = x.X
		case *ssa.Phi:
			if len(x.Edges) == 1 {
				v = x.Edges[0]
			} else {
				return nil
			}
		default:
			return nil
		}
	}
	return nil
}

// memoFieldViaGetter: v is the result of a method on W's receiver all of whose returns are loads of one receiver field.
func (c *Ctx) memoFieldViaGetter(W *ssa.Function, v ssa.Value) *types.Var {
	for i := 0; i < 3; i++ {
		switch x := v.(type) {
		case *ssa.Convert:
			v = x.X
			continue
		case *ssa.Phi:
			if len(x.Edges) == 1 {
				v = x.Edges[0]
				continue
			}
		}
		break
	}
	ridx := 0
	if ex, isEx := v.(*ssa.Extract); isEx {
		// comma-ok getter: (value, known bool)
		v, ridx = ex.Tuple, ex.Index
	}
	call, ok := v.(*ssa.Call)
	if !ok {
		return nil
	}
	g := call.Call.StaticCallee()
	if g == nil || len(g.Params) == 0 || len(call.Call.Args) == 0 || call.Call.Args[0] != ssa.Value(W.Params[0]) || core.RecvNamed(g) != core.RecvNamed(W) {
		return nil
	}
	var field *types.Var
	for _, ret := range core.Returns(g) {
		fv := c.memoFieldOf(g, core.ResolvedResults(ret)[ridx])
		if fv == nil || (field != nil && fv != field) {
			return nil
		}
		field = fv
	}
	return field
}

// checkNoReaderGlobals implements R6.5: nothing outside the nodes remembers blocks.
func (c *Ctx) checkNoReaderGlobals() {
	r := c.R
	r.Rule("R6.5", "no process-wide memory of loaded blocks: no package-level variable of the reader packages is written outside package initialisation, directly or through a repository function that writes through a parameter it is handed to — every preload and every read requests its blocks from the link system it was given (a package-level cache would satisfy a later preload without a fetch, or serve a block from another store)")
	n := 0
	for _, m := range c.G.GlobalMutations(core.ReaderPkgs) {
		n++
		r.Violate("R6.5", fmt.Sprintf("%s/global-state:%s", core.FuncName(m.Fn), m.Global.Name()), c.P.Pos(m.Ins.Pos()), m.What+" to package variable "+m.Global.Name()+" outside init: blocks remembered there are not fetched again")
	}
	if n == 0 {
		r.OK("R6.5", "reader-packages/no-global-state", "-", "no package-level variable of the reader packages is written outside init")
	}
}

// checkPreloadDispatchError implements R6.7: between the "unixfs-preload" registry entry and the table members that do the
// loading, every call hands the member's error on unchanged.
func (c *Ctx) checkPreloadDispatchError() {
	r := c.R
	r.Rule("R6.7", "the preload reifier reports what its table member reports: in every root-package function on the way from the \"unixfs-preload\" registry entry to the preload table, the call that can reach a block load has its error propagated (a fallback to another view on error would return a node although a block is missing)")
	reg, _ := c.reifierRegistry()
	fp := reg["unixfs-preload"]
	if fp == nil {
		return
	}
	fetch := c.G.Fetchers(core.ReaderPkgs)
	reach := c.G.ReachersOf(fetch)
	seen := map[*ssa.Function]bool{}
	var visit func(fn *ssa.Function, d int)
	n := 0
	visit = func(fn *ssa.Function, d int) {
		if seen[fn] || d > 4 {
			return
		}
		seen[fn] = true
		if rel, ok := c.P.PkgOf(fn); !ok || rel != "" {
			return
		}
		ord := 0
		for _, ci := range core.CallsIn(fn) {
			reaches := false
			var next []*ssa.Function
			for _, e := range c.G.Out[fn] {
				if e.Site == ci.(ssa.Instruction) && reach[e.Callee] {
					reaches = true
					next = append(next, e.Callee)
				}
			}
			if sc := ci.Common().StaticCallee(); sc != nil && reach[sc] {
				reaches = true
				next = append(next, sc)
			}
			// the unspecialised dispatcher's dynamic call
			if !reaches && ci.Common().StaticCallee() == nil && !ci.Common().IsInvoke() {
				fns, _ := c.G.ResolveFuncValue(ci.Common().Value, nil)
				for _, f := range fns {
					if reach[f] {
						reaches = true
					}
				}
			}
			if !reaches || core.ErrResultIndex(ci.Common().Signature()) < 0 {
				continue
			}
			n++
			ord++
			key := fmt.Sprintf("%s/dispatch-error#%d", core.FuncName(fn), ord)
			probs, noErr, complete := core.CheckErrPropagated(fn, ci)
			var ss []string
			for _, p := range probs {
				ss = append(ss, fmt.Sprintf("%s [return at %s]", p.What, c.P.Pos(p.Pos)))
			}
			if !complete {
				r.Undecided("R6.7", key, c.P.Pos(ci.Pos()), "path enumeration exceeded its bound")
			} else {
				r.Check(len(probs) == 0 && !noErr, "R6.7", key, c.P.Pos(ci.Pos()), "the error of the loading call reaches the caller of the reifier", "the preload reifier can return a node although the loading call failed: "+uniqJoin(ss))
			}
			for _, f := range next {
				visit(f, d+1)
			}
		}
	}
	visit(fp, 0)
	r.Floor("R6.7", n, 2)
}

// checkPreloadErrorFlow implements R6.8: C12's propagation rule on every reader-package function the preload reifier can
// reach — a load error swallowed anywhere below the preload makes it succeed although a block is missing.
func (c *Ctx) checkPreloadErrorFlow() {
	r := c.R
	r.Rule("R6.8", "error propagation below the preload: in every reader-package function reachable from the \"unixfs-preload\" registry entry, each call that can reach a block load and returns an error has that error propagated on every path (the R12.1 rule restricted to what the preload runs)")
	reg, _ := c.reifierRegistry()
	fp := reg["unixfs-preload"]
	if fp == nil {
		return
	}
	L, _ := c.loadCarrying(core.ReaderPkgs, core.FetchSites)
	reachable, _ := c.G.Reach(fp)
	n := 0
	for _, fn := range core.SortedFuncs(reachable) {
		rel, ok := c.P.PkgOf(fn)
		if !ok || !core.ReaderPkgs[rel] || fn.Synthetic != "" || !c.P.HandWritten(fn) {
			continue
		}
		if core.ErrResultIndex(fn.Signature) < 0 {
			continue // no error channel: judged by C12's interface-imposed exemptions
		}
		for _, call := range core.CallsIn(fn) {
			is, why := c.carrier(fn, call, L, fetchSiteKind)
			if !is {
				continue
			}
			n++
			key := callKey(c.P, fn, call)
			probs, noErr, complete := core.CheckErrPropagated(fn, call)
			if !complete {
				r.Undecided("R6.8", key, c.P.Pos(call.Pos()), "path enumeration exceeded its bound")
				continue
			}
			if noErr {
				continue
			}
			var ss []string
			for _, p := range probs {
				ss = append(ss, fmt.Sprintf("%s [return at %s]", p.What, c.P.Pos(p.Pos)))
			}
			r.Check(len(probs) == 0, "R6.8", key, c.P.Pos(call.Pos()), "load error propagated", "a load error below the preload is not reported ("+why+"): "+uniqJoin(ss))
		}
	}
	r.Floor("R6.8", n, 10)
}

// walkCoreOf recognises F as a memoising front of a walk function D: F has the same receiver type and results as D, calls
// D once on its own receiver, reports D's error, and every return of F that may carry a nil error either comes after D
// succeeded and returns D's value, or returns a memo field that is written only after D succeeded (in F, or through a
// setter method called only from there). Returns D and the reasons why F is not a faithful front (empty when it is).
func (c *Ctx) walkCoreOf(F *ssa.Function) (*ssa.Function, []string) {
	if F == nil || len(F.Blocks) == 0 || len(F.Params) == 0 || F.Signature.Recv() == nil {
		return nil, nil
	}
	errIdx := core.ErrResultIndex(F.Signature)
	if errIdx < 0 {
		return nil, nil
	}
	var dcall *ssa.Call
	for _, ci := range core.CallsIn(F) {
		call, ok := ci.(*ssa.Call)
		if !ok {
			continue
		}
		D := call.Call.StaticCallee()
		if D == nil || D == F || len(D.Blocks) == 0 || core.RecvNamed(D) == nil || core.RecvNamed(D) != core.RecvNamed(F) {
			continue
		}
		if len(call.Call.Args) == 0 || call.Call.Args[0] != ssa.Value(F.Params[0]) || !types.Identical(D.Signature.Results(), F.Signature.Results()) {
			continue
		}
		if dcall != nil {
			return nil, nil
		}
		dcall = call
	}
	if dcall == nil {
		return nil, nil
	}
	D := dcall.Call.StaticCallee()
	var why []string
	derr := extractOf(dcall, errIdx)
	// the success edge of D's error test
	var okIf *ssa.BasicBlock
	var okSucc *ssa.BasicBlock
	for _, b := range F.Blocks {
		iff := core.BlockIf(b)
		if iff == nil {
			continue
		}
		if x, trueMeansNil, ok := core.NilCmp(iff.Cond); ok && derr != nil && x == ssa.Value(derr) {
			okIf = b
			if trueMeansNil {
				okSucc = b.Succs[0]
			} else {
				okSucc = b.Succs[1]
			}
		}
	}
	after := func(b *ssa.BasicBlock) bool {
		return okIf != nil && (b == okSucc && len(okSucc.Preds) == 1 || core.EdgeDominates(okIf, okSucc, b))
	}
	for _, p := range mustPropagate(F, dcall) {
		why = append(why, p)
	}
	for _, ret := range core.Returns(F) {
		rr := core.ResolvedResults(ret)
		if core.ErrKnownNonNil(rr[errIdx], nil) || rr[errIdx] == ssa.Value(derr) && !after(ret.Block()) && okIf != nil {
			continue
		}
		if rr[errIdx] == ssa.Value(derr) && okIf == nil {
			// `return D()`-style forwarding: value and error of the same call
			if rr[0] == ssa.Value(extractOf(dcall, 0)) {
				continue
			}
		}
		if !core.IsNilConst(rr[errIdx]) && core.GuardedBy(ret.Block(), func(cond ssa.Value) (bool, bool) {
			x, trueMeansNil, ok := core.NilCmp(cond)
			if !ok || x != rr[errIdx] {
				return false, false
			}
			return !trueMeansNil, true
		}) {
			continue
		}
		if after(ret.Block()) {
			if rr[0] != ssa.Value(extractOf(dcall, 0)) {
				why = append(why, fmt.Sprintf("the return at %s does not hand on the walk's result", c.P.Pos(ret.Pos())))
			}
			continue
		}
		fv := c.memoFieldOf(F, rr[0])
		if fv == nil {
			fv = c.memoFieldViaGetter(F, rr[0])
		}
		if fv == nil {
			why = append(why, fmt.Sprintf("the nil-error return at %s bypasses the walk and does not return a memo", c.P.Pos(ret.Pos())))
			continue
		}
		for _, fn := range c.G.Funcs() {
			for _, b := range fn.Blocks {
				for _, ins := range b.Instrs {
					st, ok := ins.(*ssa.Store)
					if !ok {
						continue
					}
					_, sf, ok := core.FieldAddrOf(st.Addr)
					if !ok || sf != fv {
						continue
					}
					if _, fresh := rootObject(st.Addr); fresh {
						continue
					}
					if fn == F && after(st.Block()) {
						continue
					}
					if fn != F && core.RecvNamed(fn) == core.RecvNamed(F) && fn.Parent() == nil {
						okSetter := len(c.G.In[fn]) > 0
						for _, e := range c.G.In[fn] {
							if e.Caller != F || e.Site == nil || !after(e.Site.Block()) {
								okSetter = false
							}
						}
						if okSetter {
							continue
						}
					}
					why = append(why, fmt.Sprintf("memo field %s is written at %s before the walk is complete", fv.Name(), c.P.Pos(st.Pos())))
				}
			}
		}
	}
	return D, why
}

func mustPropagate(fn *ssa.Function, call *ssa.Call) []string {
	probs, _, _ := core.CheckErrPropagated(fn, call)
	var out []string
	for _, p := range probs {
		out = append(out, "the walk's error is not reported: "+p.What)
	}
	return out
}
