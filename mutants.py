#!/usr/bin/env python3
"""Replays the mutant corpus (and the seeded changes) against the static checks.

Each entry is a unified diff that breaks one property while still compiling.
For every entry: copy /repo's working tree to a scratch directory outside /repo
and /verif, apply the diff, make sure it still builds (packages and test
binaries), run the property's check on the scratch copy without touching the
evidence, and require exit 1 with a report that names the expected construct.
The scratch copy is removed immediately.

  mutants.py [--prop C04] [--jobs 6] [--only name] [--seeded]

Exit 0: every applicable mutant was reported.  Exit 2: some mutant escaped
(CHECKER-WEAK) or no longer builds; never prints a VIOLATION line (a weak
checker is not a property violation of the tree under test).
"""
import argparse, concurrent.futures as cf, json, os, shutil, subprocess, sys, tempfile

VERIF = os.path.dirname(os.path.abspath(__file__))
ENV = dict(os.environ, GOFLAGS="-mod=mod", GOPROXY="off", GOSUMDB="off", GOTOOLCHAIN="local")
ENV.pop("GOWORK", None)


def load_entries(seeded):
    out = []
    idx = os.path.join(VERIF, "mutants", "index.json")
    if os.path.exists(idx):
        for e in json.load(open(idx)):
            e["path"] = os.path.join(VERIF, "mutants", e["file"])
            e["origin"] = "mutants"
            out.append(e)
    if seeded:
        sd = os.path.join(VERIF, "seeded")
        if os.path.isdir(sd):
            for d in sorted(os.listdir(sd)):
                mp = os.path.join(sd, d, "meta.json")
                if not os.path.exists(mp):
                    continue
                m = json.load(open(mp))
                out.append({"name": "seeded/" + d, "property": m["property"], "path": os.path.join(sd, d, "patch.diff"),
                            "expect": m.get("expect", []), "origin": "seeded", "caught": m.get("caught", True),
                            "also": m.get("also_checks", [])})
    return out


def run_one(e, repo):
    tmp = tempfile.mkdtemp(prefix="uxmut-")
    try:
        dst = os.path.join(tmp, "repo")
        shutil.copytree(repo, dst, ignore=shutil.ignore_patterns(".git"))
        p = subprocess.run(["patch", "-p1", "-s", "--no-backup-if-mismatch", "-i", e["path"]], cwd=dst, capture_output=True, text=True)
        if p.returncode != 0:
            return dict(e, status="skipped", detail="patch does not apply to the current tree: " + (p.stdout + p.stderr).strip()[:200])
        b = subprocess.run("go build -trimpath ./... && go test -trimpath -count=1 -exec /bin/true ./... >/dev/null", shell=True, cwd=dst, env=ENV, capture_output=True, text=True)
        if b.returncode != 0:
            return dict(e, status="nobuild", detail=(b.stdout + b.stderr).strip()[-400:])
        props = [e["property"]] + list(e.get("also", []))
        results = {}
        for prop in props:
            c = subprocess.run([os.environ.get("UXBIN", os.path.join(VERIF, "bin", "uxcheck")), "-prop", prop, "-tier", "quick", "-repo", dst, "-verif", VERIF, "-no-evidence"],
                               env=ENV, capture_output=True, text=True)
            results[prop] = (c.returncode, c.stdout + c.stderr)
        rc, out = results[e["property"]]
        missing = [x for x in e.get("expect", []) if x not in out]
        if rc == 1 and "VIOLATION property=" + e["property"] in out and not missing:
            viol = [l.strip() for l in out.splitlines() if l.startswith("  violated")]
            return dict(e, status="caught", detail="; ".join(viol)[:600])
        others = [p for p in props[1:] if results[p][0] == 1]
        if others:
            return dict(e, status="caught-by-other", detail="reported by " + ",".join(others))
        return dict(e, status="escaped", detail="exit=%d missing=%s output tail: %s" % (rc, missing, out[-600:]))
    finally:
        shutil.rmtree(tmp, ignore_errors=True)


def main():
    ap = argparse.ArgumentParser()
    ap.add_argument("--prop")
    ap.add_argument("--jobs", type=int, default=6)
    ap.add_argument("--only")
    ap.add_argument("--seeded", action="store_true")
    ap.add_argument("--repo", default=os.environ.get("VERIF_REPO", "/repo"))
    ap.add_argument("--json")
    a = ap.parse_args()
    ents = [e for e in load_entries(a.seeded) if (not a.prop or e["property"] == a.prop) and (not a.only or a.only in e["name"])]
    if not ents:
        print("no mutants selected")
        return 0
    res = []
    with cf.ThreadPoolExecutor(max_workers=a.jobs) as ex:
        for r in ex.map(lambda e: run_one(e, a.repo), ents):
            res.append(r)
            print("%-16s %-4s %-44s %s" % (r["status"], r["property"], r["name"], r["detail"][:160].replace("\n", " ")))
    bad = [r for r in res if r["status"] in ("escaped", "nobuild") and r.get("caught", True)]
    known_miss = [r for r in res if r["status"] == "escaped" and not r.get("caught", True)]
    summary = {k: sum(1 for r in res if r["status"] == k) for k in ("caught", "caught-by-other", "escaped", "nobuild", "skipped")}
    print("mutants:", summary, "documented-misses:", len(known_miss))
    if a.json:
        json.dump({"summary": summary, "results": [{k: r[k] for k in ("name", "property", "status", "detail")} for r in res]}, open(a.json, "w"), indent=1)
    if bad:
        for r in bad:
            print("CHECKER-WEAK: mutant %s (%s) %s" % (r["name"], r["property"], r["status"]))
        return 2
    return 0


if __name__ == "__main__":
    sys.exit(main())
