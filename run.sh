#!/bin/sh
# run.sh <property> <quick|thorough>   — static check of one property against /repo's current working tree.
# run.sh explain <replay.json>         — prints the recorded obligation (static checks are re-derived, not replayed).
set -u
cd "$(dirname "$0")"
export GOFLAGS=-mod=mod GOPROXY=off GOSUMDB=off GOTOOLCHAIN=local
unset GOWORK
REPO="${VERIF_REPO:-/repo}"
if [ "${1:-}" = "explain" ]; then
  cat "$2"; exit 0
fi
PROP="$1"; TIER="${2:-${VERIF_TIER:-quick}}"
if [ ! -x bin/uxcheck ] || [ -n "$(find checker -newer bin/uxcheck -type f 2>/dev/null | head -1)" ]; then
  ./setup.sh >/dev/null 2>&1 || { echo "UNDECIDED: checker does not build"; ./setup.sh; exit 2; }
fi
if [ "$TIER" = "thorough" ]; then
  exec ./thorough.sh "$PROP" "$REPO"
fi
exec bin/uxcheck -prop "$PROP" -tier "$TIER" -repo "$REPO" -verif "$(pwd)"
