#!/bin/sh
# Builds the static checker offline from files on disk only.
set -e
cd "$(dirname "$0")"
export GOFLAGS=-mod=mod GOPROXY=off GOSUMDB=off GOTOOLCHAIN=local
unset GOWORK
mkdir -p bin evidence
(cd checker && go build -o ../bin/uxcheck ./cmd/uxcheck)
echo "built bin/uxcheck"
