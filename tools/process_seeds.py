#!/usr/bin/env python3
"""Confirms and installs seeded changes of one round.
usage: process_seeds.py <round-prefix e.g. /tmp/seed2-> <suffix for ids e.g. r2> C04 C05 ...
For each property P and variant V in {A,B}: parses the first line of <prefix>P/_seed/V.demo_test.go
(// PLACE: <dir> RUN: go test <args>), runs tools/confirm_seed.py in the worktree, and installs
/verif/seeded/<P>-<V>-<suffix>/ {patch.diff, demo_test.go.txt, notes.md, meta.json}."""
import json, os, re, shutil, subprocess, sys, concurrent.futures as cf
prefix, suffix, props = sys.argv[1], sys.argv[2], sys.argv[3:]
V = "/verif"
def parse(first):
    m = re.search(r"PLACE:\s*(\S+)\s+RUN:\s*go test\s+(.*)$", first.strip())
    if not m:
        return None, None
    d = m.group(1).rstrip("/") or "."
    args = m.group(2).strip()
    # a RUN line written relative to the package directory ("… .") is rewritten relative to the repository root
    if d != "." and (args.endswith(" .") or args.endswith(" ./")):
        args = args[:args.rfind(" ")] + " ./" + d + "/"
    return d, args
def one(p):
    out = []
    wt = prefix + p
    for v in ("A", "B", "C", "D"):
        demo = os.path.join(wt, "_seed", v + ".demo_test.go")
        if not os.path.exists(demo) or not os.path.exists(os.path.join(wt, "_seed", v + ".patch.diff")):
            if v in ("A", "B"): out.append((p, v, "missing deliverables"))
            continue
        d, args = parse(open(demo).readline())
        if d is None:
            out.append((p, v, "cannot parse PLACE/RUN line: " + open(demo).readline()[:120])); continue
        r = subprocess.run(["python3", V + "/tools/confirm_seed.py", wt, v, d, args], capture_output=True, text=True)
        conf = json.load(open(os.path.join(wt, "_seed", v + ".confirm.json")))
        ok = conf["pristine_demo_pass"] and conf["applies"] and conf["builds"] and conf["suite_passes"] and conf["patched_demo_fails"]
        own = p in conf["checks_alarmed"] and conf["checks_alarmed"][p]["exit"] == 1
        sid = "%s-%s-%s" % (p, v, suffix)
        if ok:
            dst = os.path.join(V, "seeded", sid); os.makedirs(dst, exist_ok=True)
            shutil.copy(os.path.join(wt, "_seed", v + ".patch.diff"), dst + "/patch.diff")
            shutil.copy(demo, dst + "/demo_test.go.txt")
            shutil.copy(os.path.join(wt, "_seed", v + ".notes.md"), dst + "/notes.md")
            notes = open(dst + "/notes.md").read()
            title = next((l.strip("# *").strip() for l in notes.splitlines() if l.strip()), sid)[:160]
            meta = {"id": sid, "property": p, "title": title, "needs_to_manifest": "see notes.md",
                    "author": "independent sub-agent given only the property text and a scratch worktree (round %s)" % suffix,
                    "demo": {"file": "demo_test.go.txt", "place_in": d, "place_as": "zz_seed_demo_test.go", "command": "go test " + args,
                             "expected": "passes on the pristine tree, fails with patch.diff applied"},
                    "confirmed_by_me": {k: conf[k] for k in ("pristine_demo_pass", "applies", "builds", "suite_passes", "patched_demo_fails")},
                    "how_confirmed": "tools/confirm_seed.py in the scratch worktree %s (removed afterwards): git apply; go build ./...; go test -vet=off -count=1 -timeout 25m ./...; go test %s" % (wt, args),
                    "checks_that_alarmed_when_first_run": sorted(conf["checks_alarmed"].keys()), "own_check_caught_when_first_run": own,
                    "expect": [], "caught": True}
            json.dump(meta, open(dst + "/meta.json", "w"), indent=1)
        lines = {k: [l[:200] for l in x["lines"][:3]] for k, x in conf["checks_alarmed"].items()}
        out.append((p, v, "confirmed=%s own=%s alarms=%s" % (ok, own, json.dumps(lines)[:900]) + ("" if ok else " | " + json.dumps({k: conf[k] for k in ("pristine_demo_pass", "applies", "builds", "suite_passes", "patched_demo_fails")}) + conf.get("suite_tail", "")[-200:] + conf.get("pristine_demo_tail", "")[-200:])))
    return out
with cf.ThreadPoolExecutor(max_workers=8) as ex:
    for res in ex.map(one, props):
        for p, v, msg in res:
            print(p, v, msg)
