"""Helper to author mutants: mut(name, prop, expect, note, edits) where edits = [(file, old, new), ...].
Writes mutants/<name>.diff (unified diff against /repo's current tree) and updates mutants/index.json."""
import difflib, json, os
VERIF = os.path.dirname(os.path.dirname(os.path.abspath(__file__)))
REPO = "/repo"

def mut(name, prop, expect, note, edits, needs=""):
    out = []
    byfile = {}
    for f, old, new in edits:
        src = byfile.get(f)
        if src is None:
            src = open(os.path.join(REPO, f)).read()
            byfile.setdefault(f + "@orig", src)
        assert src.count(old) == 1, "%s: pattern occurs %d times in %s:\n%s" % (name, src.count(old), f, old)
        byfile[f] = src.replace(old, new)
    for f in sorted(k for k in byfile if not k.endswith("@orig")):
        a = byfile[f + "@orig"].splitlines(keepends=True)
        b = byfile[f].splitlines(keepends=True)
        out += list(difflib.unified_diff(a, b, "a/" + f, "b/" + f))
    path = os.path.join(VERIF, "mutants", name + ".diff")
    os.makedirs(os.path.dirname(path), exist_ok=True)
    open(path, "w").write("".join(out))
    idxp = os.path.join(VERIF, "mutants", "index.json")
    idx = json.load(open(idxp)) if os.path.exists(idxp) else []
    idx = [e for e in idx if e["name"] != name]
    idx.append({"name": name, "file": name + ".diff", "property": prop, "expect": expect, "note": note, "needs": needs})
    idx.sort(key=lambda e: e["name"])
    json.dump(idx, open(idxp, "w"), indent=1)
    print("wrote", path)
