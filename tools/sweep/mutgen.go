// mutgen lists single-point source mutations of the hand-written, non-test Go files of a repository as JSON lines:
// {"file":..., "start":byteOffset, "end":byteOffset, "repl":..., "kind":..., "line":N, "func":...}
// It is a developer tool for measuring which suite-surviving mutants the checks do not report (see tools/sweep.py).
package main

import (
	"encoding/json"
	"fmt"
	"go/ast"
	"go/parser"
	"go/token"
	"os"
	"path/filepath"
	"strconv"
	"strings"
)

type mut struct {
	File  string `json:"file"`
	Start int    `json:"start"`
	End   int    `json:"end"`
	Repl  string `json:"repl"`
	Kind  string `json:"kind"`
	Line  int    `json:"line"`
	Func  string `json:"func"`
}

func main() {
	root := os.Args[1]
	// a second operator set (mutgen <root> set2): whole conditions negated / forced, adjacent call arguments and return
	// values swapped, defers deleted
	set2 := len(os.Args) > 2 && os.Args[2] == "set2"
	enc := json.NewEncoder(os.Stdout)
	filepath.Walk(root, func(path string, info os.FileInfo, err error) error {
		if err != nil || info.IsDir() {
			if info != nil && info.IsDir() && (info.Name() == ".git" || info.Name() == "test") {
				return filepath.SkipDir
			}
			return nil
		}
		if !strings.HasSuffix(path, ".go") || strings.HasSuffix(path, "_test.go") || strings.Contains(filepath.Base(path), "ipldsch") || strings.Contains(path, "/testutil/") {
			return nil
		}
		fset := token.NewFileSet()
		f, err := parser.ParseFile(fset, path, nil, 0)
		if err != nil {
			return nil
		}
		rel, _ := filepath.Rel(root, path)
		off := func(p token.Pos) int { return fset.Position(p).Offset }
		for _, d := range f.Decls {
			fd, ok := d.(*ast.FuncDecl)
			if !ok || fd.Body == nil {
				continue
			}
			fname := fd.Name.Name
			emit := func(start, end int, repl, kind string, pos token.Pos) {
				enc.Encode(mut{rel, start, end, repl, kind, fset.Position(pos).Line, fname})
			}
			src, _ := os.ReadFile(path)
			text := func(n ast.Node) string { return string(src[off(n.Pos()):off(n.End())]) }
			if set2 {
				ast.Inspect(fd.Body, func(n ast.Node) bool {
					switch x := n.(type) {
					case *ast.IfStmt:
						c := x.Cond
						emit(off(c.Pos()), off(c.End()), "!("+text(c)+")", "negate if", c.Pos())
						emit(off(c.Pos()), off(c.End()), "false && ("+text(c)+")", "if false", c.Pos())
					case *ast.ForStmt:
						if x.Cond != nil {
							c := x.Cond
							emit(off(c.Pos()), off(c.End()), "!("+text(c)+")", "negate for", c.Pos())
						}
					case *ast.CallExpr:
						for i := 0; i+1 < len(x.Args); i++ {
							a, b := x.Args[i], x.Args[i+1]
							if text(a) == text(b) {
								continue
							}
							emit(off(a.Pos()), off(b.End()), text(b)+string(src[off(a.End()):off(b.Pos())])+text(a), "swap args", a.Pos())
						}
					case *ast.ReturnStmt:
						for i := 0; i+1 < len(x.Results); i++ {
							a, b := x.Results[i], x.Results[i+1]
							if text(a) == text(b) {
								continue
							}
							emit(off(a.Pos()), off(b.End()), text(b)+string(src[off(a.End()):off(b.Pos())])+text(a), "swap results", a.Pos())
						}
					case *ast.DeferStmt:
						emit(off(x.Pos()), off(x.End()), "_ = 0", "delete defer", x.Pos())
					case *ast.SliceExpr:
						if x.Low != nil && x.High == nil {
							emit(off(x.Low.Pos()), off(x.Low.End()), "("+text(x.Low)+")+1", "slice low+1", x.Low.Pos())
						}
						if x.High != nil && x.Low == nil {
							emit(off(x.High.Pos()), off(x.High.End()), "("+text(x.High)+")-1", "slice high-1", x.High.Pos())
						}
					}
					return true
				})
				continue
			}
			ast.Inspect(fd.Body, func(n ast.Node) bool {
				switch x := n.(type) {
				case *ast.BinaryExpr:
					alts := map[token.Token][]string{
						token.LSS: {"<=", "=="}, token.LEQ: {"<"}, token.GTR: {">=", "=="}, token.GEQ: {">"},
						token.EQL: {"!="}, token.NEQ: {"=="}, token.LAND: {"||"}, token.LOR: {"&&"},
						token.ADD: {"-"}, token.SUB: {"+"},
					}
					for _, r := range alts[x.Op] {
						if x.Op == token.ADD {
							// skip string concatenation
							if bl, ok := x.X.(*ast.BasicLit); ok && bl.Kind == token.STRING {
								continue
							}
							if bl, ok := x.Y.(*ast.BasicLit); ok && bl.Kind == token.STRING {
								continue
							}
						}
						emit(off(x.OpPos), off(x.OpPos)+len(x.Op.String()), r, "binop "+x.Op.String()+"->"+r, x.OpPos)
					}
				case *ast.BasicLit:
					if x.Kind == token.INT {
						if v, err := strconv.ParseInt(x.Value, 0, 64); err == nil {
							emit(off(x.Pos()), off(x.End()), fmt.Sprint(v+1), "const+1", x.Pos())
							if v > 0 {
								emit(off(x.Pos()), off(x.End()), fmt.Sprint(v-1), "const-1", x.Pos())
							}
						}
					}
				case *ast.UnaryExpr:
					if x.Op == token.NOT {
						emit(off(x.OpPos), off(x.OpPos)+1, "", "drop !", x.OpPos)
					}
				case *ast.AssignStmt:
					if x.Tok == token.ADD_ASSIGN {
						emit(off(x.TokPos), off(x.TokPos)+2, "=", "+= -> =", x.TokPos)
					}
					if x.Tok == token.ASSIGN && len(x.Lhs) == 1 {
						// statement deletion of a plain assignment (only if it leaves the code compiling: tried by the driver)
						emit(off(x.Pos()), off(x.End()), "_ = 0", "delete assignment", x.Pos())
					}
				case *ast.IncDecStmt:
					emit(off(x.Pos()), off(x.End()), "_ = 0", "delete inc/dec", x.Pos())
				case *ast.ReturnStmt:
					// return …, err  ->  return …, nil
					if len(x.Results) >= 2 {
						if id, ok := x.Results[len(x.Results)-1].(*ast.Ident); ok && id.Name == "err" {
							emit(off(id.Pos()), off(id.End()), "nil", "return err -> nil", id.Pos())
						}
					}
				case *ast.BranchStmt:
					if x.Tok == token.CONTINUE {
						emit(off(x.Pos()), off(x.End()), "break", "continue -> break", x.Pos())
					} else if x.Tok == token.BREAK && x.Label == nil {
						emit(off(x.Pos()), off(x.End()), "continue", "break -> continue", x.Pos())
					}
				case *ast.ExprStmt:
					if call, ok := x.X.(*ast.CallExpr); ok {
						// delete a call statement (Lock/Unlock, Reset, setters …)
						if sel, ok := call.Fun.(*ast.SelectorExpr); ok {
							emit(off(x.Pos()), off(x.End()), "_ = 0", "delete call "+sel.Sel.Name, x.Pos())
						}
					}
				}
				return true
			})
		}
		return nil
	})
}
