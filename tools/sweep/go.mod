module mutgen

go 1.21
