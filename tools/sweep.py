#!/usr/bin/env python3
"""Developer tool: mutation sweep of /repo against the checks.
  sweep.py [--jobs N] [--only substr] [--limit K] --out results.jsonl
For every single-point mutation listed by bin/mutgen: apply it to a scratch copy, build, run the pinned test suite; a mutant
the suite does not kill (a "survivor") is then given to all claimed checks, and the checks that alarm are recorded.
Survivors no check reports are the interesting output: each is either an equivalent mutant, a change no listed property
cares about, or a blind spot of the rules (triaged by hand; findings recorded in DESIGN.md §10).
Scratch copies live under /tmp and are removed as soon as a mutant is done."""
import argparse, concurrent.futures as cf, json, os, shutil, subprocess, sys, tempfile
V = os.path.dirname(os.path.dirname(os.path.abspath(__file__)))
ENV = dict(os.environ, GOFLAGS="-mod=mod", GOPROXY="off", GOSUMDB="off", GOTOOLCHAIN="local"); ENV.pop("GOWORK", None)
PROPS = [c["property_id"] for c in json.load(open(os.path.join(V, "MANIFEST.json")))["checks"]]

def run(m):
    tmp = tempfile.mkdtemp(prefix="uxsweep-")
    try:
        dst = os.path.join(tmp, "repo"); shutil.copytree("/repo", dst, ignore=shutil.ignore_patterns(".git"))
        p = os.path.join(dst, m["file"]); src = open(p, "rb").read()
        open(p, "wb").write(src[:m["start"]] + m["repl"].encode() + src[m["end"]:])
        if subprocess.run("go build ./...", shell=True, cwd=dst, env=ENV, capture_output=True).returncode != 0:
            return dict(m, status="nobuild")
        try:
            t = subprocess.run("go test -vet=off -count=1 -timeout 240s ./...", shell=True, cwd=dst, env=ENV, capture_output=True, text=True, errors="replace", timeout=400)
        except subprocess.TimeoutExpired:
            return dict(m, status="killed", how="timeout")
        if t.returncode != 0:
            return dict(m, status="killed")
        alarms = {}
        for prop in PROPS:
            c = subprocess.run([os.environ.get("UXBIN", os.path.join(V, "bin", "uxcheck")), "-prop", prop, "-tier", "quick", "-repo", dst, "-verif", V, "-no-evidence"], env=ENV, capture_output=True, text=True)
            if c.returncode != 0:
                lines = [l.strip() for l in (c.stdout + c.stderr).splitlines() if l.startswith("  violated") or l.startswith("UNDECIDED")]
                alarms[prop] = {"exit": c.returncode, "first": (lines[0][:240] if lines else "")}
        return dict(m, status="survivor", alarms=alarms)
    finally:
        shutil.rmtree(tmp, ignore_errors=True)

def recheck(m):
    """Re-run the checks (not the suite) on a recorded survivor that no check reported."""
    tmp = tempfile.mkdtemp(prefix="uxsweep-")
    try:
        dst = os.path.join(tmp, "repo"); shutil.copytree("/repo", dst, ignore=shutil.ignore_patterns(".git"))
        p = os.path.join(dst, m["file"]); src = open(p, "rb").read()
        open(p, "wb").write(src[:m["start"]] + m["repl"].encode() + src[m["end"]:])
        alarms = {}
        for prop in PROPS:
            c = subprocess.run([os.environ.get("UXBIN", os.path.join(V, "bin", "uxcheck")), "-prop", prop, "-tier", "quick", "-repo", dst, "-verif", V, "-no-evidence"], env=ENV, capture_output=True, text=True, errors="replace")
            if c.returncode != 0:
                lines = [l.strip() for l in (c.stdout + c.stderr).splitlines() if l.startswith("  violated") or l.startswith("UNDECIDED")]
                alarms[prop] = {"exit": c.returncode, "first": (lines[0][:240] if lines else "")}
        return dict(m, alarms=alarms, rechecked=True)
    finally:
        shutil.rmtree(tmp, ignore_errors=True)

def main():
    ap = argparse.ArgumentParser(); ap.add_argument("--jobs", type=int, default=4); ap.add_argument("--only"); ap.add_argument("--limit", type=int); ap.add_argument("--out", required=True); ap.add_argument("--recheck"); ap.add_argument("--set2", action="store_true")
    a = ap.parse_args()
    if a.recheck:
        # --recheck OLD.jsonl: survivors of OLD that no check reported are checked again with the current binary
        old = [json.loads(l) for l in open(a.recheck)]
        todo = [r for r in old if r["status"] == "survivor" and not r["alarms"]]
        print("survivors to recheck:", len(todo), flush=True)
        with open(a.out, "w") as f, cf.ThreadPoolExecutor(max_workers=a.jobs) as ex:
            for r in ex.map(recheck, todo):
                f.write(json.dumps(r) + "\n"); f.flush()
                print("recheck %s:%d %s [%s] alarms=%s" % (r["file"], r["line"], r["kind"], r["func"], ",".join(sorted(r["alarms"])) or "NONE"), flush=True)
        return 0
    out = subprocess.run([os.path.join(V, "bin", "mutgen"), "/repo"] + (["set2"] if a.set2 else []), capture_output=True, text=True).stdout
    muts = [json.loads(l) for l in out.splitlines()]
    if a.only: muts = [m for m in muts if a.only in m["file"]]
    if a.limit: muts = muts[:a.limit]
    done = set()
    if os.path.exists(a.out):
        for l in open(a.out):
            r = json.loads(l); done.add((r["file"], r["start"], r["repl"]))
    muts = [m for m in muts if (m["file"], m["start"], m["repl"]) not in done]
    print("mutants to run:", len(muts), flush=True)
    with open(a.out, "a") as f, cf.ThreadPoolExecutor(max_workers=a.jobs) as ex:
        for r in ex.map(run, muts):
            f.write(json.dumps(r) + "\n"); f.flush()
            if r["status"] == "survivor":
                print("survivor %s:%d %s [%s] alarms=%s" % (r["file"], r["line"], r["kind"], r["func"], ",".join(sorted(r["alarms"])) or "NONE"), flush=True)
if __name__ == "__main__": sys.exit(main())
