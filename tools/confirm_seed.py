#!/usr/bin/env python3
"""Confirms a seeded change in its scratch worktree: (a) pristine: demo passes; (b) patched: builds, the whole existing
suite passes, demo fails. Then runs every registered check of /verif on the patched worktree.
usage: confirm_seed.py <worktree> <A|B> <pkgdir> '<go test args for the demo>'"""
import json, os, subprocess, sys
wt, v, pkgdir, demo_args = sys.argv[1:5]
ENV = dict(os.environ, GOFLAGS="-mod=mod", GOPROXY="off", GOSUMDB="off", GOTOOLCHAIN="local"); ENV.pop("GOWORK", None)
def sh(cmd, **kw): return subprocess.run(cmd, shell=True, cwd=wt, env=ENV, capture_output=True, text=True, **kw)
seed = os.path.join(wt, "_seed")
demo_dst = os.path.join(wt, pkgdir, "zz_seed_demo_test.go")
res = {"worktree": wt, "variant": v}
sh("git checkout -- . && git clean -fdq -e _seed")
import shutil
shutil.copy(os.path.join(seed, v + ".demo_test.go"), demo_dst)
r = sh("go test %s" % demo_args); res["pristine_demo_pass"] = r.returncode == 0
res["pristine_demo_tail"] = (r.stdout + r.stderr)[-300:]
os.remove(demo_dst)
r = sh("git apply _seed/%s.patch.diff" % v); res["applies"] = r.returncode == 0
r = sh("go build ./..."); res["builds"] = r.returncode == 0
r = sh("go test -vet=off -count=1 -timeout 25m ./..."); res["suite_passes"] = r.returncode == 0
res["suite_tail"] = (r.stdout + r.stderr)[-400:] if r.returncode else ""
shutil.copy(os.path.join(seed, v + ".demo_test.go"), demo_dst)
r = sh("go test %s" % demo_args); res["patched_demo_fails"] = r.returncode != 0
res["patched_demo_tail"] = (r.stdout + r.stderr)[-500:]
os.remove(demo_dst)
# checks
V = "/verif"
props = [c["property_id"] for c in json.load(open(V + "/MANIFEST.json"))["checks"]]
hits = {}
for p in props:
    c = subprocess.run([V + "/bin/uxcheck", "-prop", p, "-tier", "quick", "-repo", wt, "-verif", V, "-no-evidence"], env=ENV, capture_output=True, text=True)
    if c.returncode != 0:
        hits[p] = {"exit": c.returncode, "lines": [l.strip()[:400] for l in (c.stdout + c.stderr).splitlines() if l.startswith("  violated") or l.startswith("UNDECIDED")]}
res["checks_alarmed"] = hits
sh("git checkout -- . && git clean -fdq -e _seed")
json.dump(res, open(os.path.join(seed, v + ".confirm.json"), "w"), indent=1)
print(json.dumps({k: res[k] for k in ("worktree", "variant", "pristine_demo_pass", "applies", "builds", "suite_passes", "patched_demo_fails")}), "ALARMS:", {k: [l[:160] for l in x["lines"]] for k, x in hits.items()})
