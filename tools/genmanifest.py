#!/usr/bin/env python3
"""Regenerates /verif/MANIFEST.json from tools/manifest_src.json (per-property texts) so the file stays valid."""
import json, os
V = os.path.dirname(os.path.dirname(os.path.abspath(__file__)))
src = json.load(open(os.path.join(V, "tools", "manifest_src.json")))
checks = []
for pid in sorted(src["claimed"]):
    c = src["claimed"][pid]
    checks.append({
        "property_id": pid,
        "quick_cmd": "./run.sh %s quick" % pid,
        "thorough_cmd": "./run.sh %s thorough" % pid,
        "evidence_file": "/verif/evidence/%s.json" % pid,
        "replay_cmd_template": "./run.sh explain {path}",
        "engine": "uxcheck",
        "level_claimed": {"category": "other", "text": c["text"], "design_ref": c["design_ref"]},
        "level_note": c["note"],
        "technique": c["technique"],
    })
m = {
    "version": 1,
    "setup_cmd": "./setup.sh",
    "hooks": src["hooks"],
    "engines": [{"name": "uxcheck", "path": "/verif/checker", "serves_properties": sorted(src["claimed"]),
                 "kind_free_text": "custom static analyser (go/packages + go/types + go/ssa, x/tools v0.29.0): repository-specific rules over the resolved program; closed-world call graph; path-sensitive CFG exploration; table agreement; no repository code is executed"}],
    "checks": checks,
    "notes": src["notes"],
    "not_applicable": src["not_applicable"],
}
json.dump(m, open(os.path.join(V, "MANIFEST.json"), "w"), indent=1)
print("MANIFEST.json:", len(checks), "checks,", len(m["not_applicable"]), "not applicable")
