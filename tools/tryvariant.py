#!/usr/bin/env python3
"""Developer helper: apply one diff to a scratch copy of /repo and run the named checks on it, printing full verdict lines.
  tryvariant.py <diff> [Cxx ...]      (all claimed properties when none is named)
The scratch copy lives under /tmp and is removed before the tool returns."""
import json, os, shutil, subprocess, sys, tempfile
V=os.path.dirname(os.path.dirname(os.path.abspath(__file__)))
ENV=dict(os.environ,GOFLAGS="-mod=mod",GOPROXY="off",GOSUMDB="off",GOTOOLCHAIN="local"); ENV.pop("GOWORK",None)
def main():
    diff=os.path.abspath(sys.argv[1]); props=sys.argv[2:] or [c["property_id"] for c in json.load(open(os.path.join(V,"MANIFEST.json")))["checks"]]
    tmp=tempfile.mkdtemp(prefix="uxtry-")
    try:
        dst=os.path.join(tmp,"repo"); shutil.copytree("/repo",dst,ignore=shutil.ignore_patterns(".git"))
        p=subprocess.run(["patch","-p1","-s","--no-backup-if-mismatch","-i",diff],cwd=dst,capture_output=True,text=True)
        if p.returncode!=0: print("patch failed",p.stdout,p.stderr); return 3
        b=subprocess.run("go build ./...",shell=True,cwd=dst,env=ENV,capture_output=True,text=True)
        if b.returncode!=0: print("no build",(b.stdout+b.stderr)[-600:]); return 3
        rc=0
        for prop in props:
            c=subprocess.run([os.environ.get("UXBIN",os.path.join(V,"bin","uxcheck")),"-prop",prop,"-tier","quick","-repo",dst,"-verif",V,"-no-evidence"],env=ENV,capture_output=True,text=True)
            print("%s exit=%d"%(prop,c.returncode))
            for l in (c.stdout+c.stderr).splitlines():
                if l.startswith("  violated") or l.startswith("UNDECIDED") or l.startswith("panic") or l.startswith("goroutine"): print("   ",l.strip()[:900])
            rc|=c.returncode
        return rc
    finally: shutil.rmtree(tmp,ignore_errors=True)
if __name__=="__main__": sys.exit(main())
