#!/usr/bin/env python3
"""False-alarm corpus: behaviour-preserving edits of /repo. Every check must stay silent (exit 0) on each of them.
  benign.py [--only name] [--jobs N]
Exit 0 when no check raises an alarm or goes undecided on any benign variant; exit 2 otherwise."""
import argparse, concurrent.futures as cf, json, os, shutil, subprocess, sys, tempfile
V=os.path.dirname(os.path.abspath(__file__))
ENV=dict(os.environ,GOFLAGS="-mod=mod",GOPROXY="off",GOSUMDB="off",GOTOOLCHAIN="local"); ENV.pop("GOWORK",None)
PROPS=[c["property_id"] for c in json.load(open(os.path.join(V,"MANIFEST.json")))["checks"]]
if os.environ.get("BENIGN_PROPS"): PROPS=[p for p in PROPS if p in os.environ["BENIGN_PROPS"].split(",")]  # developer shortcut: only the checks whose rules changed
def run(e):
    tmp=tempfile.mkdtemp(prefix="uxben-")
    try:
        dst=os.path.join(tmp,"repo"); shutil.copytree("/repo",dst,ignore=shutil.ignore_patterns(".git"))
        p=subprocess.run(["patch","-p1","-s","--no-backup-if-mismatch","-i",os.path.join(V,"benign",e["file"])],cwd=dst,capture_output=True,text=True)
        if p.returncode!=0: return e["name"],"skipped",[p.stdout+p.stderr]
        b=subprocess.run("go build -trimpath ./... && go test -trimpath -count=1 -exec /bin/true ./... >/dev/null",shell=True,cwd=dst,env=ENV,capture_output=True,text=True)
        if b.returncode!=0: return e["name"],"nobuild",[(b.stdout+b.stderr)[-300:]]
        alarms=[]
        for prop in PROPS:
            c=subprocess.run([os.environ.get("UXBIN",os.path.join(V,"bin","uxcheck")),"-prop",prop,"-tier","quick","-repo",dst,"-verif",V,"-no-evidence"],env=ENV,capture_output=True,text=True)
            if c.returncode!=0:
                lines=[l.strip() for l in (c.stdout+c.stderr).splitlines() if l.startswith("  violated") or l.startswith("UNDECIDED")]
                alarms.append("%s exit=%d %s"%(prop,c.returncode," | ".join(lines)[:400]))
        return e["name"],("alarm" if alarms else "quiet"),alarms
    finally: shutil.rmtree(tmp,ignore_errors=True)
def main():
    ap=argparse.ArgumentParser(); ap.add_argument("--only"); ap.add_argument("--jobs",type=int,default=4); a=ap.parse_args()
    idx=[e for e in json.load(open(os.path.join(V,"benign","index.json"))) if not a.only or a.only in e["name"]]
    bad=0; nlim=0
    with cf.ThreadPoolExecutor(max_workers=a.jobs) as ex:
        for name,st,al in ex.map(run,idx):
            lim=next((e.get("known_limit") for e in idx if e["name"]==name),None)
            if st=="alarm" and lim: st="limit"
            print("%-8s %s"%(st,name))
            for x in al: print("    ",x)
            if st=="limit": print("     known limit:",lim); nlim+=1
            elif st!="quiet": bad+=1
    print("benign variants: %d, not quiet: %d, known limits (false alarms not yet removed): %d"%(len(idx),bad,nlim)); return 2 if bad else 0
if __name__=="__main__": sys.exit(main())
