#!/bin/sh
# thorough tier for one property:
#   1. the quick rules again under GOARCH=386 (int is 32 bit: matters to the position-arithmetic rules),
#   2. for C13, the Go compiler's own list of bounds checks it could not eliminate (static) as a completeness
#      cross-check of the may-panic enumerator,
#   3. replay of the property's mutant corpus and the seeded changes on scratch copies (liveness of every rule),
#   4. the rules on linux/amd64 with the A1 audit and the results of 1–3 recorded in the evidence.
# Exit 1 + VIOLATION only for a violated obligation of /repo's tree (either architecture); exit 2 when the checker is
# weak/undecided (a mutant escaped, an anchor is gone); never VIOLATION for a weakness of the checker itself.
set -u
cd "$(dirname "$0")"
PROP="$1"; REPO="${2:-/repo}"
export GOFLAGS=-mod=mod GOPROXY=off GOSUMDB=off GOTOOLCHAIN=local
unset GOWORK
TMP=$(mktemp -d /tmp/uxthorough.XXXXXX)
trap 'rm -rf "$TMP"' EXIT
bin/uxcheck -prop "$PROP" -tier thorough -repo "$REPO" -verif "$(pwd)" -goarch 386 -no-evidence > "$TMP/386.log" 2>&1
rc386=$?
grep -E '^(  violated|UNDECIDED|KNOWN-FINDING)' "$TMP/386.log" | sed 's/^/[386] /'
V386=$(grep -c '^VIOLATION' "$TMP/386.log")
if [ "$PROP" = "C13" ]; then
  (cd "$REPO" && go build -gcflags='github.com/ipfs/go-unixfsnode/...=-d=ssa/check_bce/debug=1' ./... 2> "$TMP/bce.txt" >/dev/null) || true
  export VERIF_BCE_FILE="$TMP/bce.txt"
fi
python3 mutants.py --prop "$PROP" --seeded --repo "$REPO" --json "evidence/mutants-$PROP.json" > "$TMP/mut.log" 2>&1
rcm=$?
tail -n 2 "$TMP/mut.log"; grep CHECKER-WEAK "$TMP/mut.log"
VERIF_EXTRA_386_RC=$rc386 VERIF_EXTRA_MUT_RC=$rcm bin/uxcheck -prop "$PROP" -tier thorough -repo "$REPO" -verif "$(pwd)"
rc=$?
if [ $rc -eq 0 ] && [ $rc386 -eq 1 ]; then
  echo "VIOLATION property=$PROP replay=$(pwd)/evidence/$PROP.json (GOARCH=386 run reported $V386 violation(s); see [386] lines above)"; exit 1
fi
if [ $rc -eq 0 ] && { [ $rc386 -ne 0 ] || [ $rcm -ne 0 ]; }; then exit 2; fi
exit $rc
