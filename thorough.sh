#!/bin/sh
# thorough tier: quick rules on linux/amd64 AND linux/386 (int width changes position arithmetic),
# then the mutant corpus of the property replayed on scratch copies (liveness of every rule).
set -u
cd "$(dirname "$0")"
PROP="$1"; REPO="${2:-/repo}"
export GOFLAGS=-mod=mod GOPROXY=off GOSUMDB=off GOTOOLCHAIN=local
unset GOWORK
bin/uxcheck -prop "$PROP" -tier thorough -repo "$REPO" -verif "$(pwd)" -goarch 386 -no-evidence > /tmp/uxcheck-386-$$.log 2>&1
rc386=$?
grep -E '^(  violated|UNDECIDED|KNOWN-FINDING)' /tmp/uxcheck-386-$$.log | sed 's/^/[386] /'
V386=$(grep -c '^VIOLATION' /tmp/uxcheck-386-$$.log); rm -f /tmp/uxcheck-386-$$.log
python3 mutants.py --prop "$PROP" --seeded --repo "$REPO" --json "evidence/mutants-$PROP.json" > /tmp/uxmut-$$.log 2>&1
rcm=$?
tail -n 3 /tmp/uxmut-$$.log; grep CHECKER-WEAK /tmp/uxmut-$$.log; rm -f /tmp/uxmut-$$.log
VERIF_EXTRA_386_RC=$rc386 VERIF_EXTRA_MUT_RC=$rcm bin/uxcheck -prop "$PROP" -tier thorough -repo "$REPO" -verif "$(pwd)"
rc=$?
if [ $rc -eq 0 ] && [ $rc386 -eq 1 ]; then
  echo "VIOLATION property=$PROP replay=$(pwd)/evidence/$PROP.json (GOARCH=386 run reported $V386 violation(s); see [386] lines above)"; exit 1
fi
if [ $rc -eq 0 ] && { [ $rc386 -ne 0 ] || [ $rcm -ne 0 ]; }; then exit 2; fi
exit $rc
